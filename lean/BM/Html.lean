import BM.Basic
import BM.Gen.Entities
/-
  Model of golang.org/x/net/html v0.26.0: Tokenizer (token.go), Token.String,
  escape / escapeComment / unescape (escape.go).  Byte-exact, including its
  deviations from the WHATWG tokenizer.  Buffer management and chunked reads are
  not modelled: the tokenizer is a pure function of the whole input.
-/
namespace BM.Html

inductive TT where
  | text | start | end_ | selfClosing | comment | doctype
  deriving Repr, BEq, DecidableEq, Inhabited

structure Attr where
  key : Bytes
  val : Bytes
  deriving Repr, BEq, DecidableEq, Inhabited

structure Token where
  tt : TT
  data : Bytes
  attrs : List Attr := []
  deriving Repr, BEq, DecidableEq, Inhabited

/-! ### escape.go -/

/-- `escape`: the six characters `& ' < > " \r`. -/
def escape : Bytes → Bytes
  | [] => []
  | c :: cs =>
    if c == 38 then b!"&amp;" ++ escape cs
    else if c == 39 then b!"&#39;" ++ escape cs
    else if c == 60 then b!"&lt;" ++ escape cs
    else if c == 62 then b!"&gt;" ++ escape cs
    else if c == 34 then b!"&#34;" ++ escape cs
    else if c == 13 then b!"&#13;" ++ escape cs
    else c :: escape cs

/-- `escapeComment`: `&` always; `>` when first, or preceded by `!` or `-`. -/
def escapeCommentAux : Option UInt8 → Bytes → Bytes
  | _, [] => []
  | prev, c :: cs =>
    if c == 38 then b!"&amp;" ++ escapeCommentAux (some c) cs
    else if c == 62 then
      match prev with
      | none => b!"&gt;" ++ escapeCommentAux (some c) cs
      | some p =>
        if p != 33 && p != 45 then c :: escapeCommentAux (some c) cs
        else b!"&gt;" ++ escapeCommentAux (some c) cs
    else c :: escapeCommentAux (some c) cs

def escapeComment (s : Bytes) : Bytes := escapeCommentAux none s

def replacementTable : List Rune :=
  [0x20AC, 0x0081, 0x201A, 0x0192, 0x201E, 0x2026, 0x2020, 0x2021, 0x02C6, 0x2030, 0x0160,
   0x2039, 0x0152, 0x008D, 0x017D, 0x008F, 0x0090, 0x2018, 0x2019, 0x201C, 0x201D, 0x2022,
   0x2013, 0x2014, 0x02DC, 0x2122, 0x0161, 0x203A, 0x0153, 0x009D, 0x017E, 0x0178]

def lookupEntity (name : Bytes) : Option (Rune × Rune) :=
  (Gen.entities.find? fun e => e.1 == name).map fun e => (e.2.1, e.2.2)

/-- Go's `x = 16*x + d` on `rune` (= int32) wraps; we keep the value modulo 2^32. -/
def wrap32 (n : Nat) : Nat := n % 4294967296

/-- A wrapped int32 seen as a rune for the range tests and `EncodeRune`:
    negative values (≥ 2^31 here) are "out of range" for EncodeRune but pass
    none of the `x == 0`, surrogate or `x > 0x10FFFF` tests. -/
def numericRune (x : Nat) : Rune :=
  if x ≥ 2147483648 then runeError           -- negative int32: EncodeRune gives U+FFFD
  else if 0x80 ≤ x && x ≤ 0x9F then replacementTable.getD (x - 0x80) runeError
  else if x == 0 || (0xD800 ≤ x && x ≤ 0xDFFF) || x > 0x10FFFF then runeError
  else x

/-- digits loop of the numeric branch: returns (value, number of bytes consumed from `s`). -/
def numLoop (hex : Bool) : Bytes → Nat → Nat → Nat × Nat
  | [], x, n => (x, n)
  | c :: cs, x, n =>
    if hex then
      if isDigit c then numLoop hex cs (wrap32 (16 * x + (c.toNat - 48))) (n + 1)
      else if 97 ≤ c && c ≤ 102 then numLoop hex cs (wrap32 (16 * x + (c.toNat - 87))) (n + 1)
      else if 65 ≤ c && c ≤ 70 then numLoop hex cs (wrap32 (16 * x + (c.toNat - 55))) (n + 1)
      else if c == 59 then (x, n + 1) else (x, n)
    else
      if isDigit c then numLoop hex cs (wrap32 (10 * x + (c.toNat - 48))) (n + 1)
      else if c == 59 then (x, n + 1) else (x, n)

/-- prefix search of the non-attrMode branch: `j` from `maxLen` down to 2. -/
def prefixEntity (name : Bytes) : Nat → Option (Rune × Nat)
  | 0 => none
  | j + 1 =>
    if j + 1 ≤ 1 then none
    else match lookupEntity (name.take (j + 1)) with
      | some (r, 0) => some (r, j + 1)
      | _ => prefixEntity name j

/-- `unescapeEntity` on a string that starts with `&`: output bytes and bytes consumed. -/
def unescapeEntity (attrMode : Bool) (s : Bytes) : Bytes × Nat :=
  match s with
  | [] => ([], 0)
  | [_] => ([38], 1)
  | _ :: c1 :: rest =>
    if c1 == 35 then                       -- '#'
      if s.length ≤ 3 then ([38], 1)
      else
        let (hex, digits, i0) := match rest with
          | c2 :: r2 => if c2 == 120 || c2 == 88 then (true, r2, 3) else (false, rest, 2)
          | [] => (false, rest, 2)
        let (x, n) := numLoop hex digits 0 0
        let i := i0 + n
        if i ≤ 3 then ([38], 1)
        else (encodeRune (numericRune x), i)
    else
      let body := (c1 :: rest).takeWhile isAlnum
      let after := (c1 :: rest).drop body.length
      let (name, i) := match after with
        | c :: _ => if c == 59 then (body ++ [59], body.length + 2) else (body, body.length + 1)
        | [] => (body, body.length + 1)
      if name.isEmpty then ([38], 1)
      else if attrMode && name.getLast? != some 59 && (s.drop i).head? == some 61 then
        (s.take i, i)
      else match lookupEntity name with
        | some (r, 0) => (encodeRune r, i)
        | some (r1, r2) => (encodeRune r1 ++ encodeRune r2, i)
        | none =>
          if !attrMode then
            match prefixEntity name (min (name.length - 1) 6) with
            | some (r, j) => (encodeRune r, j + 1)
            | none => (s.take i, i)
          else (s.take i, i)

def unescapeAux (attrMode : Bool) : Nat → Bytes → Bytes
  | 0, s => s
  | _, [] => []
  | fuel + 1, c :: cs =>
    if c == 38 then
      let (out, n) := unescapeEntity attrMode (c :: cs)
      out ++ unescapeAux attrMode fuel ((c :: cs).drop (max n 1))
    else c :: unescapeAux attrMode fuel cs

def unescape (attrMode : Bool) (s : Bytes) : Bytes := unescapeAux attrMode (s.length + 1) s

/-! ### token.go: decoding helpers -/

def convertNewlines : Bytes → Bytes
  | [] => []
  | [c] => if c == 13 then [10] else [c]
  | c :: d :: cs =>
    if c == 13 then
      if d == 10 then 10 :: convertNewlines cs else 10 :: convertNewlines (d :: cs)
    else c :: convertNewlines (d :: cs)

def replaceNul : Bytes → Bytes
  | [] => []
  | c :: cs => if c == 0 then 0xEF :: 0xBF :: 0xBD :: replaceNul cs else c :: replaceNul cs

/-- `Tokenizer.Text` for text/comment/doctype tokens. -/
def textData (s : Bytes) (convertNUL isRaw : Bool) : Bytes :=
  let s := convertNewlines s
  let s := if convertNUL then replaceNul s else s
  if isRaw then s else unescape false s

/-! ### token.go: raw lexing.  `none` always means "hit end of input" (`z.err`). -/

def skipWs : Bytes → Bytes
  | [] => []
  | c :: cs => if isWs c then skipWs cs else c :: cs

/-- readTagName; the input starts at the first byte of the name. -/
def readTagNameAux : Bytes → Option (Bytes × Bytes)
  | [] => none
  | c :: cs =>
    if isWs c then some ([], cs)
    else if c == 47 || c == 62 then some ([], c :: cs)
    else (readTagNameAux cs).map fun (n, r) => (c :: n, r)

def readTagName : Bytes → Option (Bytes × Bytes)
  | [] => none
  | c :: cs => (readTagNameAux cs).map fun (n, r) => (c :: n, r)

def keyStop (c : UInt8) : Bool := c == 61 || isWs c || c == 47 || c == 62

def keyBody : Bytes → Option (Bytes × Bytes)
  | [] => none
  | c :: cs => if keyStop c then some ([], c :: cs) else (keyBody cs).map fun (k, r) => (c :: k, r)

/-- readTagAttrKey (an `=` at index 0 is part of the key). -/
def readKey : Bytes → Option (Bytes × Bytes)
  | [] => none
  | c :: cs => if c == 61 then (keyBody cs).map fun (k, r) => (c :: k, r) else keyBody (c :: cs)

def readQuoted (q : UInt8) : Bytes → Option (Bytes × Bytes)
  | [] => none
  | c :: cs => if c == q then some ([], cs) else (readQuoted q cs).map fun (v, r) => (c :: v, r)

def readUnquoted : Bytes → Option (Bytes × Bytes)
  | [] => none
  | c :: cs =>
    if isWs c then some ([], cs)
    else if c == 62 then some ([], c :: cs)
    else (readUnquoted cs).map fun (v, r) => (c :: v, r)

/-- readTagAttrVal. -/
def readVal (s : Bytes) : Option (Bytes × Bytes) :=
  match skipWs s with
  | [] => none
  | c :: r1 =>
    if c == 47 then some ([], r1)
    else if c != 61 then some ([], c :: r1)
    else match skipWs r1 with
      | [] => none
      | q :: r2 =>
        if q == 62 then some ([], q :: r2)
        else if q == 39 || q == 34 then readQuoted q r2
        else (readUnquoted r2).map fun (v, r) => (q :: v, r)

/-- the attrMode loop of readTag; the input is positioned after the name and whitespace. -/
def readAttrs : Nat → Bytes → List Attr → Option (List Attr × Bytes)
  | 0, _, _ => none
  | _, [], _ => none
  | fuel + 1, c :: cs, acc =>
    if c == 62 then some (acc.reverse, cs)
    else match readKey (c :: cs) with
      | none => none
      | some (k, r1) => match readVal r1 with
        | none => none
        | some (v, r2) =>
          let acc' := if k.isEmpty then acc else ⟨k, v⟩ :: acc
          match skipWs r2 with
          | [] => none
          | r3 => readAttrs fuel r3 acc'

/-- readTag: raw name, raw attributes, rest.  Input starts at the first name byte. -/
def readTag (s : Bytes) : Option (Bytes × List Attr × Bytes) :=
  match readTagName s with
  | none => none
  | some (name, r1) =>
    match skipWs r1 with
    | [] => none
    | r2 => (readAttrs (r2.length + 1) r2 []).map fun (as, r) => (name, as, r)

def readUntilCloseAngle : Bytes → Bytes × Bytes
  | [] => ([], [])
  | c :: cs => if c == 62 then ([], cs) else
    let (d, r) := readUntilCloseAngle cs; (c :: d, r)

/-- abrupt end of a comment: strip a trailing `--!`, `--` or `-`. -/
def abruptCommentData (b : Bytes) : Bytes :=
  if hasSuffix b!"--!" b then b.take (b.length - 3)
  else if hasSuffix b!"--" b then b.take (b.length - 2)
  else if hasSuffix b!"-" b then b.take (b.length - 1)
  else b

/-- readComment state machine.  `all` is the comment body (everything after `<!--`),
    `pos` the number of bytes consumed so far.  Returns (data, rest). -/
def readCommentAux (all : Bytes) : Nat → Bytes → Nat → Nat → Bool → Bytes × Bytes
  | 0, _, _, _, _ => (abruptCommentData all, [])
  | _, [], _, _, _ => (abruptCommentData all, [])
  | fuel + 1, c :: cs, pos, dash, beginning =>
    if c == 45 then readCommentAux all fuel cs (pos + 1) (dash + 1) beginning
    else if c == 62 then
      if dash ≥ 2 || beginning then (all.take (pos - 2), cs)
      else readCommentAux all fuel cs (pos + 1) 0 false
    else if c == 33 && dash ≥ 2 then
      match cs with
      | [] => (abruptCommentData all, [])
      | c2 :: cs2 =>
        if c2 == 62 then (all.take (pos - 2), cs2)
        else if c2 == 45 then readCommentAux all fuel cs2 (pos + 2) 1 false
        else readCommentAux all fuel cs2 (pos + 2) 0 false
    else readCommentAux all fuel cs (pos + 1) 0 false

def readComment (b : Bytes) : Bytes × Bytes := readCommentAux b (b.length + 1) b 0 0 true

def matchCI : Bytes → Bytes → Bool
  | [], _ => true
  | _ :: _, [] => false
  | p :: ps, c :: cs => (lowerByte c == p) && matchCI ps cs

/-- readMarkupDeclaration: input is what follows `<!`.  Returns (type, raw data, rest). -/
def readMarkupDeclaration (s : Bytes) : TT × Bytes × Bytes :=
  match s with
  | [] => (.comment, [], [])
  | [c] => (.comment, [c], [])
  | c0 :: c1 :: r =>
    if c0 == 45 && c1 == 45 then
      let (d, rest) := readComment r
      (.comment, d, rest)
    else if s.length < 7 && matchCI (lowerAscii s) b!"doctype" then
      -- EOF while reading the fragment of "DOCTYPE": empty bogus comment
      (.comment, [], [])
    else if matchCI b!"doctype" s then
      match skipWs (s.drop 7) with
      | [] => (.doctype, [], [])
      | r1 => let (d, rest) := readUntilCloseAngle r1; (.doctype, d, rest)
    else
      let (d, rest) := readUntilCloseAngle s
      (.comment, d, rest)

def isRawTagName (n : Bytes) : Bool :=
  n == b!"iframe" || n == b!"noembed" || n == b!"noframes" || n == b!"noscript" ||
  n == b!"plaintext" || n == b!"script" || n == b!"style" || n == b!"textarea" ||
  n == b!"title" || n == b!"xmp"

def isTagTerm (c : UInt8) : Bool := isWs c || c == 47 || c == 62

inductive RawEnd where
  | matched            -- full `</name` + terminator seen: back up to before `</`
  | eof                -- input ended while matching
  | no (rest : Bytes)  -- mismatch; continue scanning from `rest`

/-- readRawEndTag: input is what follows `</`. -/
def rawEndTag : Bytes → Bytes → RawEnd
  | [], [] => .eof
  | [], c :: cs => if isTagTerm c then .matched else .no (c :: cs)
  | _ :: _, [] => .eof
  | p :: ps, c :: cs => if lowerByte c == p then rawEndTag ps cs else .no (c :: cs)

/-- readRawOrRCDATA for a non-script raw tag: returns the rest (text = consumed prefix). -/
def rawScan (tag : Bytes) : Bytes → Bytes
  | [] => []
  | c :: cs =>
    if c == 60 then
      match cs with
      | [] => []
      | d :: ds =>
        if d == 47 then
          match rawEndTag tag ds with
          | .matched => c :: cs
          | .eof => []
          | .no _ => rawScan tag cs
        else rawScan tag cs
    else rawScan tag cs

inductive SS where
  | data | lt | escStart | escStartDash | esc | escDash | escDashDash | escLt
  | dbl | dblDash | dblDashDash | dblLt
  deriving BEq, Repr

/-- readScript: the "byzantine rules".  Returns the rest of the input after the script
    text.  Every state transition of the Go code is one call. -/
def scriptScan : Nat → SS → Bytes → Bytes
  | 0, _, _ => []
  | _, _, [] => []
  | fuel + 1, st, c :: cs =>
    match st with
    | .data => if c == 60 then scriptScan fuel .lt cs else scriptScan fuel .data cs
    | .lt =>
      if c == 47 then
        match rawEndTag b!"script" cs with
        | .matched => 60 :: c :: cs
        | .eof => []
        | .no r => scriptScan fuel .data r
      else if c == 33 then scriptScan fuel .escStart cs
      else scriptScan fuel .data (c :: cs)
    | .escStart =>
      if c == 45 then scriptScan fuel .escStartDash cs else scriptScan fuel .data (c :: cs)
    | .escStartDash =>
      if c == 45 then scriptScan fuel .escDashDash cs else scriptScan fuel .data (c :: cs)
    | .esc =>
      if c == 45 then scriptScan fuel .escDash cs
      else if c == 60 then scriptScan fuel .escLt cs
      else scriptScan fuel .esc cs
    | .escDash =>
      if c == 45 then scriptScan fuel .escDashDash cs
      else if c == 60 then scriptScan fuel .escLt cs
      else scriptScan fuel .esc cs
    | .escDashDash =>
      if c == 45 then scriptScan fuel .escDashDash cs
      else if c == 60 then scriptScan fuel .escLt cs
      else if c == 62 then scriptScan fuel .data cs
      else scriptScan fuel .esc cs
    | .escLt =>
      if c == 47 then
        match rawEndTag b!"script" cs with
        | .matched => 60 :: c :: cs
        | .eof => []
        | .no r => scriptScan fuel .esc r
      else if isAlpha c then
        -- scriptDataDoubleEscapeStart: re-read the letter, compare with "script"
        match rawEndTag b!"script" (c :: cs) with
        | .matched => scriptScan fuel .dbl ((c :: cs).drop 7)
        | .eof => []
        | .no r => scriptScan fuel .esc r
      else scriptScan fuel .data (c :: cs)
    | .dbl =>
      if c == 45 then scriptScan fuel .dblDash cs
      else if c == 60 then scriptScan fuel .dblLt cs
      else scriptScan fuel .dbl cs
    | .dblDash =>
      if c == 45 then scriptScan fuel .dblDashDash cs
      else if c == 60 then scriptScan fuel .dblLt cs
      else scriptScan fuel .dbl cs
    | .dblDashDash =>
      if c == 45 then scriptScan fuel .dblDashDash cs
      else if c == 60 then scriptScan fuel .dblLt cs
      else if c == 62 then scriptScan fuel .data cs
      else scriptScan fuel .dbl cs
    | .dblLt =>
      if c == 47 then
        match rawEndTag b!"script" cs with
        | .matched => scriptScan fuel .esc (cs.drop 7)
        | .eof => []
        | .no r => scriptScan fuel .dbl r
      else scriptScan fuel .dbl (c :: cs)

/-- the text that follows a raw-text start tag: (raw text, rest). -/
def readRaw (tag : Bytes) (s : Bytes) : Bytes × Bytes :=
  let rest :=
    if tag == b!"plaintext" then []
    else if tag == b!"script" then scriptScan (2 * s.length + 4) .data s
    else rawScan tag s
  (s.take (s.length - rest.length), rest)

/-- Is there a tag / comment / declaration opener at the head of `s`? -/
def isMarkupStart : Bytes → Bool
  | c :: d :: _ => c == 60 && (isAlpha d || d == 47 || d == 33 || d == 63)
  | _ => false

/-- scan text up to the next markup opener (text, rest). -/
def scanText : Bytes → Bytes × Bytes
  | [] => ([], [])
  | c :: cs =>
    if isMarkupStart (c :: cs) then ([], c :: cs)
    else let (t, r) := scanText cs; (c :: t, r)

def decodeAttrs (as : List Attr) : List Attr :=
  as.map fun a => ⟨lowerAscii a.key, unescape true (convertNewlines a.val)⟩

/-- the byte before the closing `>` of a tag whose consumed bytes are `consumed`. -/
def endsSelfClosing (consumed : Bytes) : Bool :=
  match consumed.reverse with
  | _ :: c :: _ => c == 47
  | _ => false

/-- One call of `Tokenizer.Next` + `Token()`.  `rawTag` is `z.rawTag`.  `none` is
    `ErrorToken` (end of input, possibly inside a tag). -/
def next (rawTag : Bytes) (s : Bytes) : Option (Token × Bytes × Bytes) :=
  if s.isEmpty then none else
  let rawResult : Option (Token × Bytes × Bytes) × Bytes :=
    if rawTag.isEmpty then (none, rawTag)
    else
      let (t, rest) := readRaw rawTag s
      let rawTag' := if rawTag == b!"plaintext" then rawTag else []
      if t.isEmpty then (none, rawTag')
      else
        let isRaw := rawTag == b!"plaintext" || rawTag == b!"script" ||
          (rawTag != b!"textarea" && rawTag != b!"title")
        (some (⟨.text, textData t true isRaw, []⟩, rawTag', rest), rawTag')
  match rawResult with
  | (some r, _) => some r
  | (none, rawTag) =>
  let (t, rest) := scanText s
  if !t.isEmpty then some (⟨.text, textData t false false, []⟩, rawTag, rest)
  else match rest with
  | _ :: c :: r =>
    if isAlpha c then
      match readTag (c :: r) with
      | none => none
      | some (name, as, rest') =>
        let consumed := (c :: r).take ((c :: r).length - rest'.length)
        let lname := lowerAscii name
        let rawTag' := if isRawTagName lname then lname else rawTag
        let tt := if endsSelfClosing consumed then TT.selfClosing else TT.start
        some (⟨tt, lname, decodeAttrs as⟩, rawTag', rest')
    else if c == 47 then
      match r with
      | [] => some (⟨.text, textData s false false, []⟩, rawTag, [])
      | d :: r' =>
        if d == 62 then some (⟨.comment, [], []⟩, rawTag, r')
        else if isAlpha d then
          match readTag (d :: r') with
          | none => none
          | some (name, _, rest') => some (⟨.end_, lowerAscii name, []⟩, rawTag, rest')
        else
          let (dd, rest') := readUntilCloseAngle (d :: r')
          some (⟨.comment, textData dd true false, []⟩, rawTag, rest')
    else if c == 33 then
      let (tt, dd, rest') := readMarkupDeclaration r
      some (⟨tt, textData dd (tt == .comment) false, []⟩, rawTag, rest')
    else
      let (dd, rest') := readUntilCloseAngle (c :: r)
      some (⟨.comment, textData dd true false, []⟩, rawTag, rest')
  | _ => none

def tokenizeAux : Nat → Bytes → Bytes → List Token
  | 0, _, _ => []
  | fuel + 1, rawTag, s =>
    match next rawTag s with
    | none => []
    | some (t, rawTag', rest) => t :: tokenizeAux fuel rawTag' rest

/-- all tokens up to the first `ErrorToken`. -/
def tokenize (s : Bytes) : List Token := tokenizeAux (s.length + 1) [] s

/-! ### Token.String -/

def renderAttrs : List Attr → Bytes
  | [] => []
  | a :: as => 32 :: a.key ++ b!"=\"" ++ escape a.val ++ 34 :: renderAttrs as

def tagString (t : Token) : Bytes := t.data ++ renderAttrs t.attrs

def Token.render (t : Token) : Bytes :=
  match t.tt with
  | .text => escape t.data
  | .start => 60 :: tagString t ++ [62]
  | .end_ => b!"</" ++ tagString t ++ [62]
  | .selfClosing => 60 :: tagString t ++ b!"/>"
  | .comment => b!"<!--" ++ escapeComment t.data ++ b!"-->"
  | .doctype => b!"<!DOCTYPE " ++ escape t.data ++ [62]

end BM.Html
