import BM.Html
import BM.Url
import BM.Css
import BM.Policy
import BM.Gen.Unicode
import BM.Unicode
/-
  Model of sanitize.go: the token loop (`sanitize`), `sanitizeAttrs`, `sanitizeStyles`,
  `validURL`, `linkable`, `isDataAttribute`, `removeUnicode`, `matchRegex`,
  `allowNoAttrs`, and the four entry points.  Function by function, statement order kept.
-/
namespace BM
open Html

/-- smallest member of a rune's simple-fold orbit -/
def foldMin (r : Rune) : Rune :=
  let rec go : Nat → Rune → Rune → Rune
    | 0, _, m => m
    | fuel + 1, x, m => let y := runeSimpleFold x; if y == r then m else go fuel y (min m y)
  go 8 r r

/-- `strings.EqualFold` -/
def equalFold (a b : Bytes) : Bool := (decodeRunes a).map foldMin == (decodeRunes b).map foldMin

def stringInSlice (needle : Bytes) (haystack : List Bytes) : Bool := haystack.any (equalFold · needle)

/-- `strings.Fields` -/
def fieldsAux : Nat → Bytes → Bytes → List Bytes
  | 0, _, _ => []
  | _, [], cur => if cur.isEmpty then [] else [cur]
  | fuel + 1, s, cur =>
    let (r, w) := decodeRune s
    if Css.isUniSpace r then
      (if cur.isEmpty then [] else [cur]) ++ fieldsAux fuel (s.drop w) []
    else fieldsAux fuel (s.drop w) (cur ++ s.take w)

def fields (s : Bytes) : List Bytes := fieldsAux (s.length + 1) s []

/-! ### small functions of sanitize.go -/

def linkable (el : Bytes) : Bool :=
  el == b!"a" || el == b!"area" || el == b!"base" || el == b!"link" ||
  el == b!"blockquote" || el == b!"del" || el == b!"ins" || el == b!"q" ||
  el == b!"audio" || el == b!"embed" || el == b!"iframe" || el == b!"img" || el == b!"input" ||
  el == b!"script" || el == b!"source" || el == b!"track" || el == b!"video"

def isHrefElement (el : Bytes) : Bool := el == b!"a" || el == b!"area" || el == b!"base" || el == b!"link"
def isCiteElement (el : Bytes) : Bool := el == b!"blockquote" || el == b!"del" || el == b!"ins" || el == b!"q"
def isSrcElement (el : Bytes) : Bool :=
  el == b!"audio" || el == b!"embed" || el == b!"iframe" || el == b!"img" || el == b!"input" ||
  el == b!"script" || el == b!"source" || el == b!"track" || el == b!"video"

def isDataAttribute (val : Bytes) : Bool :=
  match stripPrefix? b!"data-" val with
  | none => false
  | some after =>
    -- `^data-.+`: at least one more rune, not a newline
    if after.isEmpty || after.head? == some 10 then false
    else
      -- `strings.SplitN(val, "data-", 2)[1]`: everything after the prefix
      let rest1 := after
      -- `^xml.+`
      let xml := match stripPrefix? b!"xml" rest1 with
        | some (c :: _) => c != 10
        | _ => false
      if xml then false
      else !(rest1.any fun c => isUpper c || c == 59)

def isHexLower (c : UInt8) : Bool := isDigit c || (97 ≤ c && c ≤ 102)

/-- leftmost `\\[0-9a-f]{1,6} ?`: (bytes before, hex digits, bytes after) -/
def findCssEscape : Bytes → Option (Bytes × Bytes × Bytes)
  | [] => none
  | c :: cs =>
    if c == 92 && (match cs with | d :: _ => isHexLower d | [] => false) then
      let hex := (cs.take 6).takeWhile isHexLower
      let after := cs.drop hex.length
      let after := match after with | 32 :: r => r | r => r
      some ([], hex, after)
    else (findCssEscape cs).map fun (a, h, r) => (c :: a, h, r)

def hexToNat (h : Bytes) : Nat := h.foldl (fun acc c => acc * 16 + (hexVal c).getD 0) 0

/-- one substitution step of `removeUnicode`: `none` = `strconv.Unquote` failed -/
def decodeCssEscape (hex : Bytes) : Option Bytes :=
  -- pad to 4, or strip leading zeros down to 4 (any non-zero excess digit gives "")
  let four : Option Bytes :=
    if hex.length < 4 then some (List.replicate (4 - hex.length) 48 ++ hex)
    else
      let extra := hex.take (hex.length - 4)
      if extra.all (· == 48) then some (hex.drop (hex.length - 4)) else none
  match four with
  | none => none
  | some h =>
    let v := hexToNat h
    if 0xD800 ≤ v && v ≤ 0xDFFF then none
    else some (Css.trimSpace (encodeRune v))

/-- `none` = an escape could not be decoded (the Go function returns `("", false)`) -/
def removeUnicodeAux : Nat → Bytes → Option Bytes
  | 0, s => some s
  | fuel + 1, s =>
    match findCssEscape s with
    | none => some s
    | some (before, hex, after) =>
      match decodeCssEscape hex with
      | none => none
      | some t => removeUnicodeAux fuel (before ++ t ++ after)

def removeUnicode (s : Bytes) : Option Bytes := removeUnicodeAux (s.length + 1) s

/-! ### policy lookups -/

def Policy.matchRegex (p : Policy) (el : Bytes) : Option AttrRules :=
  let hits := p.elsMatchingAndAttrs.filter fun (r, _) => r.test el
  if hits.isEmpty then none
  else some (hits.foldl (fun acc (_, rules) =>
    rules.foldl (fun acc (k, v) => acc.update k [] (· ++ v)) acc) [])

def Policy.allowNoAttrs (p : Policy) (el : Bytes) : Bool :=
  p.setOfElementsAllowedWithoutAttrs.contains el ||
  p.setOfElementsMatchingAllowedWithoutAttrs.any (·.test el)

def attrPoliciesAccept (apl : List AttrPolicy) (val : Bytes) : Bool :=
  apl.any fun ap => match ap with
    | none => true
    | some r => r.test val

/-! ### validURL -/

def stripCRLF (s : Bytes) : Bytes := s.filter fun c => c != 13 && c != 10

/-- `dataURIbase64Prefix.FindString` with `^data:[^,]*;base64,` -/
def dataBase64Prefix (raw : Bytes) : Bytes :=
  match stripPrefix? b!"data:" raw with
  | none => []
  | some rest =>
    let x := rest.takeWhile (· != 44)
    if rest.length > x.length && hasSuffix b!";base64" x then raw.take (5 + x.length + 1) else []

def Policy.validURL (p : Policy) (rawurl : Bytes) : Option Bytes :=
  if p.requireParseableURLs then
    let raw := Css.trimSpace rawurl
    let pre : Option Bytes :=
      if raw.contains 32 || raw.contains 9 || raw.contains 10 then
        if !hasPrefix b!"data:" raw then none
        else
          let matched := dataBase64Prefix raw
          if !matched.isEmpty then some (matched ++ stripCRLF (raw.drop matched.length)) else some raw
      else some raw
    match pre with
    | none => none
    | some raw =>
      match Url.parse raw with
      | none => none
      | some u =>
        if !u.scheme.isEmpty then
          match p.allowURLSchemes.get? u.scheme with
          | none => if p.allowURLSchemeRegexps.any (·.test u.scheme) then some (Url.print u) else none
          | some policies =>
            if policies.isEmpty then some (Url.print u)
            else if policies.any (· u) then some (Url.print u) else none
        else if p.allowRelativeURLs && !(Url.print u).isEmpty then some (Url.print u)
        else none
  else some rawurl

/-! ### sanitizeStyles -/

def vendorPrefixes : List Bytes :=
  [b!"-webkit-", b!"-moz-", b!"-ms-", b!"-o-", b!"mso-", b!"-xv-", b!"-atsc-", b!"-wap-",
   b!"-khtml-", b!"prince-", b!"-ah-", b!"-hp-", b!"-ro-", b!"-rim-", b!"-tc-"]

def trimPrefixes (s : Bytes) : List Bytes → Bytes
  | [] => s
  | pre :: rest => trimPrefixes ((stripPrefix? pre s).getD s) rest

def stylePoliciesAccept (spl : List StylePolicy) (v : Bytes) : Bool :=
  spl.any fun sp =>
    match sp.handler with
    | some h => h v
    | none =>
      if sp.enum.length > 0 then stringInSlice v sp.enum
      else match sp.re with
        | some r => r.test v
        | none => false

def trimRightSpaces (s : Bytes) : Bytes := (s.reverse.dropWhile (· == 32)).reverse

def Policy.styleRulesFor (p : Policy) (el : Bytes) : StyleRules :=
  let sps := (p.elsAndStyles.get? el).getD []
  if sps.length == 0 then
    (p.elsMatchingAndStyles.filter fun (r, _) => r.test el).foldl (fun acc (_, rules) =>
      rules.foldl (fun acc (k, v) => acc.update k [] (· ++ v)) acc) []
  else sps

/-- `decLoop` for one declaration: is it kept?  (`sps` = the element's style rules) -/
def Policy.declAccepted (p : Policy) (sps : StyleRules) (dec : Css.Decl) : Bool :=
  match removeUnicode (toLowerGo dec.value) with
  | none => false          -- an escape that cannot be decoded: `continue`
  | some tempValue =>
    let tempProperty := trimPrefixes (toLowerGo dec.property) vendorPrefixes
    (match sps.get? tempProperty with
     | some spl => stylePoliciesAccept spl tempValue
     | none => false) ||
    (match p.globalStyles.get? tempProperty with
     | some spl => stylePoliciesAccept spl tempValue
     | none => false)

/-- the value handed to the declaration parser: trailing spaces trimmed, `;` appended -/
def styleSource (val : Bytes) : Bytes :=
  let v := trimRightSpaces val
  if v.length > 0 && v.getLast? != some 59 then v ++ [59] else v

/-- the new value of the style attribute (`""` = drop it) -/
def Policy.sanitizeStyles (p : Policy) (val : Bytes) (el : Bytes) : Bytes :=
  match Css.parseDeclarations (styleSource val) with
  | none => []
  | some decs =>
    joinBytes b!"; "
      ((decs.filter (p.declAccepted (p.styleRulesFor el))).map fun d => d.property ++ b!": " ++ d.value)

/-! ### sanitizeAttrs -/

def Policy.hasStylePolicies (p : Policy) (el : Bytes) : Bool :=
  p.globalStyles.length > 0 ||
  (match p.elsAndStyles.get? el with | some sps => sps.length > 0 | none => false) ||
  p.elsMatchingAndStyles.any fun (r, v) => r.test el && v.length > 0

/-- the first pass (`attrsLoop`) for one attribute: `none` = dropped -/
def Policy.filterAttr (p : Policy) (el : Bytes) (aps : AttrRules) (hasStyle : Bool) (a : Attr) :
    Option Attr :=
  if p.allowDataAttributes && isDataAttribute a.key then some a
  else if a.key == b!"style" && hasStyle then
    let v := p.sanitizeStyles a.val el
    if v.isEmpty then none else some ⟨a.key, v⟩
  else if (match aps.get? a.key with | some apl => attrPoliciesAccept apl a.val | none => false) then some a
  else if (match p.globalAttrs.get? a.key with | some apl => attrPoliciesAccept apl a.val | none => false)
    then some a
  else none

/-- the URL pass for one attribute: outer `none` = panic (nil `*url.URL` handed to the
    rewriter), inner `none` = attribute dropped -/
def Policy.urlPassAttr (p : Policy) (el : Bytes) (a : Attr) : Option (Option Attr) :=
  if isHrefElement el then
    if a.key == b!"href" then some ((p.validURL a.val).map fun u => ⟨a.key, u⟩) else some (some a)
  else if isCiteElement el then
    if a.key == b!"cite" then some ((p.validURL a.val).map fun u => ⟨a.key, u⟩) else some (some a)
  else if isSrcElement el then
    if a.key == b!"src" then
      match p.validURL a.val with
      | none => some none
      | some u =>
        match p.srcRewriter with
        | none => some (some ⟨a.key, u⟩)
        | some f =>
          match Url.parse u with
          | none => some none      -- the normalised URL does not parse again: dropped
          | some parsed => some (some ⟨a.key, Url.print (f parsed)⟩)
    else some (some a)
  else some (some a)

def mapMOpt {α β} (f : α → Option (Option β)) : List α → Option (List β)
  | [] => some []
  | x :: xs =>
    match f x, mapMOpt f xs with
    | some (some y), some ys => some (y :: ys)
    | some none, some ys => some ys
    | _, _ => none

def isAsciiSpace (c : UInt8) : Bool := c == 32 || c == 9 || c == 10 || c == 12 || c == 13

def splitAsciiWs : Bytes → Bytes → List Bytes
  | [], cur => if cur.isEmpty then [] else [cur.reverse]
  | c :: cs, cur =>
    if isAsciiSpace c then (if cur.isEmpty then [] else [cur.reverse]) ++ splitAsciiWs cs []
    else splitAsciiWs cs (c :: cur)

/-- `asciiEqualFold` -/
def asciiEqualFold (a b : Bytes) : Bool := lowerAscii a == lowerAscii b

/-- `hasRelToken` -/
def hasRelToken (rel tok : Bytes) : Bool := (splitAsciiWs rel []).any (asciiEqualFold · tok)

/-- append a link type to a rel value unless it is already one of its tokens -/
def addRelToken (need : Bool) (tok : Bytes) (v : Bytes) : Bytes :=
  if need && !hasRelToken v tok then v ++ 32 :: tok else v

/-- the first sub-pass on a `rel` attribute -/
def relFix (addNoFollow addNoReferrer : Bool) (a : Attr) : Attr :=
  if a.key == b!"rel" && (addNoFollow || addNoReferrer) then
    ⟨a.key, addRelToken addNoReferrer b!"noreferrer" (addRelToken addNoFollow b!"nofollow" a.val)⟩
  else a

/-- under AddTargetBlank…: the first `target` attribute becomes `_blank` unless it already
    is (ASCII case-insensitively); later ones are left alone -/
def fixFirstTarget : List Attr → List Attr
  | [] => []
  | a :: as =>
    if a.key == b!"target" then
      (if asciiEqualFold a.val b!"_blank" then a else ⟨a.key, b!"_blank"⟩) :: as
    else a :: fixFirstTarget as

/-- the noopener sub-pass -/
def addNoOpener (clean : List Attr) : List Attr :=
  if clean.any (·.key == b!"rel") then
    clean.map fun a => if a.key == b!"rel" then ⟨a.key, addRelToken true b!"noopener" a.val⟩ else a
  else clean ++ [⟨b!"rel", b!"noopener"⟩]

/-- the value of the rel attribute that is added when there was none -/
def newRelValue (addNoFollow addNoReferrer : Bool) : Bytes :=
  let v := if addNoFollow then b!"nofollow" else []
  if addNoReferrer then (if !v.isEmpty then v ++ [32] else v) ++ b!"noreferrer" else v

/-- the link-hardening block (`switch elementName { case "a", "area", "base", "link": … }`).
    The Go code does this in one loop with three flags; written here as what that loop
    computes (validated by the `directed` C11 family over all option sets). -/
def Policy.hardenLinks (p : Policy) (el : Bytes) (clean : List Attr) : List Attr :=
  let hrefs := clean.filter (·.key == b!"href")
  let externalLink := hrefs.any fun a => match Url.parse a.val with
    | some u => !u.host.isEmpty
    | none => false
  if hrefs.isEmpty then clean else
  let addNoFollow := p.requireNoFollow || (externalLink && p.requireNoFollowFullyQualifiedLinks)
  let addNoReferrer := p.requireNoReferrer || (externalLink && p.requireNoReferrerFullyQualifiedLinks)
  let addTargetBlank := externalLink && p.addTargetBlankToFullyQualifiedLinks
  let isA := el == b!"a"
  let hasRel := clean.any (·.key == b!"rel")
  let hasTarget := clean.any (·.key == b!"target")
  let out := clean.map (relFix addNoFollow addNoReferrer)
  let out := if isA && addTargetBlank then fixFirstTarget out else out
  let out :=
    if (addNoFollow || addNoReferrer) && !hasRel then out ++ [⟨b!"rel", newRelValue addNoFollow addNoReferrer⟩]
    else out
  let blankFound := isA &&
    ((clean.any fun a => a.key == b!"target" && asciiEqualFold a.val b!"_blank") || (addTargetBlank && hasTarget))
  let out := if isA && addTargetBlank && !blankFound then out ++ [⟨b!"target", b!"_blank"⟩] else out
  if blankFound || (isA && addTargetBlank) then addNoOpener out else out

def isCrossOriginElement (el : Bytes) : Bool :=
  el == b!"audio" || el == b!"img" || el == b!"link" || el == b!"script" || el == b!"video"

def dedupKeep (allowed : List Bytes) : List Bytes → List Bytes → List Bytes
  | [], acc => acc.reverse
  | v :: vs, acc =>
    if allowed.contains v && !acc.contains v then dedupKeep allowed vs (v :: acc)
    else dedupKeep allowed vs acc

/-- overwrite the value of every attribute named `k` -/
def setVal (k : Bytes) (v : Attr → Bytes) (a : Attr) : Attr := if a.key == k then ⟨a.key, v a⟩ else a

/-- the `requireCrossOriginAnonymous` block -/
def Policy.forceCrossOrigin (p : Policy) (el : Bytes) (clean : List Attr) : List Attr :=
  if p.requireCrossOriginAnonymous && clean.length > 0 && isCrossOriginElement el then
    if clean.any (·.key == b!"crossorigin") then
      clean.map (setVal b!"crossorigin" fun _ => b!"anonymous")
    else clean ++ [⟨b!"crossorigin", b!"anonymous"⟩]
  else clean

/-- the `requireSandboxOnIFrame` block -/
def Policy.forceSandbox (p : Policy) (el : Bytes) (clean : List Attr) : List Attr :=
  match p.requireSandboxOnIFrame with
  | some allowed =>
    if el == b!"iframe" then
      if clean.any (·.key == b!"sandbox") then
        clean.map (setVal b!"sandbox" fun a => joinBytes [32] (dedupKeep allowed (fields a.val) []))
      else clean ++ [⟨b!"sandbox", []⟩]
    else clean
  | none => clean

/-- the URL pass and the link-hardening pass (`if linkable(elementName) { … }`);
    `none` = panic -/
def Policy.linkPasses (p : Policy) (el : Bytes) (clean : List Attr) : Option (List Attr) :=
  if linkable el then
    let afterUrl : Option (List Attr) :=
      if p.requireParseableURLs then mapMOpt (p.urlPassAttr el) clean else some clean
    afterUrl.map fun clean =>
      if (p.requireNoFollow || p.requireNoFollowFullyQualifiedLinks || p.requireNoReferrer ||
          p.requireNoReferrerFullyQualifiedLinks || p.addTargetBlankToFullyQualifiedLinks) &&
          clean.length > 0 && isHrefElement el then
        p.hardenLinks el clean
      else clean
  else some clean

/-- `sanitizeAttrs`; `none` = panic -/
def Policy.sanitizeAttrs (p : Policy) (el : Bytes) (attrs : List Attr) (aps : AttrRules) :
    Option (List Attr) :=
  if attrs.isEmpty then some attrs else
  let clean := attrs.filterMap (p.filterAttr el aps (p.hasStylePolicies el))
  if clean.isEmpty then some clean else
  (p.linkPasses el clean).map fun clean => p.forceSandbox el (p.forceCrossOrigin el clean)

/-! ### the token loop -/

structure LoopState where
  skipElementContent : Bool := false
  skippingElementsCount : Int := 0
  skipClosingTag : Bool := false
  /-- top of the stack first -/
  closingTagToSkipStack : List Bytes := []
  mostRecentlyStartedToken : Bytes := []
  deriving Repr, BEq, DecidableEq

/-- one `buff.WriteString` call (every call's error is checked by the loop) -/
structure Write where
  data : Bytes
  deriving Repr, BEq, DecidableEq

def isVoidElement (el : Bytes) : Bool :=
  el == b!"area" || el == b!"base" || el == b!"br" || el == b!"col" || el == b!"embed" ||
  el == b!"hr" || el == b!"img" || el == b!"input" || el == b!"link" || el == b!"meta" ||
  el == b!"param" || el == b!"source" || el == b!"track" || el == b!"wbr"

def isScriptOrStyle (n : Bytes) : Bool := n == b!"script" || n == b!"style"

def Policy.space (p : Policy) : List Write := if p.addSpaces then [⟨[32]⟩] else []

/-- element lookup shared by the start-tag and self-closing cases -/
def Policy.attrRulesFor (p : Policy) (el : Bytes) : Option AttrRules :=
  match p.elsAndAttrs.get? el with
  | some aps => some aps
  | none => p.matchRegex el

/-- `token.Attr = p.sanitizeAttrs(…)` guarded by `len(token.Attr) != 0` -/
def Policy.cleanAttrs (p : Policy) (t : Token) (aps : AttrRules) : Option (List Attr) :=
  if t.attrs.isEmpty then some t.attrs else p.sanitizeAttrs t.data t.attrs aps

/-- `if !skipElementContent { buff.WriteString(token.String()) }` -/
def emitUnlessSkipping (st : LoopState) (t : Token) : List Write :=
  if st.skipElementContent then [] else [⟨t.render⟩]

/-- a disallowed element: start skipping its content if it is in the skip set (and not void) -/
def Policy.enterSkip (p : Policy) (st : LoopState) (el : Bytes) : LoopState :=
  if p.setOfElementsToSkipContent.contains el && !isVoidElement el then
    { st with skipElementContent := true, skippingElementsCount := st.skippingElementsCount + 1 }
  else st

/-- an element dropped for lack of attributes: remember to drop its closing tag (not for void) -/
def pushDropped (st : LoopState) (el : Bytes) : LoopState :=
  if isVoidElement el then st
  else { st with skipClosingTag := true, closingTagToSkipStack := el :: st.closingTagToSkipStack }

/-- a kept element nested in a dropped element of the same name leaves a marker -/
def markKept (st : LoopState) (el : Bytes) : LoopState :=
  if st.skipClosingTag && !isVoidElement el && st.closingTagToSkipStack.contains el then
    { st with closingTagToSkipStack := (47 :: el) :: st.closingTagToSkipStack }
  else st

def Policy.stepStart (p : Policy) (st : LoopState) (t : Token) : Option (LoopState × List Write) :=
  let st := { st with mostRecentlyStartedToken := t.data }
  if isScriptOrStyle t.data && !p.allowUnsafe then some (st, [])
  else match p.attrRulesFor t.data with
    | none => some (p.enterSkip st t.data, p.space)
    | some aps =>
      match p.cleanAttrs t aps with
      | none => none
      | some attrs =>
        if attrs.isEmpty && !p.allowNoAttrs t.data then some (pushDropped st t.data, p.space)
        else
          let st := markKept st t.data
          some (st, emitUnlessSkipping st { t with attrs := attrs })

def Policy.stepSelfClosing (p : Policy) (st : LoopState) (t : Token) : Option (LoopState × List Write) :=
  let st := { st with mostRecentlyStartedToken := t.data }
  if isScriptOrStyle t.data && !p.allowUnsafe then some (st, [])
  else match p.attrRulesFor t.data with
    | none => some (st, p.space)
    | some aps =>
      match p.cleanAttrs t aps with
      | none => none
      | some attrs =>
        if attrs.isEmpty && !p.allowNoAttrs t.data then some (st, p.space)
        else some (st, emitUnlessSkipping st { t with attrs := attrs })

/-- the element is allowed by name, or else by some pattern -/
def Policy.explicitEl (p : Policy) (el : Bytes) : Bool := p.elsAndAttrs.contains el
def Policy.patternEl (p : Policy) (el : Bytes) : Bool :=
  !p.explicitEl el && p.elsMatchingAndAttrs.any fun (r, _) => r.test el

/-- the closing tag of a disallowed skip-content element ends one level of skipping -/
def Policy.leaveSkip (p : Policy) (st : LoopState) (el : Bytes) : LoopState :=
  if !p.explicitEl el && p.setOfElementsToSkipContent.contains el && !p.patternEl el then
    let c := st.skippingElementsCount - 1
    { st with skippingElementsCount := c,
              skipElementContent := if c == 0 then false else st.skipElementContent }
  else st

/-- `if mostRecentlyStartedToken == normaliseElementName(token.Data) { … = "" }` -/
def clearRecent (st : LoopState) (el : Bytes) : LoopState :=
  if st.mostRecentlyStartedToken == el then { st with mostRecentlyStartedToken := [] } else st

/-- the closing tag of an element dropped for lack of attributes pops the stack -/
def popDropped (st : LoopState) : LoopState :=
  let stack := st.closingTagToSkipStack.tail
  { st with closingTagToSkipStack := stack,
            skipClosingTag := if stack.isEmpty then false else st.skipClosingTag }

/-- the marker of a kept element: only forget it -/
def popMarker (st : LoopState) (el : Bytes) : LoopState :=
  if st.skipClosingTag && st.closingTagToSkipStack.head? == some (47 :: el) then
    { st with closingTagToSkipStack := st.closingTagToSkipStack.tail }
  else st

def Policy.stepEnd (p : Policy) (st : LoopState) (t : Token) : Option (LoopState × List Write) :=
  let st := clearRecent st t.data
  if isScriptOrStyle t.data && !p.allowUnsafe then some (st, [])
  else if st.skipClosingTag && st.closingTagToSkipStack.isEmpty then none   -- index out of range
  else if st.skipClosingTag && st.closingTagToSkipStack.head? == some t.data then
    some (popDropped st, p.space)
  else
    let st := p.leaveSkip (popMarker st t.data) t.data
    if !p.explicitEl t.data && !p.patternEl t.data then some (st, p.space)
    else some (st, emitUnlessSkipping st t)

def Policy.stepText (p : Policy) (st : LoopState) (t : Token) : List Write :=
  if st.skipElementContent then []
  else if isScriptOrStyle st.mostRecentlyStartedToken then
    (if p.allowUnsafe then [⟨t.data⟩] else [])
  else [⟨t.render⟩]

/-- One iteration of the `for` loop in `sanitize` for a non-error token.
    `none` = the Go code panics on this token. -/
def Policy.step (p : Policy) (st : LoopState) (t : Token) : Option (LoopState × List Write) :=
  match t.tt with
  | .doctype => some (st, [])
  | .comment => some (st, if p.allowComments then [⟨t.render⟩] else [])
  | .start => p.stepStart st t
  | .end_ => p.stepEnd st t
  | .selfClosing => p.stepSelfClosing st t
  | .text => some (st, p.stepText st t)

/-- run the loop over a token list: the writes in order, and whether it panicked -/
def Policy.run (p : Policy) : LoopState → List Token → List Write × Bool
  | _, [] => ([], false)
  | st, t :: ts =>
    match p.step st t with
    | none => ([], true)
    | some (st', ws) => let (rest, pan) := p.run st' ts; (ws ++ rest, pan)

/-- the bytes a never-failing writer receives -/
def Policy.sanitizeTokens (p : Policy) (ts : List Token) : Bytes :=
  ((p.run {} ts).1.map (·.data)).flatten

/-- `Policy.SanitizeBytes` / `Sanitize` on non-blank input, and what the reader entry
    points write: the model of the whole pipeline on bytes. -/
def Policy.sanitizeCore (p : Policy) (input : Bytes) : Bytes := p.ensureInit.sanitizeTokens (tokenize input)

def Policy.panics (p : Policy) (input : Bytes) : Bool := (p.ensureInit.run {} (tokenize input)).2

/-- `Sanitize` / `SanitizeBytes`: blank input is returned unchanged -/
def Policy.sanitize (p : Policy) (input : Bytes) : Bytes :=
  if (Css.trimSpace input).isEmpty then input else p.sanitizeCore input

/-! ### writers that can fail (C16) -/

/-- does the `n`-th write call (0-based) fail, for a destination that starts failing at call
    `k` — only that call if the fault is transient, every later one too if it is permanent -/
def callFails (k : Nat) (permanent : Bool) (n : Nat) : Bool :=
  if permanent then decide (k ≤ n) else k == n

/-- Feed the loop's writes to a destination with an injected fault (`none` = fault-free).
    Returns the accepted writes, the number of write calls made, and whether the loop
    returns an error.  The loop stops at the first failed call. -/
def feed (failAt : Option Nat) (permanent : Bool) : Nat → List Write → List Bytes × Nat × Bool
  | n, [] => ([], n, false)
  | n, w :: ws =>
    if (match failAt with | some k => callFails k permanent n | none => false) then ([], n + 1, true)
    else
      let r := feed failAt permanent (n + 1) ws
      (w.data :: r.1, r.2.1, r.2.2)

end BM
