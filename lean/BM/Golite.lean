import BM.Basic
import BM.Regex
import BM.Css
import BM.RecCheck
/-
  "Go-lite": the small imperative fragment of Go in which css/handlers.go is written,
  as a Lean data type plus an interpreter.  The extractor (go/cmd/extract/handlers.go)
  dumps every handler function of the current /repo source into this AST on every run
  (BM.Gen.CssHandlers); nothing about an individual handler is written by hand.

  Hand-written here, and pinned to the source by hash in the generated file:
  the four helpers `multiSplit`, `recursiveCheck`, `in`, `splitValues`.
-/
namespace BM.Golite

inductive Expr where
  | var (n : String)
  | str (s : Bytes)
  | int (n : Int)
  | bool (b : Bool)
  | nil
  | strs (es : List Expr)                   -- []string{…}
  | funcs (names : List String)             -- []func(string) bool{…}
  | call (f : String) (args : List Expr)    -- builtins of handlers.go and of package strings
  | handler (f : String) (e : Expr)         -- another handler applied to a string
  | reMatch (r : String) (e : Expr)         -- R.MatchString(e)
  | reFind (r : String) (e : Expr)          -- R.FindString(e)
  | reDelete (r : String) (e : Expr)        -- string(R.ReplaceAll([]byte(e), []byte{}))
  | index (e i : Expr)
  | sliceFrom (e lo : Expr)
  | not (e : Expr)
  | bin (op : String) (a b : Expr)

inductive Stmt where
  | assign (n : String) (e : Expr)          -- `:=` and `=`
  | ifS (c : Expr) (thn els : List Stmt)
  | ret (e : Expr)
  | forRange (v : String) (e : Expr) (body : List Stmt)   -- for _, v := range e
  | brk
  | cont

structure Func where
  name : String
  param : String
  body : List Stmt

structure Program where
  funcs : List Func
  regexes : List (String × Re)

inductive Val where
  | str (s : Bytes)
  | strs (l : List Bytes)
  | bool (b : Bool)
  | int (i : Int)
  | funcs (l : List String)
  | nil
  deriving BEq, Repr, Inhabited

abbrev Env := List (String × Val)

def Env.get? (env : Env) (n : String) : Option Val :=
  match env with
  | [] => none
  | (k, v) :: rest => if k == n then some v else Env.get? rest n

def Env.set (env : Env) (n : String) (v : Val) : Env :=
  match env with
  | [] => [(n, v)]
  | (k, v') :: rest => if k == n then (k, v) :: rest else (k, v') :: Env.set rest n v

inductive Ctl where
  | next | brk | cont
  | ret (v : Val)

/-! ### helpers of handlers.go and of package strings -/

/-- `strings.Split(s, sep)` for a non-empty separator -/
def splitOnAux (sep : Bytes) : Nat → Bytes → Bytes → List Bytes
  | 0, _, cur => [cur.reverse]
  | _, [], cur => [cur.reverse]
  | fuel + 1, s@(c :: cs), cur =>
    match stripPrefix? sep s with
    | some rest => if sep.isEmpty then [cur.reverse] else cur.reverse :: splitOnAux sep fuel rest []
    | none => splitOnAux sep fuel cs (c :: cur)

def splitOn (s sep : Bytes) : List Bytes := splitOnAux sep (s.length + 1) s []

/-- `multiSplit` -/
def multiSplit (value : Bytes) (seps : List Bytes) : List Bytes :=
  seps.foldl (fun cur sep => cur.flatMap fun j => splitOn j sep) [value]

/-- `in(value, arr)`: every element of `value` occurs in `arr` -/
def inList (value arr : List Bytes) : Bool := value.all fun i => arr.contains i

/-- callback for Go's Unicode `strings.ToLower`; instantiated by BM.Sanitize -/
def splitValues (toLower : Bytes → Bytes) (value : Bytes) : List Bytes :=
  (splitOn value [44]).map fun v => toLower (Css.trimSpace v)

def trimSuffix (s suf : Bytes) : Bytes :=
  if hasSuffix suf s then s.take (s.length - suf.length) else s

/- `recursiveCheck` / `recursiveCheckFrom` are modelled as the Go code runs them in BM/RecCheck.lean
   (`recursiveCheck`, with its `failed` table and a count of handler invocations); what they decide
   and what they cost is proved in Proofs/RecCheck. -/

/-! ### regexp methods on byte strings -/

/-- `string(re.ReplaceAll([]byte(s), []byte{}))`, byte-exact: every leftmost-first match is deleted
    (an empty match deletes nothing and the scan advances one rune); the runes that are kept keep
    their original bytes, also when they are invalid UTF-8.  `prev` is the rune before the position
    (what `^` and `\b`-like assertions look at). -/
def deleteAllAux (re : Re) : Nat → Option Rune → Bytes → Bytes
  | 0, _, _ => []
  | _, _, [] => []
  | fuel + 1, prev, s =>
    let runes := decodeRunes s
    let cw := decodeRune s
    match Re.m re prev runes fun _ rest => some rest.length with
    | some rem =>
      let n := runes.length - rem
      if n == 0 then s.take cw.2 ++ deleteAllAux re fuel (some cw.1) (s.drop cw.2)
      else deleteAllAux re fuel ((runes.take n).getLast?) (s.drop (Css.runesByteLen n s))
    | none => s.take cw.2 ++ deleteAllAux re fuel (some cw.1) (s.drop cw.2)

def deleteAll (re : Re) (s : Bytes) : Bytes := deleteAllAux re (s.length + 1) none s

/-- `re.FindString(s)` -/
def findString (re : Re) (s : Bytes) : Bytes :=
  let runes := decodeRunes s
  match Re.find re runes with
  | none => []
  | some (skip, n) =>
    let a := Css.runesByteLen skip s
    let b := Css.runesByteLen (skip + n) s
    (s.drop a).take (b - a)

/-! ### the interpreter (fuel = recursion depth) -/

def cmpInt (op : String) (a b : Int) : Option Bool :=
  match op with
  | "==" => some (a == b) | "!=" => some (a != b)
  | "<" => some (decide (a < b)) | ">" => some (decide (a > b))
  | "<=" => some (decide (a ≤ b)) | ">=" => some (decide (a ≥ b))
  | _ => none

structure Ctx where
  prog : Program
  toLower : Bytes → Bytes
  /-- package-level values visible in every function (`colorValues`) -/
  globals : Env := []

def Ctx.func? (c : Ctx) (n : String) : Option Func := c.prog.funcs.find? (·.name == n)
def Ctx.regex? (c : Ctx) (n : String) : Option Re := (c.prog.regexes.find? (·.1 == n)).map (·.2)

mutual

def evalArgs (c : Ctx) : Nat → Env → List Expr → Option (List Val)
  | 0, _, _ => none
  | _, _, [] => some []
  | fuel + 1, env, e :: es =>
    match evalE c fuel env e, evalArgs c fuel env es with
    | some v, some vs => some (v :: vs)
    | _, _ => none

def evalE (c : Ctx) : Nat → Env → Expr → Option Val
  | 0, _, _ => none
  | fuel + 1, env, e =>
    match e with
    | .var n => env.get? n
    | .str s => some (.str s)
    | .int n => some (.int n)
    | .bool b => some (.bool b)
    | .nil => some .nil
    | .funcs names => some (.funcs names)
    | .strs es =>
      (evalArgs c fuel env es).bind fun vs =>
        vs.mapM (fun (v : Val) => match v with | Val.str s => some s | _ => none) |>.map Val.strs
    | .not e => match evalE c fuel env e with
      | some (.bool b) => some (.bool !b)
      | _ => none
    | .index e i => match evalE c fuel env e, evalE c fuel env i with
      | some (.strs l), some (.int k) =>
        if k < 0 then none else (l[k.toNat]?).map Val.str       -- out of range = Go panic
      | _, _ => none
    | .sliceFrom e lo => match evalE c fuel env e, evalE c fuel env lo with
      | some (.strs l), some (.int k) =>
        if k < 0 || k.toNat > l.length then none else some (.strs (l.drop k.toNat))
      | _, _ => none
    | .bin op a b =>
      if op == "&&" then
        match evalE c fuel env a with
        | some (.bool false) => some (.bool false)
        | some (.bool true) => evalE c fuel env b
        | _ => none
      else if op == "||" then
        match evalE c fuel env a with
        | some (.bool true) => some (.bool true)
        | some (.bool false) => evalE c fuel env b
        | _ => none
      else
        match evalE c fuel env a, evalE c fuel env b with
        | some (.int x), some (.int y) => (cmpInt op x y).map Val.bool
        | some (.str x), some (.str y) =>
          if op == "==" then some (.bool (x == y)) else if op == "!=" then some (.bool (x != y))
          else if op == "+" then some (.str (x ++ y)) else none
        | some (.strs _), some .nil =>
          -- `trimValue != nil`: strings.Split never returns nil
          if op == "!=" then some (.bool true) else if op == "==" then some (.bool false) else none
        | _, _ => none
    | .call f args =>
      match evalArgs c fuel env args with
      | none => none
      | some vs =>
        if f == "multiSplit" then
          match vs with
          | .str s :: seps =>
            (seps.mapM fun (v : Val) => match v with | Val.str x => some x | _ => none).map fun ss =>
              Val.strs (multiSplit s ss)
          | _ => none
        else
        match f, vs with
        | "len", [.strs l] => some (.int l.length)
        | "len", [.str s] => some (.int s.length)
        | "in", [.strs a, .strs b] => some (.bool (inList a b))
        | "splitValues", [.str s] => some (.strs (splitValues c.toLower s))
        | "strings.Split", [.str s, .str sep] => some (.strs (splitOn s sep))
        | "strings.TrimSpace", [.str s] => some (.str (Css.trimSpace s))
        | "strings.TrimSuffix", [.str s, .str suf] => some (.str (trimSuffix s suf))
        | "append", [.strs l, .str x] => some (.strs (l ++ [x]))
        | "appendSpread", [.strs l, .strs xs] => some (.strs (l ++ xs))
        | "recursiveCheck", [.strs vals, .funcs fs] =>
          some (.bool (recursiveCheck (fs.map fun fn v => callFn c fuel fn v == some true) vals).1)
        | _, _ => none
    | .handler f e =>
      match evalE c fuel env e with
      | some (.str s) => (callFn c fuel f s).map Val.bool
      | _ => none
    | .reMatch r e =>
      match evalE c fuel env e, c.regex? r with
      | some (.str s), some re => some (.bool (Re.matchBytes re s))
      | _, _ => none
    | .reFind r e =>
      match evalE c fuel env e, c.regex? r with
      | some (.str s), some re => some (.str (findString re s))
      | _, _ => none
    | .reDelete r e =>
      match evalE c fuel env e, c.regex? r with
      | some (.str s), some re => some (.str (deleteAll re s))
      | _, _ => none

def exec (c : Ctx) : Nat → Env → List Stmt → Option (Env × Ctl)
  | 0, _, _ => none
  | _, env, [] => some (env, .next)
  | fuel + 1, env, s :: rest =>
    match s with
    | .assign n e =>
      match evalE c fuel env e with
      | some v => exec c fuel (env.set n v) rest
      | none => none
    | .ret e => (evalE c fuel env e).map fun v => (env, .ret v)
    | .brk => some (env, .brk)
    | .cont => some (env, .cont)
    | .ifS cond thn els =>
      match evalE c fuel env cond with
      | some (.bool b) =>
        match exec c fuel env (if b then thn else els) with
        | some (env', .next) => exec c fuel env' rest
        | other => other
      | _ => none
    | .forRange v e body =>
      match evalE c fuel env e with
      | some (.strs l) =>
        match loop c fuel env v l body with
        | some (env', .next) => exec c fuel env' rest
        | other => other
      | _ => none

/-- `for _, v := range l { body }`: result control is `.next` or `.ret` -/
def loop (c : Ctx) : Nat → Env → String → List Bytes → List Stmt → Option (Env × Ctl)
  | 0, _, _, _, _ => none
  | _, env, _, [], _ => some (env, .next)
  | fuel + 1, env, v, x :: xs, body =>
    match exec c fuel (env.set v (.str x)) body with
    | some (env', .next) => loop c fuel env' v xs body
    | some (env', .cont) => loop c fuel env' v xs body
    | some (env', .brk) => some (env', .next)
    | other => other

/-- call handler `name` on `value`; `none` = out of fuel / ill-typed / Go would panic -/
def callFn (c : Ctx) : Nat → String → Bytes → Option Bool
  | 0, _, _ => none
  | fuel + 1, name, value =>
    match c.func? name with
    | none => none
    | some f =>
      match exec c fuel ((f.param, .str value) :: c.globals) f.body with
      | some (_, .ret (.bool b)) => some b
      | _ => none

end

def fuelFor (value : Bytes) : Nat := 400 + 16 * value.length

/-- run handler `name` on `value` -/
def run (c : Ctx) (name : String) (value : Bytes) : Option Bool := callFn c (fuelFor value) name value

end BM.Golite
