import BM.Basic
/-
  `recursiveCheck` / `recursiveCheckFrom` of css/handlers.go as the Go code runs them: the nested
  loops over cut positions and handler functions, the recursion on the remaining values, and the
  `failed` table that remembers suffixes found unmatchable (the repair of defect D7).  The state
  carries a counter of handler invocations, so that the cost of the algorithm is part of the model
  (`Proofs/RecCheck`: at most `len(funcs) · n(n+1)/2` invocations for `n` values) and can be
  compared with the real code, which the harness drives through the hook
  `css.VerifRecursiveCheck` with counting handler functions (`rc` lines).
-/
namespace BM.Golite

structure RC where
  /-- `failed[n]`: the last `n` values cannot be matched -/
  failed : List Bool
  /-- handler invocations so far -/
  calls : Nat
  deriving Repr

def RC.isFailed (st : RC) (n : Nat) : Bool := st.failed.getD n false
def RC.markFailed (st : RC) (n : Nat) : RC := { st with failed := st.failed.set n true }
def RC.tick (st : RC) : RC := { st with calls := st.calls + 1 }

/-- the double loop `for i … { for _, j := range funcs { … } }`, flattened to the list of
    (cut position, handler) pairs in the order the Go code visits them; `rec` is the recursive
    call on the remaining values -/
def rcScan (rec : List Bytes → RC → Bool × RC) (value : List Bytes) :
    List (Nat × (Bytes → Bool)) → RC → Bool × RC
  | [], st => (false, st)
  | (i, j) :: rest, st =>
    let st := st.tick
    if j (joinBytes [32] (value.take (i + 1))) then
      if (value.drop (i + 1)).length == 0 then (true, st)
      else
        let r := rec (value.drop (i + 1)) st
        if r.1 then (true, r.2) else rcScan rec value rest r.2
    else rcScan rec value rest st

def rcPairs (n : Nat) (fs : List (Bytes → Bool)) : List (Nat × (Bytes → Bool)) :=
  (List.range n).flatMap fun i => fs.map fun j => (i, j)

/-- `recursiveCheckFrom(value, funcs, failed)`; the fuel bounds the recursion depth (one level
    per remaining value) -/
def recFrom (fs : List (Bytes → Bool)) : Nat → List Bytes → RC → Bool × RC
  | 0, _, st => (false, st)
  | fuel + 1, value, st =>
    if st.isFailed value.length then (false, st)
    else
      let r := rcScan (recFrom fs fuel) value (rcPairs value.length fs) st
      if r.1 then r else (false, r.2.markFailed value.length)

def RC.fresh (n : Nat) : RC := { failed := List.replicate (n + 1) false, calls := 0 }

/-- `recursiveCheck(value, funcs)`: the verdict and the number of handler invocations -/
def recursiveCheck (fs : List (Bytes → Bool)) (value : List Bytes) : Bool × Nat :=
  let r := recFrom fs (value.length + 1) value (RC.fresh value.length)
  (r.1, r.2.calls)

end BM.Golite
