import BM.Basic
import BM.Url
import BM.Unicode
/-
  Model of bluemonday's `Policy` (policy.go) and of its builder API.
  Go maps are association lists with map semantics (`Map.set` replaces, `Map.get?`
  finds the unique entry).  A compiled regexp is a `Pat`: an identity (the pointer in Go;
  two compilations of one pattern are different map keys) and its `MatchString`.
-/
namespace BM

structure Pat where
  id : Nat
  test : Bytes → Bool

/-! ### association lists with Go-map semantics -/

abbrev Map (κ ν : Type) := List (κ × ν)

namespace Map
variable {κ ν : Type} [BEq κ]

def get? (m : Map κ ν) (k : κ) : Option ν :=
  match m with
  | [] => none
  | (k', v) :: rest => if k' == k then some v else get? rest k

def contains (m : Map κ ν) (k : κ) : Bool := (m.get? k).isSome

def set (m : Map κ ν) (k : κ) (v : ν) : Map κ ν :=
  match m with
  | [] => [(k, v)]
  | (k', v') :: rest => if k' == k then (k, v) :: rest else (k', v') :: set rest k v

def erase (m : Map κ ν) (k : κ) : Map κ ν := m.filter fun e => !(e.1 == k)

/-- `m[k] = f(m[k])` with a default for a missing key. -/
def update (m : Map κ ν) (k : κ) (dflt : ν) (f : ν → ν) : Map κ ν :=
  m.set k (f ((m.get? k).getD dflt))

end Map

/-- `attrPolicy`: an optional value pattern. -/
abbrev AttrPolicy := Option Pat

structure StylePolicy where
  handler : Option (Bytes → Bool) := none
  enum : List Bytes := []
  re : Option Pat := none

abbrev AttrRules := Map Bytes (List AttrPolicy)
abbrev StyleRules := Map Bytes (List StylePolicy)

abbrev UrlPolicy := Url.URL → Bool
abbrev UrlRewriter := Url.URL → Url.URL

structure Policy where
  /-- `init()` has run: `NewPolicy()` sets it; a zero-value `Policy{}` gets it on the first
      builder call that touches a table, or on the first `sanitize` -/
  initialized : Bool := false
  addSpaces : Bool := false
  requireNoFollow : Bool := false
  requireNoFollowFullyQualifiedLinks : Bool := false
  requireNoReferrer : Bool := false
  requireNoReferrerFullyQualifiedLinks : Bool := false
  requireCrossOriginAnonymous : Bool := false
  requireSandboxOnIFrame : Option (List Bytes) := none
  addTargetBlankToFullyQualifiedLinks : Bool := false
  requireParseableURLs : Bool := false
  allowRelativeURLs : Bool := false
  allowDataAttributes : Bool := false
  allowComments : Bool := false
  elsAndAttrs : Map Bytes AttrRules := []
  elsMatchingAndAttrs : List (Pat × AttrRules) := []
  globalAttrs : AttrRules := []
  elsAndStyles : Map Bytes StyleRules := []
  elsMatchingAndStyles : List (Pat × StyleRules) := []
  globalStyles : StyleRules := []
  allowURLSchemes : Map Bytes (List UrlPolicy) := []
  allowURLSchemeRegexps : List Pat := []
  srcRewriter : Option UrlRewriter := none
  setOfElementsAllowedWithoutAttrs : List Bytes := []
  setOfElementsMatchingAllowedWithoutAttrs : List Pat := []
  setOfElementsToSkipContent : List Bytes := []
  allowUnsafe : Bool := false

/-! ### maps keyed by regexp identity -/

def patGet? {ν} (m : List (Pat × ν)) (p : Pat) : Option ν :=
  match m with
  | [] => none
  | (q, v) :: rest => if q.id == p.id then some v else patGet? rest p

def patSet {ν} (m : List (Pat × ν)) (p : Pat) (v : ν) : List (Pat × ν) :=
  match m with
  | [] => [(p, v)]
  | (q, v') :: rest => if q.id == p.id then (q, v) :: rest else (q, v') :: patSet rest p v

def setInsert (s : List Bytes) (x : Bytes) : List Bytes := if s.contains x then s else s ++ [x]

/-! ### builder operations (one constructor per exported method / terminal call) -/

inductive Scope where
  | onElements (names : List Bytes)
  | onElementsMatching (p : Pat)
  | globally

/-- what a `stylePolicyBuilder` has accumulated before its terminal call -/
structure StyleMatcher where
  handler : Option (Bytes → Bool) := none
  enum : List Bytes := []
  re : Option Pat := none

inductive BuilderOp where
  | allowElements (names : List Bytes)
  | allowElementsMatching (p : Pat)
  /-- `AllowAttrs(names…)[.Matching(re)][.AllowNoAttrs()].<scope>`; `AllowNoAttrs().<scope>` has no names -/
  | allowAttrs (names : List Bytes) (re : Option Pat) (allowEmpty : Bool) (scope : Scope)
  /-- `AllowStyles(names…)[.Matching…].<scope>`; `dflt` is `css.GetDefaultHandler` -/
  | allowStyles (names : List Bytes) (m : StyleMatcher) (scope : Scope)
  | allowDataAttributes
  | allowComments
  | allowURLSchemesMatching (p : Pat)
  | rewriteSrc (f : UrlRewriter)
  | requireNoFollowOnLinks (b : Bool)
  | requireNoFollowOnFullyQualifiedLinks (b : Bool)
  | requireNoReferrerOnLinks (b : Bool)
  | requireNoReferrerOnFullyQualifiedLinks (b : Bool)
  | requireCrossOriginAnonymous (b : Bool)
  | addTargetBlankToFullyQualifiedLinks (b : Bool)
  | requireParseableURLs (b : Bool)
  | allowRelativeURLs (b : Bool)
  | allowURLSchemes (schemes : List Bytes)
  | allowURLSchemeWithCustomPolicy (scheme : Bytes) (f : UrlPolicy)
  | requireSandboxOnIFrame (vals : List Bytes)
  | addSpaceWhenStrippingTag (b : Bool)
  | skipElementsContent (names : List Bytes)
  | allowElementsContent (names : List Bytes)
  | allowUnsafe (b : Bool)

/-- Go's `strings.ToLower` on builder arguments (Unicode-aware, on the regenerated tables) -/
def toLowerName (s : Bytes) : Bytes := toLowerGo s

def addAttrRule (rules : AttrRules) (attr : Bytes) (ap : AttrPolicy) : AttrRules :=
  rules.update attr [] (· ++ [ap])

def addStyleRule (rules : StyleRules) (prop : Bytes) (sp : StylePolicy) : StyleRules :=
  rules.update prop [] (· ++ [sp])

/-- the `stylePolicy` a terminal call builds for property `prop` -/
def mkStylePolicy (dflt : Bytes → Bytes → Bool) (m : StyleMatcher) (prop : Bytes) : StylePolicy :=
  if m.handler.isSome then { handler := m.handler }
  else if m.enum.length > 0 then { enum := m.enum }
  else if m.re.isSome then { re := m.re }
  else { handler := some (dflt prop) }

/-- `OnElements` of an attrPolicyBuilder, for one element -/
def attrsOnElement (p : Policy) (names : List Bytes) (re : Option Pat) (allowEmpty : Bool)
    (element : Bytes) : Policy :=
  let p := names.foldl (fun p attr =>
      { p with elsAndAttrs := p.elsAndAttrs.update element [] fun r => addAttrRule r attr re }) p
  if allowEmpty then
    { p with
      setOfElementsAllowedWithoutAttrs := setInsert p.setOfElementsAllowedWithoutAttrs element
      elsAndAttrs := p.elsAndAttrs.update element [] id }
  else p

/-- `p.init()`: on a policy that is not yet initialised every table is (re)created empty —
    which discards scheme patterns registered earlier with `AllowURLSchemesMatching` on a
    zero-value policy, the only table a builder call can fill without initialising -/
def Policy.ensureInit (p : Policy) : Policy :=
  if p.initialized then p
  else { p with initialized := true, elsAndAttrs := [], elsMatchingAndAttrs := [], globalAttrs := [],
                elsAndStyles := [], elsMatchingAndStyles := [], globalStyles := [], allowURLSchemes := [],
                allowURLSchemeRegexps := [], setOfElementsAllowedWithoutAttrs := [],
                setOfElementsToSkipContent := [] }

/-- does this builder call start with `p.init()`? -/
def BuilderOp.callsInit : BuilderOp → Bool
  | .allowElements _ | .allowElementsMatching _ | .allowAttrs _ _ _ _ | .allowStyles _ _ _
  | .allowURLSchemes _ | .allowURLSchemeWithCustomPolicy _ _ | .skipElementsContent _
  | .allowElementsContent _ | .allowUnsafe _ => true
  | _ => false

/-- `applyOp dflt p op`: the effect of one builder call; `dflt prop value` is
    `css.GetDefaultHandler(prop)(value)`. -/
def applyOpInit (dflt : Bytes → Bytes → Bool) (p : Policy) : BuilderOp → Policy
  | .allowElements names =>
    names.foldl (fun p e => { p with elsAndAttrs := p.elsAndAttrs.update (toLowerName e) [] id }) p
  | .allowElementsMatching r =>
    if (patGet? p.elsMatchingAndAttrs r).isSome then p
    else { p with elsMatchingAndAttrs := patSet p.elsMatchingAndAttrs r [] }
  | .allowAttrs names re allowEmpty scope =>
    let names := names.map toLowerName
    match scope with
    | .onElements els => els.foldl (fun p e => attrsOnElement p names re allowEmpty (toLowerName e)) p
    | .onElementsMatching r =>
      let p := names.foldl (fun p attr =>
        let cur := (patGet? p.elsMatchingAndAttrs r).getD []
        let m := patSet p.elsMatchingAndAttrs r (addAttrRule cur attr re)
        { p with elsMatchingAndAttrs := m }) p
      if allowEmpty then
        let m := if (patGet? p.elsMatchingAndAttrs r).isSome then p.elsMatchingAndAttrs
                 else patSet p.elsMatchingAndAttrs r []
        { p with
          setOfElementsMatchingAllowedWithoutAttrs := p.setOfElementsMatchingAllowedWithoutAttrs ++ [r]
          elsMatchingAndAttrs := m }
      else p
    | .globally =>
      names.foldl (fun p attr => { p with globalAttrs := addAttrRule p.globalAttrs attr re }) p
  | .allowStyles names m scope =>
    let names := names.map toLowerName
    match scope with
    | .onElements els =>
      els.foldl (fun p e =>
        let e := toLowerName e
        names.foldl (fun p prop =>
          { p with elsAndStyles := p.elsAndStyles.update e [] fun r =>
              addStyleRule r prop (mkStylePolicy dflt m prop) }) p) p
    | .onElementsMatching r =>
      names.foldl (fun p prop =>
        let cur := (patGet? p.elsMatchingAndStyles r).getD []
        let ms := patSet p.elsMatchingAndStyles r (addStyleRule cur prop (mkStylePolicy dflt m prop))
        { p with elsMatchingAndStyles := ms }) p
    | .globally =>
      names.foldl (fun p prop =>
        { p with globalStyles := addStyleRule p.globalStyles prop (mkStylePolicy dflt m prop) }) p
  | .allowDataAttributes => { p with allowDataAttributes := true }
  | .allowComments => { p with allowComments := true }
  | .allowURLSchemesMatching r => { p with allowURLSchemeRegexps := p.allowURLSchemeRegexps ++ [r] }
  | .rewriteSrc f => { p with srcRewriter := some f }
  | .requireNoFollowOnLinks b => { p with requireNoFollow := b, requireParseableURLs := true }
  | .requireNoFollowOnFullyQualifiedLinks b =>
    { p with requireNoFollowFullyQualifiedLinks := b, requireParseableURLs := true }
  | .requireNoReferrerOnLinks b => { p with requireNoReferrer := b, requireParseableURLs := true }
  | .requireNoReferrerOnFullyQualifiedLinks b =>
    { p with requireNoReferrerFullyQualifiedLinks := b, requireParseableURLs := true }
  | .requireCrossOriginAnonymous b => { p with requireCrossOriginAnonymous := b }
  | .addTargetBlankToFullyQualifiedLinks b =>
    { p with addTargetBlankToFullyQualifiedLinks := b, requireParseableURLs := true }
  | .requireParseableURLs b => { p with requireParseableURLs := b }
  | .allowRelativeURLs b => { p with requireParseableURLs := true, allowRelativeURLs := b }
  | .allowURLSchemes schemes =>
    schemes.foldl (fun p s => { p with allowURLSchemes := p.allowURLSchemes.set (toLowerName s) [] })
      { p with requireParseableURLs := true }
  | .allowURLSchemeWithCustomPolicy scheme f =>
    { p with requireParseableURLs := true
             allowURLSchemes := p.allowURLSchemes.update (toLowerName scheme) [] (· ++ [f]) }
  | .requireSandboxOnIFrame vals => { p with requireSandboxOnIFrame := some vals }
  | .addSpaceWhenStrippingTag b => { p with addSpaces := b }
  | .skipElementsContent names =>
    names.foldl (fun p e =>
      { p with setOfElementsToSkipContent := setInsert p.setOfElementsToSkipContent (toLowerName e) }) p
  | .allowElementsContent names =>
    names.foldl (fun p e =>
      { p with setOfElementsToSkipContent := p.setOfElementsToSkipContent.filter (· != toLowerName e) }) p
  | .allowUnsafe b => { p with allowUnsafe := b }

def applyOp (dflt : Bytes → Bytes → Bool) (p : Policy) (op : BuilderOp) : Policy :=
  applyOpInit dflt (if op.callsInit then p.ensureInit else p) op

def applyOps (dflt : Bytes → Bytes → Bool) (p : Policy) (ops : List BuilderOp) : Policy :=
  ops.foldl (applyOp dflt) p

end BM
