import BM.Basic
import BM.Regex
import BM.Gen.Scanner
/-
  Model of github.com/gorilla/css/scanner (v1.0.1) `Scanner.Next` and of
  github.com/aymerick/douceur/parser (v0.2.0) `ParseDeclarations`.
  The scanner's thirteen token regexps are regenerated from scanner.go into
  BM.Gen.Scanner on every run; the dispatch logic below is written by hand.
-/
namespace BM.Css

inductive TokKind where
  | ignorable          -- S, COMMENT, CDO, CDC
  | char               -- CHAR (value is the character)
  | other              -- everything else: only the value matters to the declaration parser
  deriving BEq, Repr, DecidableEq

structure Tok where
  kind : TokKind
  value : Bytes
  deriving BEq, Repr

inductive ScanEnd where
  | eof | error
  deriving BEq, Repr, DecidableEq

/-- byte length of the first `n` runes of `s` (Go decoding: invalid byte = width 1). -/
def runesByteLen : Nat → Bytes → Nat
  | 0, _ => 0
  | _, [] => 0
  | n + 1, s => let (_, w) := decodeRune s; w + runesByteLen n (s.drop w)

/-- `matchers[t].FindString(input)`: the patterns are anchored with `^`, so this is a
    leftmost-first prefix match. Returns the matched byte count (0 = no match). -/
def prefixLen (r : Re) (input : Bytes) : Nat :=
  let runes := decodeRunes input
  match Re.m r none runes fun _ rest => some rest.length with
  | some rem => runesByteLen (runes.length - rem) input
  | none => 0

def replaceCRLF : Bytes → Bytes
  | [] => []
  | [c] => if c == 13 || c == 12 then [10] else if c == 0 then [0xEF, 0xBF, 0xBD] else [c]
  | c :: d :: cs =>
    if c == 13 then
      if d == 10 then 10 :: replaceCRLF cs else 10 :: replaceCRLF (d :: cs)
    else if c == 12 then 10 :: replaceCRLF (d :: cs)
    else if c == 0 then 0xEF :: 0xBF :: 0xBD :: replaceCRLF (d :: cs)
    else c :: replaceCRLF (d :: cs)

def simpleChars : Bytes := b!":,;%&+=>()[]{}"

def matchOrder : List Re :=
  [Gen.reURI, Gen.reFunction, Gen.reUnicodeRange, Gen.reIdent, Gen.reDimension,
   Gen.rePercentage, Gen.reNumber, Gen.reCDC]

def firstMatch (input : Bytes) : List Re → Nat
  | [] => 0
  | r :: rs => let n := prefixLen r input; if n > 0 then n else firstMatch input rs

/-- One `Scanner.Next` on non-empty remaining input (`atStart` = `s.pos == 0`):
    `some (token, bytes consumed)` or `none` for an error token. -/
def nextTok (atStart : Bool) (input : Bytes) : Option (Tok × Nat) :=
  match input with
  | [] => none
  | c :: rest =>
    if atStart && hasPrefix [0xEF, 0xBB, 0xBF] input then some (⟨.other, [0xEF, 0xBB, 0xBF]⟩, 3)
    else if c == 9 || c == 10 || c == 32 then
      let n := prefixLen Gen.reS input; some (⟨.ignorable, input.take n⟩, n)
    else if c == 46 && (match rest with | d :: _ => !isDigit d | [] => false) then
      some (⟨.char, [c]⟩, 1)
    else if c == 35 then
      let n := prefixLen Gen.reHash input
      if n > 0 then some (⟨.other, input.take n⟩, n) else some (⟨.char, [c]⟩, 1)
    else if c == 64 then
      let n := prefixLen Gen.reAtKeyword input
      if n > 0 then some (⟨.other, input.take n⟩, n) else some (⟨.char, [c]⟩, 1)
    else if simpleChars.contains c then some (⟨.char, [c]⟩, 1)
    else if c == 34 || c == 39 then
      let n := prefixLen Gen.reString input
      if n > 0 then some (⟨.other, input.take n⟩, n) else none
    else if c == 47 then
      if rest.head? == some 42 then
        let n := prefixLen Gen.reComment input
        if n > 0 then some (⟨.ignorable, input.take n⟩, n) else none
      else some (⟨.char, [c]⟩, 1)
    else if c == 126 || c == 124 || c == 94 || c == 36 || c == 42 then
      if rest.head? == some 61 then some (⟨.other, [c, 61]⟩, 2) else some (⟨.char, [c]⟩, 1)
    else if c == 60 then
      if hasPrefix b!"<!--" input then some (⟨.ignorable, b!"<!--"⟩, 4) else some (⟨.char, [c]⟩, 1)
    else
      -- '.' followed by a digit (or alone) and everything else: the ordered matchers
      let n := firstMatch input matchOrder
      if n > 0 then
        -- CDC (`-->`) is ignorable for the parser; it is last in the order and the only
        -- matcher that can produce exactly this value
        let v := input.take n
        some (⟨if v == b!"-->" then .ignorable else .other, v⟩, n)
      else
        let (r, w) := decodeRune input
        some (⟨.char, encodeRune r⟩, w)

def scanAll : Nat → Bool → Bytes → List Tok × ScanEnd
  | 0, _, _ => ([], .eof)
  | _, _, [] => ([], .eof)
  | fuel + 1, atStart, input =>
    match nextTok atStart input with
    | none => ([], .error)
    | some (t, n) =>
      let (ts, e) := scanAll fuel false (input.drop (max n 1))
      (t :: ts, e)

def scan (s : Bytes) : List Tok × ScanEnd :=
  let input := replaceCRLF s
  scanAll (input.length + 1) true input

/-! ### douceur declarations -/

def isUniSpace (r : Rune) : Bool :=
  r == 9 || r == 10 || r == 11 || r == 12 || r == 13 || r == 32 || r == 0x85 || r == 0xA0 ||
  r == 0x1680 || (0x2000 ≤ r && r ≤ 0x200A) || r == 0x2028 || r == 0x2029 || r == 0x202F ||
  r == 0x205F || r == 0x3000

def trimLeftSpace : Nat → Bytes → Bytes
  | 0, s => s
  | _, [] => []
  | fuel + 1, s =>
    let (r, w) := decodeRune s
    if isUniSpace r then trimLeftSpace fuel (s.drop w) else s

/-- trailing-space trimming works backwards over runes (`utf8.DecodeLastRune`): we decode
    forwards and keep the longest prefix that does not end in a space rune. -/
def trimRightSpaceAux : Nat → Bytes → Bytes × Bool
  | 0, s => (s, false)
  | _, [] => ([], true)
  | fuel + 1, s =>
    let (r, w) := decodeRune s
    let (t, allSpace) := trimRightSpaceAux fuel (s.drop w)
    if allSpace && isUniSpace r then ([], true) else (s.take w ++ t, false)

/-- `strings.TrimSpace`. -/
def trimSpace (s : Bytes) : Bytes :=
  let l := trimLeftSpace (s.length + 1) s
  (trimRightSpaceAux (l.length + 1) l).1

def isCssWs (c : UInt8) : Bool := c == 9 || c == 10 || c == 12 || c == 13 || c == 32

/-- does `s` consist of `\s*!important\s*` (ASCII case-insensitive)? -/
def isImportantTail (s : Bytes) : Bool :=
  let s1 := s.dropWhile isCssWs
  match stripPrefix? b!"!important" (lowerAscii (s1.take 10)) with
  | some [] => (s1.drop 10).all isCssWs
  | _ => false

/-- `importantRegexp.ReplaceAllString(cur, "")` with `(?i)\s*!important\s*$`:
    cut at the leftmost position from which the rest is an important-suffix. -/
def stripImportant : Bytes → Bytes
  | [] => []
  | s@(c :: cs) => if isImportantTail s then [] else c :: stripImportant cs

structure Decl where
  property : Bytes
  value : Bytes
  deriving BEq, Repr, DecidableEq

def Tok.isChar (t : Tok) (c : UInt8) : Bool := t.kind == .char && t.value == [c]

/-- `ParseDeclaration`: returns the declaration and the remaining tokens, or `none` for
    the "Unexpected ; character" error. -/
def parseDecl : List Tok → Bytes → Bytes → Option (Decl × List Tok)
  | [], prop, _ => some (⟨prop, []⟩, [])
  | t :: ts, prop, cur =>
    if t.isChar 58 then parseDecl ts (trimSpace cur) []
    else if t.isChar 59 || t.isChar 125 then
      if prop.isEmpty then none
      else
        let cur := stripImportant cur
        some (⟨prop, trimSpace cur⟩, if t.isChar 59 then ts else t :: ts)
    else parseDecl ts prop (cur ++ t.value)

def parseDeclsAux : Nat → List Tok → List Decl → Option (List Decl × List Tok)
  | 0, _, _ => none
  | _, [], acc => some (acc.reverse, [])
  | fuel + 1, t :: ts, acc =>
    if t.kind == .ignorable then parseDeclsAux fuel ts acc
    else if t.isChar 125 then some (acc.reverse, ts)
    else match parseDecl (t :: ts) [] [] with
      | none => none
      | some (d, rest) => parseDeclsAux fuel rest (d :: acc)

/-- `parser.ParseDeclarations(text)`; `none` = error. -/
def parseDeclarations (text : Bytes) : Option (List Decl) :=
  let (toks, e) := scan text
  let toks := match toks with
    | t :: ts => if t.isChar 123 then ts else t :: ts
    | [] => []
  match parseDeclsAux (toks.length + 2) toks [] with
  | none => none
  | some (ds, rest) =>
    -- `parser.err()`: an error only if the *next* token is the scanner's error token
    if rest.isEmpty && e == .error then none else some ds

end BM.Css
