import BM.Sanitize
import BM.CssDefault
import BM.Gen.Defaults
/- `NewPolicy()`, `StrictPolicy()` (and, regenerated, `UGCPolicy()`), as model values. -/
namespace BM

/-- `NewPolicy()` with the regenerated default tables -/
def newPolicy : Policy :=
  { initialized := true
    setOfElementsAllowedWithoutAttrs := Gen.defaultNoAttrs
    setOfElementsToSkipContent := Gen.defaultSkipContent }

/-- `StrictPolicy()` is `NewPolicy()` (policies.go; re-checked by the extractor) -/
def strictPolicy : Policy := newPolicy

end BM

namespace BM

def isB64Char (c : UInt8) : Bool := isAlnum c || c == 43 || c == 47

/-- `base64.StdEncoding.DecodeString(s)` succeeds: CR/LF are ignored, then quanta of four
    alphabet characters; the last quantum may end in `=` or `==`. -/
def validBase64Std (s : Bytes) : Bool :=
  let s := s.filter fun c => c != 13 && c != 10
  let rec go : Nat → Bytes → Bool
    | 0, _ => false
    | _, [] => true
    | fuel + 1, a :: b :: c :: d :: rest =>
      if isB64Char a && isB64Char b then
        if isB64Char c && isB64Char d then go fuel rest
        else if isB64Char c && d == 61 then rest.isEmpty
        else if c == 61 && d == 61 then rest.isEmpty
        else false
      else false
    | _, _ => false
  go (s.length + 1) s

/-- `dataURIImagePrefix.FindString(opaque)`: `^image/(gif|jpeg|png|svg\+xml|webp);base64,` -/
def dataImagePrefixLen (opaq : Bytes) : Nat :=
  let alts : List Bytes :=
    [b!"image/gif;base64,", b!"image/jpeg;base64,", b!"image/png;base64,",
     b!"image/svg+xml;base64,", b!"image/webp;base64,"]
  match alts.find? fun a => hasPrefix a opaq with
  | some a => a.length
  | none => 0

/-- the closure `AllowDataURIImages` registers for the `data` scheme (helpers.go);
    hand-written, pinned to the source by `Gen.dataURIImageClosureHash` -/
def dataURIImagePolicy : UrlPolicy := fun u =>
  if !u.rawQuery.isEmpty || !u.fragment.isEmpty then false
  else
    let n := dataImagePrefixLen u.opaq
    if n == 0 then false else validBase64Std (u.opaq.drop n)

end BM
