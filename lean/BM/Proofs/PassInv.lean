import BM.Sanitize
import BM.Proofs.AttrsOK
/-
  Invariants of the later passes of `sanitizeAttrs` (link hardening, forced crossorigin, forced
  sandbox): they keep every attribute's key, change values only of rel / target / crossorigin /
  sandbox, and append only attributes with those keys.  Any predicate that holds of such
  attributes and depends only on key and value of the others is therefore preserved.
-/
namespace BM
open Html

/-- keys of the attributes the later passes add or overwrite -/
def addedKey (k : Bytes) : Prop := k = b!"rel" ∨ k = b!"target" ∨ k = b!"crossorigin" ∨ k = b!"sandbox"

/-- a predicate on attributes that the later passes cannot break -/
structure PassInv (P : Attr → Prop) : Prop where
  added : ∀ x, addedKey x.key → P x
  stable : ∀ a b, b.key = a.key → b.val = a.val → P a → P b

variable {P : Attr → Prop}

theorem inv_map (hP : PassInv P) {l : List Attr} (f : Attr → Attr)
    (hf : ∀ a, (f a).key = a.key ∧ ((f a).val = a.val ∨ addedKey a.key))
    (h : ∀ b ∈ l, P b) : ∀ b ∈ l.map f, P b := by
  intro b hb
  simp only [List.mem_map] at hb
  obtain ⟨a, ha, rfl⟩ := hb
  obtain ⟨hk, hv⟩ := hf a
  rcases hv with hv | hv
  · exact hP.stable a _ hk hv (h a ha)
  · exact hP.added _ (by rw [hk]; exact hv)

theorem inv_append (hP : PassInv P) {l : List Attr} (x : Attr) (hx : addedKey x.key)
    (h : ∀ b ∈ l, P b) : ∀ b ∈ l ++ [x], P b := by
  intro b hb
  simp only [List.mem_append, List.mem_singleton] at hb
  rcases hb with hb | rfl
  · exact h b hb
  · exact hP.added _ hx

theorem inv_fixFirstTarget (hP : PassInv P) : ∀ {l : List Attr}, (∀ b ∈ l, P b) → ∀ b ∈ fixFirstTarget l, P b
  | [], _ => by intro b hb; simp [fixFirstTarget] at hb
  | a :: as, h => by
    intro b hb
    unfold fixFirstTarget at hb
    split at hb
    · rename_i hk
      simp only [List.mem_cons] at hb
      rcases hb with rfl | hb
      · split
        · exact h a (by simp)
        · exact hP.added _ (.inr (.inl (by simpa using hk)))
      · exact h b (by simp [hb])
    · simp only [List.mem_cons] at hb
      rcases hb with rfl | hb
      · exact h _ (by simp)
      · exact inv_fixFirstTarget hP (fun x hx => h x (by simp [hx])) b hb

theorem inv_addNoOpener (hP : PassInv P) {l : List Attr} (h : ∀ b ∈ l, P b) : ∀ b ∈ addNoOpener l, P b := by
  unfold addNoOpener
  split
  · refine inv_map hP _ ?_ h
    intro a
    split
    · rename_i hk; exact ⟨rfl, .inr (.inl (by simpa using hk))⟩
    · exact ⟨rfl, .inl rfl⟩
  · exact inv_append hP _ (.inl rfl) h

theorem inv_relFix (hP : PassInv P) {l : List Attr} (nf nr : Bool) (h : ∀ b ∈ l, P b) :
    ∀ b ∈ l.map (relFix nf nr), P b := by
  refine inv_map hP _ ?_ h
  intro a
  unfold relFix
  split
  · rename_i hk
    simp only [Bool.and_eq_true, beq_iff_eq] at hk
    exact ⟨rfl, .inr (.inl hk.1)⟩
  · exact ⟨rfl, .inl rfl⟩

theorem inv_hardenLinks (hP : PassInv P) (p : Policy) (el : Bytes) {l : List Attr} (h : ∀ b ∈ l, P b) :
    ∀ b ∈ p.hardenLinks el l, P b := by
  unfold Policy.hardenLinks
  simp only
  split
  · exact h
  · repeat' (first
      | exact inv_relFix hP _ _ h
      | apply inv_addNoOpener hP
      | apply inv_fixFirstTarget hP
      | apply inv_append hP _ (.inl rfl)
      | apply inv_append hP _ (.inr (.inl rfl))
      | split)

theorem inv_forceCrossOrigin (hP : PassInv P) (p : Policy) (el : Bytes) {l : List Attr} (h : ∀ b ∈ l, P b) :
    ∀ b ∈ p.forceCrossOrigin el l, P b := by
  unfold Policy.forceCrossOrigin
  split
  · split
    · refine inv_map hP _ ?_ h
      intro a; unfold setVal; split
      · rename_i hk; exact ⟨rfl, .inr (.inr (.inr (.inl (by simpa using hk))))⟩
      · exact ⟨rfl, .inl rfl⟩
    · exact inv_append hP _ (.inr (.inr (.inl rfl))) h
  · exact h

theorem inv_forceSandbox (hP : PassInv P) (p : Policy) (el : Bytes) {l : List Attr} (h : ∀ b ∈ l, P b) :
    ∀ b ∈ p.forceSandbox el l, P b := by
  unfold Policy.forceSandbox
  split
  · split
    · split
      · refine inv_map hP _ ?_ h
        intro a; unfold setVal; split
        · rename_i hk; exact ⟨rfl, .inr (.inr (.inr (.inr (by simpa using hk))))⟩
        · exact ⟨rfl, .inl rfl⟩
      · exact inv_append hP _ (.inr (.inr (.inr rfl))) h
    · exact h
  · exact h

/-- **what holds after the URL pass holds of the result**: `sanitizeAttrs` with URL checking,
    decomposed — the result is the later passes applied to the output of the URL pass -/
theorem sanitizeAttrs_after_urlPass (hP : PassInv P) (p : Policy) (el : Bytes) (attrs : List Attr) (aps : AttrRules)
    (out : List Attr) (h : p.sanitizeAttrs el attrs aps = some out)
    (hfirst : ∀ mid, mid = attrs.filterMap (p.filterAttr el aps (p.hasStylePolicies el)) →
      (¬ (linkable el = true ∧ p.requireParseableURLs = true) → ∀ b ∈ mid, P b) ∧
      (linkable el = true → p.requireParseableURLs = true →
        ∀ m2, mapMOpt (p.urlPassAttr el) mid = some m2 → ∀ b ∈ m2, P b)) :
    ∀ b ∈ out, P b := by
  unfold Policy.sanitizeAttrs at h
  split at h
  · rename_i he; simp at h; subst h; intro b hb; rw [List.isEmpty_iff.mp he] at hb; simp at hb
  · simp only at h
    obtain ⟨hno, hyes⟩ := hfirst _ rfl
    split at h
    · rename_i he
      simp at h; subst h
      intro b hb
      rw [List.isEmpty_iff.mp he] at hb; simp at hb
    · simp only [Option.map_eq_some_iff] at h
      obtain ⟨mid, hmid, rfl⟩ := h
      apply inv_forceSandbox hP
      apply inv_forceCrossOrigin hP
      unfold Policy.linkPasses at hmid
      split at hmid
      · rename_i hlink
        simp only [Option.map_eq_some_iff] at hmid
        obtain ⟨m2, hm2, rfl⟩ := hmid
        have h2 : ∀ b ∈ m2, P b := by
          split at hm2
          · rename_i hreq
            exact hyes hlink hreq m2 hm2
          · rename_i hreq
            simp at hm2; subst hm2
            exact hno (fun hc => hreq hc.2)
        split
        · exact inv_hardenLinks hP p el h2
        · exact h2
      · rename_i hlink
        simp at hmid; subst hmid
        exact hno (fun hc => hlink hc.1)

end BM
