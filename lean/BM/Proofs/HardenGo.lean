import BM.HardenGo
/-
  Refinement: the link-hardening block as the Go code runs it (`Policy.hardenLinksGo`: two loops,
  four flags, a temporary slice) computes what `Policy.hardenLinks` states, for every policy,
  element and attribute list.
-/
namespace BM
open Html

/-! ### the scan for hrefs -/

def isHrefAttr (a : Attr) : Bool := a.key == b!"href"
def hasHost (a : Attr) : Bool := match Url.parse a.val with
  | some u => !u.host.isEmpty
  | none => false

theorem scan_fold (l : List Attr) (acc : Bool × Bool) :
    l.foldl hrefScanStep acc =
    (acc.1 || l.any isHrefAttr, acc.2 || (l.filter isHrefAttr).any hasHost) := by
  induction l generalizing acc with
  | nil => simp
  | cons a as ih =>
    simp only [List.foldl_cons]
    rw [ih]
    unfold hrefScanStep
    by_cases hk : (a.key == b!"href") = true
    · simp only [hk, ↓reduceIte, List.any_cons, isHrefAttr, List.filter_cons, hasHost]
      cases hp : Url.parse a.val with
      | none => simp [Bool.or_assoc]
      | some u => simp [Bool.or_assoc]
    · have hk' : (a.key == b!"href") = false := by simpa using hk
      simp only [hk', Bool.false_eq_true, ↓reduceIte, List.any_cons, isHrefAttr, Bool.false_or, List.filter_cons]

/-! ### the first loop -/

/-- what the first loop appends to `tmpAttrs` for the attributes `l`, when `found` is the value of
    `targetBlankFound` it starts with -/
def loopOut (isA aNF aNR aTB : Bool) : Bool → List Attr → List Attr
  | _, [] => []
  | found, a :: as =>
    if isA && a.key == b!"target" then
      let found1 := found || asciiEqualFold a.val b!"_blank"
      if aTB && !found1 then ⟨a.key, b!"_blank"⟩ :: loopOut isA aNF aNR aTB true as
      else relFix aNF aNR a :: loopOut isA aNF aNR aTB found1 as
    else relFix aNF aNR a :: loopOut isA aNF aNR aTB found as

/-- `targetBlankFound` after the first loop over `l` -/
def foundAfter (isA aTB : Bool) (found : Bool) (l : List Attr) : Bool :=
  found || (isA && ((l.any fun a => a.key == b!"target" && asciiEqualFold a.val b!"_blank") ||
                    (aTB && l.any (·.key == b!"target"))))

theorem relFix_key (aNF aNR : Bool) (a : Attr) : (relFix aNF aNR a).key = a.key := by
  unfold relFix; split <;> rfl

theorem relFix_of_not_rel (aNF aNR : Bool) (a : Attr) (h : (a.key == b!"rel") = false) : relFix aNF aNR a = a := by
  unfold relFix; simp [h]

theorem target_ne_rel (a : Attr) (h : (a.key == b!"target") = true) : (a.key == b!"rel") = false := by
  have : a.key = b!"target" := by simpa using h
  rw [this]; decide

theorem hlStep_spec (isA aNF aNR aTB : Bool) (s : HLState) (a : Attr) :
    let s' := hlStep isA aNF aNR aTB s a
    s'.tmpAttrs = s.tmpAttrs ++ loopOut isA aNF aNR aTB s.targetBlankFound [a] ∧
    s'.targetBlankFound = foundAfter isA aTB s.targetBlankFound [a] ∧
    s'.noFollowFound = (if a.key == b!"rel" && (aNF || aNR) then aNF else s.noFollowFound) ∧
    s'.noReferrerFound = (if a.key == b!"rel" && (aNF || aNR) then aNR else s.noReferrerFound) := by
  intro s'
  by_cases hrel : (a.key == b!"rel" && (aNF || aNR)) = true
  · -- a rel attribute that is fixed: it cannot be a target attribute
    have hkr : (a.key == b!"rel") = true := by simp only [Bool.and_eq_true] at hrel; exact hrel.1
    have hnt : (a.key == b!"target") = false := by
      have : a.key = b!"rel" := by simpa using hkr
      rw [this]; decide
    have hfix : relFix aNF aNR a = ⟨a.key,
        (if (aNR && !hasRelToken (if (aNF && !hasRelToken a.val b!"nofollow") = true then a.val ++ b!" nofollow" else a.val) b!"noreferrer") = true
         then (if (aNF && !hasRelToken a.val b!"nofollow") = true then a.val ++ b!" nofollow" else a.val) ++ b!" noreferrer"
         else (if (aNF && !hasRelToken a.val b!"nofollow") = true then a.val ++ b!" nofollow" else a.val))⟩ := by
      unfold relFix addRelToken
      simp only [hrel, ↓reduceIte]
    simp only [s', hlStep, hrel, ↓reduceIte, hnt, Bool.and_false, Bool.false_eq_true, Bool.not_true,
      loopOut, foundAfter, List.any_cons, List.any_nil, Bool.or_false, Bool.false_and, hfix]
    simp
  · have hrel' : (a.key == b!"rel" && (aNF || aNR)) = false := by simpa using hrel
    have hfix : relFix aNF aNR a = a := by unfold relFix; simp [hrel']
    by_cases htg : (isA && a.key == b!"target") = true
    · have hisA : isA = true := by simp only [Bool.and_eq_true] at htg; exact htg.1
      have hkt : (a.key == b!"target") = true := by simp only [Bool.and_eq_true] at htg; exact htg.2
      subst hisA
      cases hb : asciiEqualFold a.val b!"_blank" <;> cases aTB <;> cases hf : s.targetBlankFound <;>
        simp [s', hlStep, hrel', hkt, hb, hf, loopOut, foundAfter, hfix]
    · have htg' : (isA && a.key == b!"target") = false := by simpa using htg
      have hfa : foundAfter isA aTB s.targetBlankFound [a] = s.targetBlankFound := by
        unfold foundAfter
        cases isA
        · simp
        · have : (a.key == b!"target") = false := by simpa using htg'
          simp [this]
      simp [s', hlStep, hrel', htg', loopOut, hfix, hfa]

theorem loopOut_append (isA aNF aNR aTB : Bool) (found : Bool) (l1 l2 : List Attr) :
    loopOut isA aNF aNR aTB found (l1 ++ l2) =
      loopOut isA aNF aNR aTB found l1 ++ loopOut isA aNF aNR aTB (foundAfter isA aTB found l1) l2 := by
  induction l1 generalizing found with
  | nil => simp [loopOut, foundAfter]
  | cons a as ih =>
    simp only [List.cons_append, loopOut]
    by_cases htg : (isA && a.key == b!"target") = true
    · have hisA : isA = true := by simp only [Bool.and_eq_true] at htg; exact htg.1
      have hkt : (a.key == b!"target") = true := by simp only [Bool.and_eq_true] at htg; exact htg.2
      subst hisA
      simp only [htg, ↓reduceIte]
      cases hb : asciiEqualFold a.val b!"_blank" <;> cases aTB <;> cases found <;>
        simp [ih, foundAfter, hkt, hb, List.any_cons]
    · have htg' : (isA && a.key == b!"target") = false := by simpa using htg
      simp only [htg', Bool.false_eq_true, ↓reduceIte, ih, List.cons_append]
      congr 2
      unfold foundAfter
      cases isA
      · simp
      · have : (a.key == b!"target") = false := by simpa using htg'
        simp [List.any_cons, this]

theorem foundAfter_append (isA aTB : Bool) (found : Bool) (l1 l2 : List Attr) :
    foundAfter isA aTB (foundAfter isA aTB found l1) l2 = foundAfter isA aTB found (l1 ++ l2) := by
  unfold foundAfter
  cases isA <;> cases aTB <;> cases found <;> simp [List.any_append, Bool.or_assoc, Bool.or_comm, Bool.or_left_comm]

/-- **the first loop**, from any state -/
theorem hl_fold (isA aNF aNR aTB : Bool) (l : List Attr) (s : HLState) :
    let s' := l.foldl (hlStep isA aNF aNR aTB) s
    s'.tmpAttrs = s.tmpAttrs ++ loopOut isA aNF aNR aTB s.targetBlankFound l ∧
    s'.targetBlankFound = foundAfter isA aTB s.targetBlankFound l ∧
    s'.noFollowFound = (if (aNF || aNR) && l.any (·.key == b!"rel") then aNF else s.noFollowFound) ∧
    s'.noReferrerFound = (if (aNF || aNR) && l.any (·.key == b!"rel") then aNR else s.noReferrerFound) := by
  induction l generalizing s with
  | nil => simp [loopOut, foundAfter]
  | cons a as ih =>
    simp only [List.foldl_cons]
    obtain ⟨h1, h2, h3, h4⟩ := hlStep_spec isA aNF aNR aTB s a
    obtain ⟨i1, i2, i3, i4⟩ := ih (hlStep isA aNF aNR aTB s a)
    refine ⟨?_, ?_, ?_, ?_⟩
    · rw [i1, h1, h2, List.append_assoc]
      have := loopOut_append isA aNF aNR aTB s.targetBlankFound [a] as
      simp only [List.singleton_append] at this
      rw [this]
    · rw [i2, h2]
      have := foundAfter_append isA aTB s.targetBlankFound [a] as
      simpa using this
    · rw [i3, h3]
      cases hr : (a.key == b!"rel") <;> cases aNF <;> cases aNR <;> simp [List.any_cons, hr]
    · rw [i4, h4]
      cases hr : (a.key == b!"rel") <;> cases aNF <;> cases aNR <;> simp [List.any_cons, hr]

/-- the loop's output from a fresh state, in the words of `hardenLinks` -/
theorem loopOut_eq (isA aNF aNR aTB : Bool) (l : List Attr) :
    loopOut isA aNF aNR aTB false l =
      (if isA && aTB then fixFirstTarget (l.map (relFix aNF aNR)) else l.map (relFix aNF aNR)) := by
  by_cases hc : (isA && aTB) = true
  · have hisA : isA = true := by simp only [Bool.and_eq_true] at hc; exact hc.1
    have haTB : aTB = true := by simp only [Bool.and_eq_true] at hc; exact hc.2
    subst hisA; subst haTB
    simp only [Bool.and_self, ↓reduceIte]
    -- once a target attribute has been seen nothing changes any more
    have hdone : ∀ l, loopOut true aNF aNR true true l = l.map (relFix aNF aNR) := by
      intro l
      induction l with
      | nil => rfl
      | cons a as ih => simp only [loopOut, Bool.true_and, Bool.true_or, Bool.not_true, Bool.false_eq_true, ↓reduceIte, ih, List.map_cons]; split <;> rfl
    induction l with
    | nil => rfl
    | cons a as ih =>
      simp only [loopOut, Bool.true_and, Bool.false_or, List.map_cons, fixFirstTarget, relFix_key]
      by_cases hkt : (a.key == b!"target") = true
      · have hfix : relFix aNF aNR a = a := relFix_of_not_rel _ _ _ (target_ne_rel a hkt)
        simp only [hkt, ↓reduceIte, hfix]
        cases hb : asciiEqualFold a.val b!"_blank"
        · simp [hdone]
        · simp [hdone]
      · have hkt' : (a.key == b!"target") = false := by simpa using hkt
        simp only [hkt', Bool.false_eq_true, ↓reduceIte, ih]
  · have hc' : (isA && aTB) = false := by simpa using hc
    simp only [hc', Bool.false_eq_true, ↓reduceIte]
    -- without AddTargetBlank (or on another element) the flag never matters
    have : ∀ found l, loopOut isA aNF aNR aTB found l = l.map (relFix aNF aNR) := by
      intro found l
      induction l generalizing found with
      | nil => rfl
      | cons a as ih =>
        simp only [loopOut, List.map_cons]
        cases isA
        · simp [ih]
        · have : aTB = false := by simpa using hc'
          subst this
          simp only [Bool.true_and, Bool.false_and, Bool.false_eq_true, ↓reduceIte, ih]
          split <;> rfl
    exact this false l

/-! ### the second loop -/

theorem noOpener_fold (l : List Attr) (s : Bool × List Attr) :
    l.foldl noOpenerStep s =
      (s.1 || l.any (·.key == b!"rel"),
       s.2 ++ l.map fun a => if a.key == b!"rel" then ⟨a.key, addRelToken true b!"noopener" a.val⟩ else a) := by
  induction l generalizing s with
  | nil => simp
  | cons a as ih =>
    simp only [List.foldl_cons]
    rw [ih]
    unfold noOpenerStep
    by_cases hk : (a.key == b!"rel") = true
    · simp only [hk, ↓reduceIte, List.any_cons, List.map_cons, addRelToken, Bool.true_and]
      cases hh : hasRelToken a.val b!"noopener"
      · simp only [Bool.false_eq_true, ↓reduceIte, Bool.true_or, Bool.not_false, List.append_assoc, List.singleton_append, Prod.mk.injEq, true_and]
        simp
      · simp
    · have hk' : (a.key == b!"rel") = false := by simpa using hk
      simp only [hk', Bool.false_eq_true, ↓reduceIte, List.any_cons, Bool.false_or, List.map_cons, List.append_assoc,
        List.singleton_append]

theorem addNoOpener_eq (l : List Attr) :
    (let n := l.foldl noOpenerStep (false, [])
     if n.1 then n.2 else l ++ [⟨b!"rel", b!"noopener"⟩]) = addNoOpener l := by
  simp only [noOpener_fold, Bool.false_or, List.nil_append]
  unfold addNoOpener
  rfl

/-! ### the refinement -/

theorem map_relFix_id (aNF aNR : Bool) (l : List Attr) (h : (aNF || aNR) = false ∨ l.any (·.key == b!"rel") = false) :
    l.map (relFix aNF aNR) = l := by
  induction l with
  | nil => rfl
  | cons a as ih =>
    simp only [List.map_cons]
    have ha : relFix aNF aNR a = a := by
      rcases h with h | h
      · unfold relFix; simp [h]
      · simp only [List.any_cons, Bool.or_eq_false_iff] at h
        exact relFix_of_not_rel _ _ _ h.1
    rw [ha, ih]
    rcases h with h | h
    · exact .inl h
    · simp only [List.any_cons, Bool.or_eq_false_iff] at h; exact .inr h.2

theorem fixFirstTarget_id (l : List Attr) (h : l.any (·.key == b!"target") = false) : fixFirstTarget l = l := by
  induction l with
  | nil => rfl
  | cons a as ih =>
    simp only [List.any_cons, Bool.or_eq_false_iff] at h
    simp only [fixFirstTarget, h.1, Bool.false_eq_true, ↓reduceIte, ih h.2]

theorem any_map_relFix (aNF aNR : Bool) (l : List Attr) (k : Bytes) :
    (l.map (relFix aNF aNR)).any (·.key == k) = l.any (·.key == k) := by
  induction l with
  | nil => rfl
  | cons a as ih => simp only [List.map_cons, List.any_cons, relFix_key, ih]

/-- `Policy.hardenLinks` with its two anonymous functions named -/
def hardenSpec (p : Policy) (el : Bytes) (clean : List Attr) : List Attr :=
  let hrefs := clean.filter isHrefAttr
  let externalLink := hrefs.any hasHost
  if hrefs.isEmpty then clean else
  let addNoFollow := p.requireNoFollow || (externalLink && p.requireNoFollowFullyQualifiedLinks)
  let addNoReferrer := p.requireNoReferrer || (externalLink && p.requireNoReferrerFullyQualifiedLinks)
  let addTargetBlank := externalLink && p.addTargetBlankToFullyQualifiedLinks
  let isA := el == b!"a"
  let hasRel := clean.any (·.key == b!"rel")
  let hasTarget := clean.any (·.key == b!"target")
  let out := clean.map (relFix addNoFollow addNoReferrer)
  let out := if isA && addTargetBlank then fixFirstTarget out else out
  let out :=
    if (addNoFollow || addNoReferrer) && !hasRel then out ++ [⟨b!"rel", newRelValue addNoFollow addNoReferrer⟩]
    else out
  let blankFound := isA &&
    ((clean.any fun a => a.key == b!"target" && asciiEqualFold a.val b!"_blank") || (addTargetBlank && hasTarget))
  let out := if isA && addTargetBlank && !blankFound then out ++ [⟨b!"target", b!"_blank"⟩] else out
  if blankFound || (isA && addTargetBlank) then addNoOpener out else out

theorem hardenLinks_eq_spec (p : Policy) (el : Bytes) (clean : List Attr) :
    p.hardenLinks el clean = hardenSpec p el clean := rfl

/-- **the Go loop computes what `hardenLinks` states** -/
theorem hardenLinksGo_eq (p : Policy) (el : Bytes) (clean : List Attr) :
    p.hardenLinksGo el clean = p.hardenLinks el clean := by
  rw [hardenLinks_eq_spec]
  unfold Policy.hardenLinksGo hardenSpec
  simp only [scan_fold, Bool.false_or]
  have hempty : (clean.filter isHrefAttr).isEmpty = !clean.any isHrefAttr := by
    induction clean with
    | nil => rfl
    | cons a as ih =>
      simp only [List.filter_cons, List.any_cons]
      cases isHrefAttr a <;> simp [ih]
  rw [hempty]
  cases hh : clean.any isHrefAttr with
  | false => simp
  | true =>
    simp only [Bool.not_true, Bool.false_eq_true, ↓reduceIte]
    generalize (clean.filter isHrefAttr).any hasHost = ext
    generalize hNF : (p.requireNoFollow || ext && p.requireNoFollowFullyQualifiedLinks) = aNF
    generalize hNR : (p.requireNoReferrer || ext && p.requireNoReferrerFullyQualifiedLinks) = aNR
    generalize hTB : (ext && p.addTargetBlankToFullyQualifiedLinks) = aTB
    generalize hA : (el == b!"a") = isA
    obtain ⟨f1, f2, f3, f4⟩ := hl_fold isA aNF aNR aTB clean {}
    simp only [List.nil_append] at f1
    rw [loopOut_eq] at f1
    simp only [f1, f2, f3, f4]
    have hfa : foundAfter isA aTB false clean =
        (isA && ((clean.any fun a => a.key == b!"target" && asciiEqualFold a.val b!"_blank") ||
                 (aTB && clean.any (·.key == b!"target")))) := by
      simp [foundAfter]
    rw [hfa]
    generalize hRel : clean.any (·.key == b!"rel") = hasRel
    generalize hTg : clean.any (·.key == b!"target") = hasTarget
    generalize hBl : (clean.any fun a => a.key == b!"target" && asciiEqualFold a.val b!"_blank") = anyBlank
    -- when no flag is set the temporary slice is the attribute list itself
    have hsame : ((aNF || aNR) && hasRel) = false → (isA && (anyBlank || aTB && hasTarget)) = false →
        (if (isA && aTB) = true then fixFirstTarget (clean.map (relFix aNF aNR)) else clean.map (relFix aNF aNR)) = clean := by
      intro h1 h2
      have hm : clean.map (relFix aNF aNR) = clean := by
        apply map_relFix_id
        cases hx : (aNF || aNR)
        · exact .inl rfl
        · rw [hx] at h1; simp at h1; exact .inr (by rw [hRel]; exact h1)
      rw [hm]
      split
      · rename_i hc
        have : hasTarget = false := by
          cases hasTarget
          · rfl
          · simp only [Bool.and_eq_true] at hc; rw [hc.1, hc.2] at h2; simp at h2
        exact fixFirstTarget_id clean (by rw [hTg]; exact this)
      · rfl
    simp only [newRelValue]
    rw [← addNoOpener_eq]
    generalize hT : (if (isA && aTB) = true then fixFirstTarget (clean.map (relFix aNF aNR)) else clean.map (relFix aNF aNR)) = T at hsame ⊢
    have hs1 := hsame
    clear hsame f1 f2 f3 f4 hfa hT hRel hTg hBl hNF hNR hTB hA hh hempty
    cases aNF <;> cases aNR <;> cases hasRel <;> cases isA <;> cases aTB <;> cases hasTarget <;> cases anyBlank <;>
      first
        | rfl
        | (simp only [Bool.or_self, Bool.and_self, Bool.false_and, Bool.and_false, Bool.or_false, Bool.false_or, Bool.true_or,
            Bool.or_true, Bool.true_and, Bool.and_true, Bool.not_true, Bool.not_false, Bool.false_eq_true, ↓reduceIte,
            List.isEmpty_nil, List.isEmpty_cons, List.nil_append]
           first
             | rfl
             | (rw [hs1 (by decide) (by decide)])
             | (simp only [hs1 (by decide) (by decide)]))

end BM
