import BM.Proofs.SkipText
/-
  The text simulation of `Proofs/SkipText` without the hypothesis on AddSpaceWhenStrippingTag: the
  added spaces are text tokens of their own, so the statement is about the text with the space
  characters taken out on both sides.
-/
namespace BM
open BM.Html BM.Spec

/-- a byte string without its space characters -/
def noSp (s : Bytes) : Bytes := s.filter (· != 32)

theorem noSp_append (a b : Bytes) : noSp (a ++ b) = noSp a ++ noSp b := by simp [noSp]

/-- a tag writes no text but spaces -/
theorem noSp_of_tag {p : Policy} {t : Token} {ws : List Write} {toks : List Token}
    (h : TokWrites p t ws toks) (ht : t.tt ≠ .text) : noSp (textOf toks) = [] := by
  unfold textOf noSp
  rw [List.filter_eq_nil_iff]
  intro c hc
  obtain ⟨k, hk, hck⟩ := List.mem_flatMap.mp hc
  obtain ⟨hkm, hkt⟩ := List.mem_filter.mp hk
  have hkt' : k.tt = .text := by
    revert hkt; cases k.tt <;> intro h <;> first | rfl | exact absurd h (by decide)
  rcases prov_text (h.2 k hkm) hkt' with ⟨rfl, _⟩ | ⟨_, htt⟩
  · simp only [List.mem_singleton] at hck
    subst hck
    decide
  · exact absurd htt ht

/-- **the text simulation, spaces aside**: whatever `AddSpaceWhenStrippingTag` says, the text written
    from a state abstracting `fs` is, once the space characters are taken out of both, the spec's
    visible text at depth `countOf fs` -/
theorem nest_text_sp (p : Policy) (hu : p.allowUnsafe = false) :
    ∀ (ts : List Token) (fs : List Frame) (st : LoopState),
    Abs p fs st → isScriptOrStyle st.mostRecentlyStartedToken = false →
    (∀ f ∈ fs, isScriptStyle f.name = false) →
    (∀ t ∈ ts, Props.NameOK t) → (∀ t ∈ ts, isTag t = true → isScriptOrStyle t.data = false) →
    wellNestedAux (fs.map (·.name)) ts = true →
    ∃ ws toks, p.run st ts = (ws, false) ∧ RunWrites p ts ws toks ∧
      noSp (textOf toks) = noSp (visibleTextAux p (countOf fs) (fs.map (·.name)) ts)
  | [], fs, st, _, _, _, _, _, _ => ⟨[], [], rfl, ⟨rfl, by intro k hk; simp at hk⟩, by simp [textOf, visibleTextAux]⟩
  | t :: ts, fs, st, habs, hrec, hfs, hname, hnos, hwn => by
    have hname' : ∀ x ∈ ts, Props.NameOK x := fun x hx => hname x (by simp [hx])
    have hnos' : ∀ x ∈ ts, isTag x = true → isScriptOrStyle x.data = false := fun x hx => hnos x (by simp [hx])
    have hnost := hnos t (by simp)
    cases htt : t.tt with
    | start =>
      have hss : isScriptOrStyle t.data = false := hnost (by unfold isTag; rw [htt]; rfl)
      simp only [wellNestedAux, htt] at hwn
      cases hv : isVoidElement t.data with
      | true =>
        rw [voidElements_eq, hv] at hwn
        simp only [↓reduceIte] at hwn
        obtain ⟨st', ws1, toks1, hstep, habs', htw1, _⟩ := step_start_void p habs t htt hv
        have hrec' := step_recent p st t st' ws1 hstep hrec hnost
        obtain ⟨ws2, toks2, hr, htw2, hout⟩ := nest_text_sp p hu ts fs st' habs' hrec' hfs hname' hnos' hwn
        refine ⟨ws1 ++ ws2, toks1 ++ toks2, run_cons_some p st st' t ts ws1 ws2 hstep hr, runWrites_cons htw1 htw2, ?_⟩
        rw [textOf_append, noSp_append, noSp_of_tag htw1 (by rw [htt]; simp), hout]
        simp only [List.nil_append, visibleTextAux, htt]
        rw [voidElements_eq, hv]
        simp
      | false =>
        rw [voidElements_eq, hv] at hwn
        simp only [Bool.false_eq_true, ↓reduceIte] at hwn
        have hn : t.data.head? ≠ some 47 := hname t (by simp) htt
        obtain ⟨st', f, ws1, toks1, hstep, hfn, habs', htw1, _⟩ := step_start_nonvoid p habs t htt hv hn
        have hrec' := step_recent p st t st' ws1 hstep hrec hnost
        have hwn' : wellNestedAux ((f :: fs).map (·.name)) ts = true := by simpa [hfn] using hwn
        have hfs' : ∀ g ∈ f :: fs, isScriptStyle g.name = false := by
          intro g hg
          simp only [List.mem_cons] at hg
          rcases hg with rfl | hg
          · rw [hfn]; exact hss
          · exact hfs g hg
        obtain ⟨ws2, toks2, hr, htw2, hout⟩ := nest_text_sp p hu ts (f :: fs) st' habs' hrec' hfs' hname' hnos' hwn'
        refine ⟨ws1 ++ ws2, toks1 ++ toks2, run_cons_some p st st' t ts ws1 ws2 hstep hr, runWrites_cons htw1 htw2, ?_⟩
        have hcount := count_push habs'.ok (by unfold hiddenEl; rw [hfn, hss]; rfl)
        rw [textOf_append, noSp_append, noSp_of_tag htw1 (by rw [htt]; simp), hout, hcount, hfn]
        simp only [List.nil_append, visibleTextAux, htt, voidElements_eq, hv, Bool.false_eq_true, ↓reduceIte,
          List.map_cons, hfn]
        rfl
    | end_ =>
      simp only [wellNestedAux, htt] at hwn
      cases fs with
      | nil => simp at hwn
      | cons f fs' =>
        simp only [List.map_cons, Bool.and_eq_true, beq_iff_eq] at hwn
        obtain ⟨hfn, hwn'⟩ := hwn
        obtain ⟨st', ws1, toks1, hstep, habs', htw1, _⟩ := step_end p habs t htt hfn
        have hrec' := step_recent p st t st' ws1 hstep hrec hnost
        have hfs' : ∀ g ∈ fs', isScriptStyle g.name = false := fun g hg => hfs g (by simp [hg])
        obtain ⟨ws2, toks2, hr, htw2, hout⟩ := nest_text_sp p hu ts fs' st' habs' hrec' hfs' hname' hnos' hwn'
        refine ⟨ws1 ++ ws2, toks1 ++ toks2, run_cons_some p st st' t ts ws1 ws2 hstep hr, runWrites_cons htw1 htw2, ?_⟩
        have hss : isScriptOrStyle f.name = false := hfs f (by simp)
        have hcount := count_push habs.ok (by unfold hiddenEl; rw [hss]; rfl)
        rw [textOf_append, noSp_append, noSp_of_tag htw1 (by rw [htt]; simp), hout]
        simp only [List.nil_append, visibleTextAux, htt, List.map_cons, List.tail_cons]
        rw [hcount, ← hfn]
        unfold hides
        rcases Bool.eq_false_or_eq_true (!allowsElement p f.name && p.setOfElementsToSkipContent.contains f.name) with hh | hh
        · simp only [hh, ↓reduceIte, Nat.add_sub_cancel]
        · simp only [hh, Bool.false_eq_true, ↓reduceIte]
    | selfClosing =>
      simp only [wellNestedAux, htt] at hwn
      obtain ⟨st', ws1, toks1, hstep, habs', htw1, _⟩ := step_self p habs t htt
      have hrec' := step_recent p st t st' ws1 hstep hrec hnost
      obtain ⟨ws2, toks2, hr, htw2, hout⟩ := nest_text_sp p hu ts fs st' habs' hrec' hfs hname' hnos' hwn
      refine ⟨ws1 ++ ws2, toks1 ++ toks2, run_cons_some p st st' t ts ws1 ws2 hstep hr, runWrites_cons htw1 htw2, ?_⟩
      rw [textOf_append, noSp_append, noSp_of_tag htw1 (by rw [htt]; simp), hout]
      simp [visibleTextAux, htt]
    | comment =>
      simp only [wellNestedAux, htt] at hwn
      obtain ⟨st', ws1, toks1, hstep, habs', htw1, _⟩ := step_other p hu habs t (.inr (.inl htt))
      have hrec' := step_recent p st t st' ws1 hstep hrec hnost
      obtain ⟨ws2, toks2, hr, htw2, hout⟩ := nest_text_sp p hu ts fs st' habs' hrec' hfs hname' hnos' hwn
      refine ⟨ws1 ++ ws2, toks1 ++ toks2, run_cons_some p st st' t ts ws1 ws2 hstep hr, runWrites_cons htw1 htw2, ?_⟩
      rw [textOf_append, noSp_append, noSp_of_tag htw1 (by rw [htt]; simp), hout]
      simp [visibleTextAux, htt]
    | doctype =>
      simp only [wellNestedAux, htt] at hwn
      obtain ⟨st', ws1, toks1, hstep, habs', htw1, _⟩ := step_other p hu habs t (.inr (.inr htt))
      have hrec' := step_recent p st t st' ws1 hstep hrec hnost
      obtain ⟨ws2, toks2, hr, htw2, hout⟩ := nest_text_sp p hu ts fs st' habs' hrec' hfs hname' hnos' hwn
      refine ⟨ws1 ++ ws2, toks1 ++ toks2, run_cons_some p st st' t ts ws1 ws2 hstep hr, runWrites_cons htw1 htw2, ?_⟩
      rw [textOf_append, noSp_append, noSp_of_tag htw1 (by rw [htt]; simp), hout]
      simp [visibleTextAux, htt]
    | text =>
      simp only [wellNestedAux, htt] at hwn
      -- the text step, explicitly
      have hstep : p.step st t = some (st, if countOf fs != 0 then [] else [⟨t.render⟩]) := by
        simp only [Policy.step, htt, Policy.stepText, habs.skip, hrec, Bool.false_eq_true, ↓reduceIte]
      obtain ⟨ws2, toks2, hr, htw2, hout⟩ := nest_text_sp p hu ts fs st habs hrec hfs hname' hnos' hwn
      have htop : (match fs.map (·.name) with | top :: _ => isScriptStyle top | [] => false) = false := by
        cases fs with
        | nil => rfl
        | cons f fs' => simp only [List.map_cons]; exact hfs f (by simp)
      cases hz : countOf fs == 0 with
      | true =>
        have hnz : (countOf fs != 0) = false := by simp [bne, hz]
        rw [hnz] at hstep
        simp only [Bool.false_eq_true, ↓reduceIte] at hstep
        refine ⟨[⟨t.render⟩] ++ ws2, [t] ++ toks2, run_cons_some p st st t ts _ ws2 hstep hr,
          runWrites_cons (tokWrites_one p t t (.inr (.inl ⟨rfl, .inl htt⟩))) htw2, ?_⟩
        have ht1 : textOf [t] = t.data := by
          have hb : (TT.text == TT.text) = true := by decide
          rw [textOf_cons, htt, hb]; simp [textOf]
        rw [textOf_append, noSp_append, hout, ht1]
        simp only [visibleTextAux, htt, hz]
        cases fs with
        | nil => simp [noSp_append]
        | cons f fs' =>
          have := hfs f (by simp)
          simp [this, noSp_append]
      | false =>
        have hnz : (countOf fs != 0) = true := by simp [bne, hz]
        rw [hnz] at hstep
        simp only [↓reduceIte] at hstep
        refine ⟨[] ++ ws2, [] ++ toks2, run_cons_some p st st t ts _ ws2 hstep hr,
          runWrites_cons (tokWrites_nil p t) htw2, ?_⟩
        simp only [List.nil_append, hout, visibleTextAux, htt, hz, Bool.false_and, Bool.false_eq_true, ↓reduceIte]

end BM
