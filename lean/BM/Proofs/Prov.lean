import BM.Proofs.Nesting
import BM.Proofs.Bytes
/-
  The provenance bridge: for a plain policy every tag token an HTML tokenizer reads from the
  returned bytes is an input tag with the attribute list `sanitizeAttrs` returned for it (or an
  input end tag), and every text is what the loop wrote.  Statements proved about
  `sanitizeAttrs` (C02, C03, C11, C12) thereby become statements about the bytes.
-/
namespace BM
open Html Spec

/-- one iteration's writes are tokens that come from the input token -/
theorem emit_prov {p : Policy} (hu : p.allowUnsafe = false) {st : LoopState} {t : Token} {ws : List Write}
    (he : Emit p st t ws) : ∃ toks, TokWrites p t ws toks := by
  cases he with
  | nothing => exact ⟨[], tokWrites_nil p t⟩
  | space hsp =>
    exact ⟨[⟨.text, [32], []⟩], ⟨by unfold TokBytes; decide, by intro k hk; simp at hk; subst hk; exact .inl ⟨rfl, hsp⟩⟩⟩
  | comment htt hc => exact ⟨[t], tokWrites_one p t t (.inr (.inl ⟨rfl, .inr (.inr ⟨htt, hc⟩)⟩))⟩
  | openTag aps attrs htt haps _ hattrs _ _ =>
    exact ⟨[{ t with attrs := attrs }], tokWrites_one p t _ (.inr (.inr ⟨aps, attrs, haps, hattrs, rfl, htt⟩))⟩
  | closeTag htt _ _ => exact ⟨[t], tokWrites_one p t t (.inr (.inl ⟨rfl, .inr (.inl htt)⟩))⟩
  | text htt _ _ => exact ⟨[t], tokWrites_one p t t (.inr (.inl ⟨rfl, .inl htt⟩))⟩
  | rawText _ hun _ => rw [hu] at hun; cases hun

theorem run_prov {p : Policy} (hu : p.allowUnsafe = false) (ts : List Token) :
    ∀ st, ∃ toks, RunWrites p ts (p.run st ts).1 toks := by
  induction ts with
  | nil => intro st; exact ⟨[], rfl, by intro k hk; simp at hk⟩
  | cons t ts ih =>
    intro st
    unfold Policy.run
    split
    · exact ⟨[], rfl, by intro k hk; simp at hk⟩
    · rename_i st' ws hstep
      obtain ⟨k1, h1⟩ := emit_prov hu (step_emit p st t st' ws hstep)
      obtain ⟨k2, h2⟩ := ih st'
      exact ⟨k1 ++ k2, runWrites_cons h1 h2⟩

/-- a written token of a plain policy is covered by the round trip -/
theorem prov_segOK' {p : Policy} (hp : Plain p) {t k : Token} (hwf : TokWF t) (h : Prov p t k) : SegOK k := by
  rcases h with ⟨rfl, _⟩ | ⟨rfl, htt⟩ | ⟨aps, attrs, hr, hc, rfl, htt⟩
  · simp [SegOK]
  · rcases htt with h | h | ⟨_, hcm⟩
    · unfold SegOK; rw [h]; trivial
    · unfold SegOK TokWF at *; rw [h] at hwf ⊢; exact hwf
    · rw [hp.noComments] at hcm; cases hcm
  · have hall := attrRulesFor_allows' hr
    have hnr : isRawTagName t.data = false := by
      cases h : isRawTagName t.data with
      | false => rfl
      | true => rw [hp.noRaw _ h] at hall; cases hall
    rcases htt with h | h
    · have hw : NameOK' t.data ∧ ∀ a ∈ t.attrs, AttrOK a := by
        unfold TokWF at hwf; rw [h] at hwf; exact hwf
      unfold SegOK; simp only [h]
      exact ⟨hw.1, hnr, allOK_cleanAttrs p t aps attrs hw.2 hc⟩
    · have hw : NameOK' t.data ∧ ∀ a ∈ t.attrs, AttrOK a := by
        unfold TokWF at hwf; rw [h] at hwf; exact hwf
      unfold SegOK; simp only [h]
      exact ⟨hw.1, hnr, allOK_cleanAttrs p t aps attrs hw.2 hc⟩

/-- **the bridge**: the bytes a plain policy returns are the serialisation of tokens that come
    from the input's tokens, and the tokenizer reads exactly those back -/
theorem bytes_prov (p : Policy) (hp : Plain p.ensureInit) (input : Bytes) :
    ∃ toks : List Token, p.sanitizeCore input = renderAll toks ∧
      tokenize (p.sanitizeCore input) = coalesce [] toks ∧
      ∀ k ∈ toks, ∃ t ∈ tokenize input, Prov p.ensureInit t k := by
  obtain ⟨toks, hbytes, hprov⟩ := run_prov hp.noUnsafe (tokenize input) {}
  have hseg : ∀ k ∈ toks, SegOK k := by
    intro k hk
    obtain ⟨t, ht, hpr⟩ := hprov k hk
    exact prov_segOK' hp (tokenize_wf input t ht) hpr
  have hb : p.sanitizeCore input = renderAll toks := by
    unfold Policy.sanitizeCore Policy.sanitizeTokens
    unfold TokBytes at hbytes
    rw [hbytes, flatten_map_render]
  exact ⟨toks, hb, by rw [hb]; exact tokenize_renderAll toks hseg, hprov⟩

/-- every start / self-closing tag with attributes that is re-read from the bytes carries an
    attribute list `sanitizeAttrs` returned for an input tag of that element -/
theorem reread_open_tag (p : Policy) (hp : Plain p.ensureInit) (input : Bytes) :
    ∀ k ∈ tokenize (p.sanitizeCore input), (k.tt = .start ∨ k.tt = .selfClosing) → k.attrs ≠ [] →
      ∃ t ∈ tokenize input, ∃ aps, t.data = k.data ∧ p.ensureInit.attrRulesFor k.data = some aps ∧
        p.ensureInit.sanitizeAttrs k.data t.attrs aps = some k.attrs := by
  intro k hk htt hne
  obtain ⟨toks, _, hrt, hprov⟩ := bytes_prov p hp input
  rw [hrt] at hk
  rcases mem_coalesce toks [] k hk with ⟨h, _⟩ | ⟨hmem, _⟩
  · rcases htt with h' | h' <;> rw [h'] at h <;> cases h
  · obtain ⟨t, ht, hpr⟩ := hprov k hmem
    rcases hpr with ⟨rfl, _⟩ | ⟨rfl, h⟩ | ⟨aps, attrs, hr, hc, rfl, _⟩
    · rcases htt with h' | h' <;> cases h'
    · rcases h with h | h | ⟨h, _⟩ <;> rcases htt with h' | h' <;> rw [h'] at h <;> cases h
    · refine ⟨t, ht, aps, rfl, hr, ?_⟩
      simp only at hne ⊢
      unfold Policy.cleanAttrs at hc
      split at hc
      · rename_i he
        simp at hc; subst hc
        exact absurd (List.isEmpty_iff.mp he) hne
      · exact hc

end BM
