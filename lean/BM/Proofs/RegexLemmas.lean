import BM.Regex
/-
  Soundness of two syntactic checks on regular expressions with respect to the executable
  matcher `Re.m` / `Re.search` (Go's `MatchString`):
  * `within A r`  — every character class of `r` lies inside the alphabet `A` and `r` has no
    `.`: then whatever `r` consumes consists of runes of `A`;
  * `anchoredBoth r` — `r` is `^ … $`: then an unanchored search can only succeed by matching
    the whole string.
  Together: `search r s = true → ∀ c ∈ s, c ∈ A`.
-/
namespace BM.Re

/-- an alphabet: `none` = every rune, `some rs` = the union of the ranges -/
abbrev Alphabet := Option (List (Rune × Rune))

def Alphabet.mem (A : Alphabet) (c : Rune) : Bool :=
  match A with
  | .none => true
  | some rs => inRanges c rs

/-- `(lo, hi)` lies inside one of the ranges -/
def rangeWithin (al : List (Rune × Rune)) (r : Rune × Rune) : Bool :=
  al.any fun (lo, hi) => lo ≤ r.1 && r.2 ≤ hi

def within (A : Alphabet) : Re → Bool
  | empty | none | bot | eot | bol | eol => true
  | cls rs => match A with
    | .none => true
    | some al => rs.all (rangeWithin al)
  | any | anyNL => A.isNone
  | cat a b | alt a b => within A a && within A b
  | star a | plus a | quest a | starL a | plusL a | questL a => within A a

theorem inRanges_of_mem (al : List (Rune × Rune)) (l u c : Rune) (hmem : (l, u) ∈ al)
    (h1 : l ≤ c) (h2 : c ≤ u) : inRanges c al = true := by
  induction al with
  | nil => simp at hmem
  | cons a as ih =>
    obtain ⟨a0, a1⟩ := a
    simp only [inRanges, Bool.or_eq_true, Bool.and_eq_true, decide_eq_true_eq]
    simp only [List.mem_cons, Prod.mk.injEq] at hmem
    rcases hmem with ⟨e1, e2⟩ | hm
    · left; subst e1 e2; exact ⟨h1, h2⟩
    · right; exact ih hm

theorem inRanges_of_within (al rs : List (Rune × Rune)) (c : Rune)
    (h : rs.all (rangeWithin al) = true) (hc : inRanges c rs = true) : inRanges c al = true := by
  induction rs with
  | nil => simp [inRanges] at hc
  | cons r rest ih =>
    obtain ⟨lo, hi⟩ := r
    simp only [List.all_cons, Bool.and_eq_true] at h
    simp only [inRanges, Bool.or_eq_true, Bool.and_eq_true, decide_eq_true_eq] at hc
    rcases hc with ⟨h1, h2⟩ | hc
    · have hw := h.1
      simp only [rangeWithin, List.any_eq_true] at hw
      obtain ⟨⟨l, u⟩, hmem, hlu⟩ := hw
      simp only [Bool.and_eq_true, decide_eq_true_eq] at hlu
      exact inRanges_of_mem al l u c hmem (Nat.le_trans hlu.1 h1) (Nat.le_trans h2 hlu.2)
    · exact ih h.2 hc

/-- what a successful match of `r` followed by continuation `k` looks like -/
def Sound (A : Alphabet) {α} (f : Option Rune → List Rune → (Option Rune → List Rune → Option α) → Option α) : Prop :=
  ∀ p s k x, f p s k = some x →
    ∃ s1 s2 p', s = s1 ++ s2 ∧ (∀ c ∈ s1, A.mem c = true) ∧ k p' s2 = some x

theorem orElse_some {α} (a b : Option α) (x : α) (h : (a <|> b) = some x) : a = some x ∨ b = some x := by
  cases a with
  | none => right; simpa using h
  | some y => left; simpa using h

theorem starLoop_sound (A : Alphabet) {α}
    (mr : Option Rune → List Rune → (Option Rune → List Rune → Option α) → Option α)
    (hmr : Sound A mr) : ∀ fuel, Sound A (starLoop mr fuel) := by
  intro fuel
  induction fuel with
  | zero => intro p s k x h; exact ⟨[], s, p, rfl, by simp, by simpa [starLoop] using h⟩
  | succ n ih =>
    intro p s k x h
    unfold starLoop at h
    rcases orElse_some _ _ _ h with h | h
    · obtain ⟨s1, s2, p', hs, hA, hk⟩ := hmr p s _ x h
      split at hk
      · obtain ⟨t1, t2, p'', ht, hA2, hk2⟩ := ih p' s2 k x hk
        refine ⟨s1 ++ t1, t2, p'', by rw [hs, ht, List.append_assoc], ?_, hk2⟩
        intro c hc
        rcases List.mem_append.mp hc with hc | hc
        · exact hA c hc
        · exact hA2 c hc
      · simp at hk
    · exact ⟨[], s, p, rfl, by simp, h⟩

theorem starLoopL_sound (A : Alphabet) {α}
    (mr : Option Rune → List Rune → (Option Rune → List Rune → Option α) → Option α)
    (hmr : Sound A mr) : ∀ fuel, Sound A (starLoopL mr fuel) := by
  intro fuel
  induction fuel with
  | zero => intro p s k x h; exact ⟨[], s, p, rfl, by simp, by simpa [starLoopL] using h⟩
  | succ n ih =>
    intro p s k x h
    unfold starLoopL at h
    rcases orElse_some _ _ _ h with h | h
    · exact ⟨[], s, p, rfl, by simp, h⟩
    · obtain ⟨s1, s2, p', hs, hA, hk⟩ := hmr p s _ x h
      split at hk
      · obtain ⟨t1, t2, p'', ht, hA2, hk2⟩ := ih p' s2 k x hk
        refine ⟨s1 ++ t1, t2, p'', by rw [hs, ht, List.append_assoc], ?_, hk2⟩
        intro c hc
        rcases List.mem_append.mp hc with hc | hc
        · exact hA c hc
        · exact hA2 c hc
      · simp at hk

/-- **alphabet soundness** of the matcher -/
theorem m_sound (A : Alphabet) {α} (r : Re) (hw : within A r = true) : Sound A (m (α := α) r) := by
  induction r with
  | empty => intro p s k x h; exact ⟨[], s, p, rfl, by simp, by simpa [m] using h⟩
  | none => intro p s k x h; simp [m] at h
  | cls rs =>
    intro p s k x h
    cases s with
    | nil => simp [m] at h
    | cons c cs =>
      simp only [m] at h
      split at h
      · rename_i hin
        refine ⟨[c], cs, some c, rfl, ?_, h⟩
        intro c' hc'
        simp only [List.mem_singleton] at hc'; subst hc'
        cases A with
        | none => rfl
        | some al => exact inRanges_of_within al rs c' (by simpa [within] using hw) hin
      · simp at h
  | anyNL =>
    intro p s k x h
    have hA : A = .none := by simpa [within] using hw
    cases s with
    | nil => simp [m] at h
    | cons c cs => exact ⟨[c], cs, some c, rfl, by subst hA; simp [Alphabet.mem], by simpa [m] using h⟩
  | any =>
    intro p s k x h
    have hA : A = .none := by simpa [within] using hw
    cases s with
    | nil => simp [m] at h
    | cons c cs =>
      simp only [m] at h
      split at h
      · exact ⟨[c], cs, some c, rfl, by subst hA; simp [Alphabet.mem], h⟩
      · simp at h
  | bot =>
    intro p s k x h; simp only [m] at h; split at h
    · exact ⟨[], s, p, rfl, by simp, h⟩
    · simp at h
  | eot =>
    intro p s k x h; simp only [m] at h; split at h
    · exact ⟨[], s, p, rfl, by simp, h⟩
    · simp at h
  | bol =>
    intro p s k x h; simp only [m] at h; split at h
    · exact ⟨[], s, p, rfl, by simp, h⟩
    · simp at h
  | eol =>
    intro p s k x h
    simp only [m] at h
    split at h
    · exact ⟨[], [], p, rfl, by simp, h⟩
    · split at h
      · exact ⟨[], _, p, rfl, by simp, h⟩
      · simp at h
  | cat a b iha ihb =>
    simp only [within, Bool.and_eq_true] at hw
    intro p s k x h
    simp only [m] at h
    obtain ⟨s1, s2, p', hs, hA, hk⟩ := iha hw.1 p s _ x h
    obtain ⟨t1, t2, p'', ht, hA2, hk2⟩ := ihb hw.2 p' s2 k x hk
    refine ⟨s1 ++ t1, t2, p'', by rw [hs, ht, List.append_assoc], ?_, hk2⟩
    intro c hc
    rcases List.mem_append.mp hc with hc | hc
    · exact hA c hc
    · exact hA2 c hc
  | alt a b iha ihb =>
    simp only [within, Bool.and_eq_true] at hw
    intro p s k x h
    simp only [m] at h
    rcases orElse_some _ _ _ h with h | h
    · exact iha hw.1 p s k x h
    · exact ihb hw.2 p s k x h
  | star a iha =>
    intro p s k x h
    simp only [m] at h
    exact starLoop_sound A (m a) (iha (by simpa [within] using hw)) _ p s k x h
  | plus a iha =>
    have ha := iha (by simpa [within] using hw)
    intro p s k x h
    simp only [m] at h
    obtain ⟨s1, s2, p', hs, hA, hk⟩ := ha p s _ x h
    obtain ⟨t1, t2, p'', ht, hA2, hk2⟩ := starLoop_sound A (m a) ha _ p' s2 k x hk
    refine ⟨s1 ++ t1, t2, p'', by rw [hs, ht, List.append_assoc], ?_, hk2⟩
    intro c hc
    rcases List.mem_append.mp hc with hc | hc
    · exact hA c hc
    · exact hA2 c hc
  | quest a iha =>
    intro p s k x h
    simp only [m] at h
    rcases orElse_some _ _ _ h with h | h
    · exact iha (by simpa [within] using hw) p s k x h
    · exact ⟨[], s, p, rfl, by simp, h⟩
  | starL a iha =>
    intro p s k x h
    simp only [m] at h
    exact starLoopL_sound A (m a) (iha (by simpa [within] using hw)) _ p s k x h
  | plusL a iha =>
    have ha := iha (by simpa [within] using hw)
    intro p s k x h
    simp only [m] at h
    obtain ⟨s1, s2, p', hs, hA, hk⟩ := ha p s _ x h
    obtain ⟨t1, t2, p'', ht, hA2, hk2⟩ := starLoopL_sound A (m a) ha _ p' s2 k x hk
    refine ⟨s1 ++ t1, t2, p'', by rw [hs, ht, List.append_assoc], ?_, hk2⟩
    intro c hc
    rcases List.mem_append.mp hc with hc | hc
    · exact hA c hc
    · exact hA2 c hc
  | questL a iha =>
    intro p s k x h
    simp only [m] at h
    rcases orElse_some _ _ _ h with h | h
    · exact ⟨[], s, p, rfl, by simp, h⟩
    · exact iha (by simpa [within] using hw) p s k x h

/-! ### anchoring -/

/-- the expression ends with `$` (end of text) on its right spine -/
def endsEot : Re → Bool
  | eot => true
  | cat _ b => endsEot b
  | _ => false

/-- `^ … $` -/
def anchoredBoth : Re → Bool
  | cat bot rest => endsEot rest
  | _ => false

/-- an expression that ends with `$` consumes the whole remaining input, all of it inside the
    alphabet, and hands its continuation the empty rest -/
theorem endsEot_sound (A : Alphabet) {α} (r : Re) (he : endsEot r = true) (hw : within A r = true) :
    ∀ p s (k : Option Rune → List Rune → Option α) x, m r p s k = some x →
      (∀ c ∈ s, A.mem c = true) ∧ ∃ p', k p' [] = some x := by
  induction r with
  | eot =>
    intro p s k x h
    simp only [m] at h
    split at h
    · rename_i hs; simp only [List.isEmpty_iff] at hs; subst hs; exact ⟨by simp, p, h⟩
    · simp at h
  | cat a b _ ihb =>
    simp only [within, Bool.and_eq_true] at hw
    intro p s k x h
    simp only [m] at h
    obtain ⟨s1, s2, p', hs, hA, hk⟩ := m_sound A a hw.1 p s _ x h
    obtain ⟨hA2, hk2⟩ := ihb (by simpa [endsEot] using he) hw.2 p' s2 k x hk
    refine ⟨?_, hk2⟩
    intro c hc
    rw [hs] at hc
    rcases List.mem_append.mp hc with hc | hc
    · exact hA c hc
    · exact hA2 c hc
  | _ => simp [endsEot] at he

/-- a search with a `^…` expression can only match at the very start -/
theorem searchFrom_bot (rest : Re) (c : Rune) (s : List Rune) :
    searchFrom (cat bot rest) (some c) s = false := by
  induction s generalizing c with
  | nil => simp [searchFrom, matchesAt, m]
  | cons d ds ih => simp [searchFrom, matchesAt, m, ih]

/-- **anchored, closed-alphabet recognisers**: if `r` is `^…$`, has no `.` and all its classes
    lie inside `A`, then `MatchString` accepts only strings all of whose runes are in `A` -/
theorem search_alphabet (A : List (Rune × Rune)) (r : Re) (ha : anchoredBoth r = true)
    (hw : within (some A) r = true) (s : List Rune) (h : search r s = true) :
    ∀ c ∈ s, inRanges c A = true := by
  unfold anchoredBoth at ha
  split at ha
  · rename_i rest
    -- only position 0 can match
    have h0 : matchesAt (cat bot rest) .none s = true := by
      unfold search at h
      cases s with
      | nil => simpa [searchFrom] using h
      | cons c cs =>
        simp only [searchFrom, Bool.or_eq_true] at h
        rcases h with h | h
        · exact h
        · rw [searchFrom_bot] at h; simp at h
    unfold matchesAt at h0
    simp only [Option.isSome_iff_exists] at h0
    obtain ⟨x, hx⟩ := h0
    have := (endsEot_sound (some A) (cat bot rest) (by simpa [endsEot] using ha) hw .none s _ x hx).1
    simpa [Alphabet.mem] using this
  · simp at ha

end BM.Re
