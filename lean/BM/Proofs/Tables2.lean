import BM.Proofs.Switches
/-
  The remaining tables of a policy as sets of contributions (C17): rules bound to element
  patterns (keyed by the identity of the compiled regexp), the pattern table itself, the two
  "allowed without attributes" sets and the scheme patterns.  Same shape as Proofs/Rules: one
  lemma per table for one builder call, then the lift to histories.
-/
namespace BM

theorem patGet?_patSet {ν : Type} (m : List (Pat × ν)) (p q : Pat) (v : ν) :
    patGet? (patSet m p v) q = if p.id == q.id then some v else patGet? m q := by
  induction m with
  | nil => simp [patSet, patGet?]
  | cons e rest ih =>
    obtain ⟨a, b⟩ := e
    unfold patSet
    by_cases hap : (a.id == p.id) = true
    · have hap' : a.id = p.id := by simpa using hap
      simp only [hap, ↓reduceIte]
      simp only [patGet?, hap']
      split <;> rfl
    · simp only [hap, Bool.false_eq_true, ↓reduceIte]
      simp only [patGet?]
      rw [ih]
      by_cases hpq : (p.id == q.id) = true
      · have hpq' : p.id = q.id := by simpa using hpq
        have : (a.id == q.id) = false := by rw [← hpq']; simpa using hap
        simp [hpq, this]
      · simp [hpq]

/-- value patterns registered for attribute `attr` on the elements matching pattern `r` -/
def Policy.matchRules (p : Policy) (r : Pat) (attr : Bytes) : List AttrPolicy :=
  rulesOf ((patGet? p.elsMatchingAndAttrs r).getD []) attr

/-- is pattern `r` in the table of element patterns? -/
def Policy.hasPattern (p : Policy) (r : Pat) : Prop := (patGet? p.elsMatchingAndAttrs r).isSome = true

/-- style matchers registered for property `prop` on the elements matching pattern `r` -/
def Policy.matchStyleRules (p : Policy) (r : Pat) (prop : Bytes) : List StylePolicy :=
  rulesOf ((patGet? p.elsMatchingAndStyles r).getD []) prop

def Policy.bareOK (p : Policy) (el : Bytes) : Prop := el ∈ p.setOfElementsAllowedWithoutAttrs
def Policy.bareOKPattern (p : Policy) (id : Nat) : Prop := ∃ q ∈ p.setOfElementsMatchingAllowedWithoutAttrs, q.id = id
def Policy.schemePattern (p : Policy) (id : Nat) : Prop := ∃ q ∈ p.allowURLSchemeRegexps, q.id = id

def BuilderOp.addsMatchRule (op : BuilderOp) (r : Pat) (attr : Bytes) (ap : AttrPolicy) : Prop :=
  match op with
  | .allowAttrs names re _ (.onElementsMatching r') => r'.id = r.id ∧ attr ∈ names.map toLowerName ∧ ap = re
  | _ => False

def BuilderOp.addsPattern (op : BuilderOp) (r : Pat) : Prop :=
  match op with
  | .allowElementsMatching r' => r'.id = r.id
  | .allowAttrs names _ allowEmpty (.onElementsMatching r') => r'.id = r.id ∧ (names ≠ [] ∨ allowEmpty = true)
  | _ => False

def BuilderOp.addsMatchStyle (dflt : Bytes → Bytes → Bool) (op : BuilderOp) (r : Pat) (prop : Bytes) (sp : StylePolicy) : Prop :=
  match op with
  | .allowStyles names m (.onElementsMatching r') =>
    r'.id = r.id ∧ prop ∈ names.map toLowerName ∧ sp = mkStylePolicy dflt m prop
  | _ => False

def BuilderOp.addsBareOK (op : BuilderOp) (el : Bytes) : Prop :=
  match op with
  | .allowAttrs _ _ ae (.onElements els) => ae = true ∧ el ∈ els.map toLowerName
  | _ => False

def BuilderOp.addsBareOKPattern (op : BuilderOp) (id : Nat) : Prop :=
  match op with
  | .allowAttrs _ _ ae (.onElementsMatching r') => ae = true ∧ r'.id = id
  | _ => False

def BuilderOp.addsSchemePattern (op : BuilderOp) (id : Nat) : Prop :=
  match op with
  | .allowURLSchemesMatching r' => r'.id = id
  | _ => False

theorem foldl_elsMatchingAndAttrs {α : Type} (f : Policy → α → Policy) (h : ∀ b a, (f b a).elsMatchingAndAttrs = b.elsMatchingAndAttrs)
    (l : List α) (b : Policy) : (l.foldl f b).elsMatchingAndAttrs = b.elsMatchingAndAttrs :=
  foldl_keeps f (fun p : Policy => p.elsMatchingAndAttrs) h l b

theorem attrsOnElement_elsMatchingAndAttrs (p : Policy) (names : List Bytes) (re : AttrPolicy) (ae : Bool) (e : Bytes) :
    (attrsOnElement p names re ae e).elsMatchingAndAttrs = p.elsMatchingAndAttrs := by
  unfold attrsOnElement
  simp only
  split
  · simp only; rw [foldl_elsMatchingAndAttrs]; exact fun _ _ => rfl
  · rw [foldl_elsMatchingAndAttrs]; exact fun _ _ => rfl

theorem foldl_elsMatchingAndStyles {α : Type} (f : Policy → α → Policy) (h : ∀ b a, (f b a).elsMatchingAndStyles = b.elsMatchingAndStyles)
    (l : List α) (b : Policy) : (l.foldl f b).elsMatchingAndStyles = b.elsMatchingAndStyles :=
  foldl_keeps f (fun p : Policy => p.elsMatchingAndStyles) h l b

theorem attrsOnElement_elsMatchingAndStyles (p : Policy) (names : List Bytes) (re : AttrPolicy) (ae : Bool) (e : Bytes) :
    (attrsOnElement p names re ae e).elsMatchingAndStyles = p.elsMatchingAndStyles := by
  unfold attrsOnElement
  simp only
  split
  · simp only; rw [foldl_elsMatchingAndStyles]; exact fun _ _ => rfl
  · rw [foldl_elsMatchingAndStyles]; exact fun _ _ => rfl

theorem foldl_setOfElementsAllowedWithoutAttrs {α : Type} (f : Policy → α → Policy) (h : ∀ b a, (f b a).setOfElementsAllowedWithoutAttrs = b.setOfElementsAllowedWithoutAttrs)
    (l : List α) (b : Policy) : (l.foldl f b).setOfElementsAllowedWithoutAttrs = b.setOfElementsAllowedWithoutAttrs :=
  foldl_keeps f (fun p : Policy => p.setOfElementsAllowedWithoutAttrs) h l b

theorem foldl_setOfElementsMatchingAllowedWithoutAttrs {α : Type} (f : Policy → α → Policy) (h : ∀ b a, (f b a).setOfElementsMatchingAllowedWithoutAttrs = b.setOfElementsMatchingAllowedWithoutAttrs)
    (l : List α) (b : Policy) : (l.foldl f b).setOfElementsMatchingAllowedWithoutAttrs = b.setOfElementsMatchingAllowedWithoutAttrs :=
  foldl_keeps f (fun p : Policy => p.setOfElementsMatchingAllowedWithoutAttrs) h l b

theorem attrsOnElement_setOfElementsMatchingAllowedWithoutAttrs (p : Policy) (names : List Bytes) (re : AttrPolicy) (ae : Bool) (e : Bytes) :
    (attrsOnElement p names re ae e).setOfElementsMatchingAllowedWithoutAttrs = p.setOfElementsMatchingAllowedWithoutAttrs := by
  unfold attrsOnElement
  simp only
  split
  · simp only; rw [foldl_setOfElementsMatchingAllowedWithoutAttrs]; exact fun _ _ => rfl
  · rw [foldl_setOfElementsMatchingAllowedWithoutAttrs]; exact fun _ _ => rfl

theorem foldl_allowURLSchemeRegexps {α : Type} (f : Policy → α → Policy) (h : ∀ b a, (f b a).allowURLSchemeRegexps = b.allowURLSchemeRegexps)
    (l : List α) (b : Policy) : (l.foldl f b).allowURLSchemeRegexps = b.allowURLSchemeRegexps :=
  foldl_keeps f (fun p : Policy => p.allowURLSchemeRegexps) h l b

theorem attrsOnElement_allowURLSchemeRegexps (p : Policy) (names : List Bytes) (re : AttrPolicy) (ae : Bool) (e : Bytes) :
    (attrsOnElement p names re ae e).allowURLSchemeRegexps = p.allowURLSchemeRegexps := by
  unfold attrsOnElement
  simp only
  split
  · simp only; rw [foldl_allowURLSchemeRegexps]; exact fun _ _ => rfl
  · rw [foldl_allowURLSchemeRegexps]; exact fun _ _ => rfl

theorem patGet?_congr {ν : Type} (m : List (Pat × ν)) (p q : Pat) (h : p.id = q.id) : patGet? m p = patGet? m q := by
  induction m with
  | nil => rfl
  | cons e rest ih => obtain ⟨a, b⟩ := e; simp only [patGet?, h, ih]

/-- adding an empty entry for an absent pattern changes no rule list -/
theorem rules_patSet_empty {α : Type} (m : List (Pat × Map Bytes (List α))) (r' r : Pat) (k : Bytes)
    (h : (patGet? m r').isSome = false) :
    rulesOf ((patGet? (patSet m r' []) r).getD []) k = rulesOf ((patGet? m r).getD []) k := by
  rw [patGet?_patSet]
  by_cases hid : (r'.id == r.id) = true
  · have hid' : r'.id = r.id := by simpa using hid
    have : patGet? m r = none := by
      rw [← patGet?_congr m r' r hid']
      cases hg : patGet? m r' with
      | none => rfl
      | some v => rw [hg] at h; simp at h
    simp [hid, this, rulesOf, Map.get?]
  · simp [hid]

/-- one step of a loop that appends a rule for key `k` under pattern `r'` -/
theorem pat_add {α : Type} (m : List (Pat × Map Bytes (List α))) (r' r : Pat) (k k' : Bytes) (v x : α) :
    x ∈ rulesOf ((patGet? (patSet m r' (Map.update ((patGet? m r').getD []) k [] (· ++ [v]))) r).getD []) k' ↔
      x ∈ rulesOf ((patGet? m r).getD []) k' ∨ (r'.id = r.id ∧ k' = k ∧ x = v) := by
  rw [patGet?_patSet]
  by_cases hid : (r'.id == r.id) = true
  · have hid' : r'.id = r.id := by simpa using hid
    rw [if_pos hid, patGet?_congr m r' r hid']
    simp only [Option.getD_some, flat_add]
    constructor
    · rintro (h | h)
      · exact .inl h
      · exact .inr ⟨hid', h⟩
    · rintro (h | ⟨_, h⟩)
      · exact .inl h
      · exact .inr h
  · have hid' : ¬ r'.id = r.id := by simpa using hid
    rw [if_neg hid]
    constructor
    · exact fun h => .inl h
    · rintro (h | ⟨h, _⟩)
      · exact h
      · exact absurd h hid'

theorem isSome_patSet {ν : Type} (m : List (Pat × ν)) (r' r : Pat) (v : ν) :
    (patGet? (patSet m r' v) r).isSome = true ↔ (patGet? m r).isSome = true ∨ r'.id = r.id := by
  rw [patGet?_patSet]
  by_cases hid : (r'.id == r.id) = true
  · have hid' : r'.id = r.id := by simpa using hid
    simp [hid, hid']
  · have hid' : ¬ r'.id = r.id := by simpa using hid
    simp [hid, hid']

theorem exists_append_id (l : List Pat) (r' : Pat) (id : Nat) :
    (∃ q ∈ l ++ [r'], q.id = id) ↔ (∃ q ∈ l, q.id = id) ∨ r'.id = id := by
  simp only [List.mem_append, List.mem_singleton]
  constructor
  · rintro ⟨q, hq | rfl, h⟩
    · exact .inl ⟨q, hq, h⟩
    · exact .inr h
  · rintro (⟨q, hq, h⟩ | h)
    · exact ⟨q, .inl hq, h⟩
    · exact ⟨r', .inr rfl, h⟩

theorem matchRules_applyOpInit (d : Bytes → Bytes → Bool) (p : Policy) (op : BuilderOp) (r : Pat) (attr : Bytes) (x : AttrPolicy) :
    x ∈ (applyOpInit d p op).matchRules r attr ↔ x ∈ p.matchRules r attr ∨ op.addsMatchRule r attr x := by
  cases op with
  | allowElements names =>
    simp only [applyOpInit, BuilderOp.addsMatchRule, or_false, Policy.matchRules]
    rw [foldl_elsMatchingAndAttrs]; exact fun _ _ => rfl
  | allowAttrs names re ae scope =>
    cases scope with
    | onElements els =>
      simp only [applyOpInit, BuilderOp.addsMatchRule, or_false, Policy.matchRules]
      rw [foldl_elsMatchingAndAttrs]; exact fun b a => attrsOnElement_elsMatchingAndAttrs b _ _ _ _
    | onElementsMatching r' =>
      simp only [applyOpInit, BuilderOp.addsMatchRule]
      have hfold : x ∈ ((names.map toLowerName).foldl (fun (p : Policy) a =>
            { p with elsMatchingAndAttrs := (patSet p.elsMatchingAndAttrs r' (addAttrRule ((patGet? p.elsMatchingAndAttrs r').getD []) a re)) }) p).matchRules r attr ↔
          x ∈ p.matchRules r attr ∨ (r'.id = r.id ∧ attr ∈ names.map toLowerName ∧ x = re) := by
        rw [foldl_iff _ (fun p : Policy => x ∈ p.matchRules r attr) (fun a => r'.id = r.id ∧ attr = a ∧ x = re)
          (fun b a => by simp only [Policy.matchRules, addAttrRule]; exact pat_add _ _ _ _ _ _ _)]
        constructor
        · rintro (h | ⟨a, ha, h1, h2, h3⟩)
          · exact .inl h
          · subst h2; exact .inr ⟨h1, ha, h3⟩
        · rintro (h | ⟨h1, h2, h3⟩)
          · exact .inl h
          · exact .inr ⟨attr, h2, h1, rfl, h3⟩
      split
      · rw [← hfold]
        simp only [Policy.matchRules]
        split
        · exact Iff.rfl
        · rename_i hn
          rw [rules_patSet_empty _ _ _ _ (by simpa using hn)]
      · exact hfold
    | globally =>
      simp only [applyOpInit, BuilderOp.addsMatchRule, or_false, Policy.matchRules]
      rw [foldl_elsMatchingAndAttrs]; exact fun _ _ => rfl
  | allowStyles names m scope =>
    cases scope with
    | onElements els =>
      simp only [applyOpInit, BuilderOp.addsMatchRule, or_false, Policy.matchRules]
      rw [foldl_elsMatchingAndAttrs]
      intro b a
      rw [foldl_elsMatchingAndAttrs]; exact fun _ _ => rfl
    | onElementsMatching r' =>
      simp only [applyOpInit, BuilderOp.addsMatchRule, or_false, Policy.matchRules]
      rw [foldl_elsMatchingAndAttrs]; exact fun _ _ => rfl
    | globally =>
      simp only [applyOpInit, BuilderOp.addsMatchRule, or_false, Policy.matchRules]
      rw [foldl_elsMatchingAndAttrs]; exact fun _ _ => rfl
  | allowURLSchemes schemes =>
    simp only [applyOpInit, BuilderOp.addsMatchRule, or_false, Policy.matchRules]
    rw [foldl_elsMatchingAndAttrs]; exact fun _ _ => rfl
  | skipElementsContent names =>
    simp only [applyOpInit, BuilderOp.addsMatchRule, or_false, Policy.matchRules]
    rw [foldl_elsMatchingAndAttrs]; exact fun _ _ => rfl
  | allowElementsContent names =>
    simp only [applyOpInit, BuilderOp.addsMatchRule, or_false, Policy.matchRules]
    rw [foldl_elsMatchingAndAttrs]; exact fun _ _ => rfl
  | allowElementsMatching r' =>
    simp only [applyOpInit, BuilderOp.addsMatchRule, or_false]
    split
    · exact Iff.rfl
    · rename_i hn
      simp only [Policy.matchRules]
      rw [rules_patSet_empty _ _ _ _ (by simpa using hn)]
  | allowURLSchemesMatching r' =>
    simp only [applyOpInit, BuilderOp.addsMatchRule, or_false]; exact Iff.rfl
  | _ => simp only [applyOpInit, BuilderOp.addsMatchRule, or_false]; exact Iff.rfl

theorem hasPattern_applyOpInit (d : Bytes → Bytes → Bool) (p : Policy) (op : BuilderOp) (r : Pat) :
    (applyOpInit d p op).hasPattern r ↔ p.hasPattern r ∨ op.addsPattern r := by
  cases op with
  | allowElements names =>
    simp only [applyOpInit, BuilderOp.addsPattern, or_false, Policy.hasPattern]
    rw [foldl_elsMatchingAndAttrs]; exact fun _ _ => rfl
  | allowAttrs names re ae scope =>
    cases scope with
    | onElements els =>
      simp only [applyOpInit, BuilderOp.addsPattern, or_false, Policy.hasPattern]
      rw [foldl_elsMatchingAndAttrs]; exact fun b a => attrsOnElement_elsMatchingAndAttrs b _ _ _ _
    | onElementsMatching r' =>
      simp only [applyOpInit, BuilderOp.addsPattern]
      have hfold : ((names.map toLowerName).foldl (fun (p : Policy) a =>
            { p with elsMatchingAndAttrs := (patSet p.elsMatchingAndAttrs r' (addAttrRule ((patGet? p.elsMatchingAndAttrs r').getD []) a re)) }) p).hasPattern r ↔
          p.hasPattern r ∨ (r'.id = r.id ∧ names ≠ []) := by
        rw [foldl_iff _ (fun p : Policy => p.hasPattern r) (fun _ => r'.id = r.id)
          (fun b a => by simp only [Policy.hasPattern]; exact isSome_patSet _ _ _ _)]
        cases names with
        | nil => simp
        | cons n ns => simp
      split
      · rename_i hae
        simp only [Policy.hasPattern] at hfold ⊢
        split
        · rename_i hs
          rw [hfold]
          simp only [hae, or_true, and_true]
          constructor
          · rintro (h | ⟨h, _⟩)
            · exact .inl h
            · exact .inr h
          · rintro (h | h)
            · exact .inl h
            · -- r' is present already, and r has the same identity
              rw [← hfold, ← patGet?_congr _ r' r h]; exact hs
        · rw [isSome_patSet, hfold]
          simp only [hae, or_true, and_true]
          constructor
          · rintro ((h | ⟨h, _⟩) | h)
            · exact .inl h
            · exact .inr h
            · exact .inr h
          · rintro (h | h)
            · exact .inl (.inl h)
            · exact .inr h
      · rename_i hae
        rw [hfold]; simp [hae]
    | globally =>
      simp only [applyOpInit, BuilderOp.addsPattern, or_false, Policy.hasPattern]
      rw [foldl_elsMatchingAndAttrs]; exact fun _ _ => rfl
  | allowStyles names m scope =>
    cases scope with
    | onElements els =>
      simp only [applyOpInit, BuilderOp.addsPattern, or_false, Policy.hasPattern]
      rw [foldl_elsMatchingAndAttrs]
      intro b a
      rw [foldl_elsMatchingAndAttrs]; exact fun _ _ => rfl
    | onElementsMatching r' =>
      simp only [applyOpInit, BuilderOp.addsPattern, or_false, Policy.hasPattern]
      rw [foldl_elsMatchingAndAttrs]; exact fun _ _ => rfl
    | globally =>
      simp only [applyOpInit, BuilderOp.addsPattern, or_false, Policy.hasPattern]
      rw [foldl_elsMatchingAndAttrs]; exact fun _ _ => rfl
  | allowURLSchemes schemes =>
    simp only [applyOpInit, BuilderOp.addsPattern, or_false, Policy.hasPattern]
    rw [foldl_elsMatchingAndAttrs]; exact fun _ _ => rfl
  | skipElementsContent names =>
    simp only [applyOpInit, BuilderOp.addsPattern, or_false, Policy.hasPattern]
    rw [foldl_elsMatchingAndAttrs]; exact fun _ _ => rfl
  | allowElementsContent names =>
    simp only [applyOpInit, BuilderOp.addsPattern, or_false, Policy.hasPattern]
    rw [foldl_elsMatchingAndAttrs]; exact fun _ _ => rfl
  | allowElementsMatching r' =>
    simp only [applyOpInit, BuilderOp.addsPattern]
    split
    · rename_i hs
      simp only [Policy.hasPattern]
      constructor
      · exact fun h => .inl h
      · rintro (h | h)
        · exact h
        · rw [← patGet?_congr _ r' r h]; exact hs
    · simp only [Policy.hasPattern]; exact isSome_patSet _ _ _ _
  | allowURLSchemesMatching r' =>
    simp only [applyOpInit, BuilderOp.addsPattern, or_false]; exact Iff.rfl
  | _ => simp only [applyOpInit, BuilderOp.addsPattern, or_false]; exact Iff.rfl

theorem matchStyleRules_applyOpInit (d : Bytes → Bytes → Bool) (p : Policy) (op : BuilderOp) (r : Pat) (prop : Bytes) (x : StylePolicy) :
    x ∈ (applyOpInit d p op).matchStyleRules r prop ↔ x ∈ p.matchStyleRules r prop ∨ op.addsMatchStyle d r prop x := by
  cases op with
  | allowElements names =>
    simp only [applyOpInit, BuilderOp.addsMatchStyle, or_false, Policy.matchStyleRules]
    rw [foldl_elsMatchingAndStyles]; exact fun _ _ => rfl
  | allowAttrs names re ae scope =>
    cases scope with
    | onElements els =>
      simp only [applyOpInit, BuilderOp.addsMatchStyle, or_false, Policy.matchStyleRules]
      rw [foldl_elsMatchingAndStyles]; exact fun b a => attrsOnElement_elsMatchingAndStyles b _ _ _ _
    | onElementsMatching r' =>
      simp only [applyOpInit, BuilderOp.addsMatchStyle, or_false]
      split <;> simp only [Policy.matchStyleRules] <;> (rw [foldl_elsMatchingAndStyles]; exact fun _ _ => rfl)
    | globally =>
      simp only [applyOpInit, BuilderOp.addsMatchStyle, or_false, Policy.matchStyleRules]
      rw [foldl_elsMatchingAndStyles]; exact fun _ _ => rfl
  | allowStyles names m scope =>
    cases scope with
    | onElements els =>
      simp only [applyOpInit, BuilderOp.addsMatchStyle, or_false, Policy.matchStyleRules]
      rw [foldl_elsMatchingAndStyles]
      intro b a
      rw [foldl_elsMatchingAndStyles]; exact fun _ _ => rfl
    | onElementsMatching r' =>
      simp only [applyOpInit, BuilderOp.addsMatchStyle]
      rw [foldl_iff _ (fun p : Policy => x ∈ p.matchStyleRules r prop)
        (fun a => r'.id = r.id ∧ prop = a ∧ x = mkStylePolicy d m a)
        (fun b a => by simp only [Policy.matchStyleRules, addStyleRule]; exact pat_add _ _ _ _ _ _ _)]
      constructor
      · rintro (h | ⟨a, ha, h1, h2, h3⟩)
        · exact .inl h
        · subst h2; exact .inr ⟨h1, ha, h3⟩
      · rintro (h | ⟨h1, h2, h3⟩)
        · exact .inl h
        · exact .inr ⟨prop, h2, h1, rfl, h3⟩
    | globally =>
      simp only [applyOpInit, BuilderOp.addsMatchStyle, or_false, Policy.matchStyleRules]
      rw [foldl_elsMatchingAndStyles]; exact fun _ _ => rfl
  | allowURLSchemes schemes =>
    simp only [applyOpInit, BuilderOp.addsMatchStyle, or_false, Policy.matchStyleRules]
    rw [foldl_elsMatchingAndStyles]; exact fun _ _ => rfl
  | skipElementsContent names =>
    simp only [applyOpInit, BuilderOp.addsMatchStyle, or_false, Policy.matchStyleRules]
    rw [foldl_elsMatchingAndStyles]; exact fun _ _ => rfl
  | allowElementsContent names =>
    simp only [applyOpInit, BuilderOp.addsMatchStyle, or_false, Policy.matchStyleRules]
    rw [foldl_elsMatchingAndStyles]; exact fun _ _ => rfl
  | allowElementsMatching r' =>
    simp only [applyOpInit, BuilderOp.addsMatchStyle, or_false]
    split <;> exact Iff.rfl
  | allowURLSchemesMatching r' =>
    simp only [applyOpInit, BuilderOp.addsMatchStyle, or_false]; exact Iff.rfl
  | _ => simp only [applyOpInit, BuilderOp.addsMatchStyle, or_false]; exact Iff.rfl

theorem bareOK_attrsOnElement (p : Policy) (names : List Bytes) (re : AttrPolicy) (ae : Bool) (e el : Bytes) :
    (attrsOnElement p names re ae e).bareOK el ↔ p.bareOK el ∨ (ae = true ∧ el = e) := by
  unfold attrsOnElement
  simp only
  split
  · rename_i hae
    simp only [Policy.bareOK, mem_setInsert, hae, true_and]
    rw [foldl_setOfElementsAllowedWithoutAttrs]; exact fun _ _ => rfl
  · rename_i hae
    simp only [Policy.bareOK, hae, false_and, or_false, Bool.false_eq_true]
    rw [foldl_setOfElementsAllowedWithoutAttrs]; exact fun _ _ => rfl

theorem bareOK_applyOpInit (d : Bytes → Bytes → Bool) (p : Policy) (op : BuilderOp) (el : Bytes) :
    (applyOpInit d p op).bareOK el ↔ p.bareOK el ∨ op.addsBareOK el := by
  cases op with
  | allowElements names =>
    simp only [applyOpInit, BuilderOp.addsBareOK, or_false, Policy.bareOK]
    rw [foldl_setOfElementsAllowedWithoutAttrs]; exact fun _ _ => rfl
  | allowAttrs names re ae scope =>
    cases scope with
    | onElements els =>
      simp only [applyOpInit, BuilderOp.addsBareOK]
      rw [foldl_iff _ (fun p : Policy => p.bareOK el) (fun e => ae = true ∧ el = toLowerName e)
        (fun b a => bareOK_attrsOnElement b _ re ae _ el)]
      simp only [List.mem_map]
      constructor
      · rintro (h | ⟨a, ha, h1, h2⟩)
        · exact .inl h
        · exact .inr ⟨h1, a, ha, h2.symm⟩
      · rintro (h | ⟨h1, a, ha, h2⟩)
        · exact .inl h
        · exact .inr ⟨a, ha, h1, h2.symm⟩
    | onElementsMatching r' =>
      simp only [applyOpInit, BuilderOp.addsBareOK, or_false]
      split <;> simp only [Policy.bareOK] <;> (rw [foldl_setOfElementsAllowedWithoutAttrs]; exact fun _ _ => rfl)
    | globally =>
      simp only [applyOpInit, BuilderOp.addsBareOK, or_false, Policy.bareOK]
      rw [foldl_setOfElementsAllowedWithoutAttrs]; exact fun _ _ => rfl
  | allowStyles names m scope =>
    cases scope with
    | onElements els =>
      simp only [applyOpInit, BuilderOp.addsBareOK, or_false, Policy.bareOK]
      rw [foldl_setOfElementsAllowedWithoutAttrs]
      intro b a
      rw [foldl_setOfElementsAllowedWithoutAttrs]; exact fun _ _ => rfl
    | onElementsMatching r' =>
      simp only [applyOpInit, BuilderOp.addsBareOK, or_false, Policy.bareOK]
      rw [foldl_setOfElementsAllowedWithoutAttrs]; exact fun _ _ => rfl
    | globally =>
      simp only [applyOpInit, BuilderOp.addsBareOK, or_false, Policy.bareOK]
      rw [foldl_setOfElementsAllowedWithoutAttrs]; exact fun _ _ => rfl
  | allowURLSchemes schemes =>
    simp only [applyOpInit, BuilderOp.addsBareOK, or_false, Policy.bareOK]
    rw [foldl_setOfElementsAllowedWithoutAttrs]; exact fun _ _ => rfl
  | skipElementsContent names =>
    simp only [applyOpInit, BuilderOp.addsBareOK, or_false, Policy.bareOK]
    rw [foldl_setOfElementsAllowedWithoutAttrs]; exact fun _ _ => rfl
  | allowElementsContent names =>
    simp only [applyOpInit, BuilderOp.addsBareOK, or_false, Policy.bareOK]
    rw [foldl_setOfElementsAllowedWithoutAttrs]; exact fun _ _ => rfl
  | allowElementsMatching r' =>
    simp only [applyOpInit, BuilderOp.addsBareOK, or_false]
    split <;> exact Iff.rfl
  | allowURLSchemesMatching r' =>
    simp only [applyOpInit, BuilderOp.addsBareOK, or_false]; exact Iff.rfl
  | _ => simp only [applyOpInit, BuilderOp.addsBareOK, or_false]; exact Iff.rfl

theorem bareOKPattern_applyOpInit (d : Bytes → Bytes → Bool) (p : Policy) (op : BuilderOp) (id : Nat) :
    (applyOpInit d p op).bareOKPattern id ↔ p.bareOKPattern id ∨ op.addsBareOKPattern id := by
  cases op with
  | allowElements names =>
    simp only [applyOpInit, BuilderOp.addsBareOKPattern, or_false, Policy.bareOKPattern]
    rw [foldl_setOfElementsMatchingAllowedWithoutAttrs]; exact fun _ _ => rfl
  | allowAttrs names re ae scope =>
    cases scope with
    | onElements els =>
      simp only [applyOpInit, BuilderOp.addsBareOKPattern, or_false, Policy.bareOKPattern]
      rw [foldl_setOfElementsMatchingAllowedWithoutAttrs]; exact fun b a => attrsOnElement_setOfElementsMatchingAllowedWithoutAttrs b _ _ _ _
    | onElementsMatching r' =>
      simp only [applyOpInit, BuilderOp.addsBareOKPattern]
      split
      · rename_i hae
        simp only [Policy.bareOKPattern, exists_append_id, hae, true_and]
        rw [foldl_setOfElementsMatchingAllowedWithoutAttrs]; exact fun _ _ => rfl
      · rename_i hae
        simp only [Policy.bareOKPattern, hae, false_and, or_false, Bool.false_eq_true]
        rw [foldl_setOfElementsMatchingAllowedWithoutAttrs]; exact fun _ _ => rfl
    | globally =>
      simp only [applyOpInit, BuilderOp.addsBareOKPattern, or_false, Policy.bareOKPattern]
      rw [foldl_setOfElementsMatchingAllowedWithoutAttrs]; exact fun _ _ => rfl
  | allowStyles names m scope =>
    cases scope with
    | onElements els =>
      simp only [applyOpInit, BuilderOp.addsBareOKPattern, or_false, Policy.bareOKPattern]
      rw [foldl_setOfElementsMatchingAllowedWithoutAttrs]
      intro b a
      rw [foldl_setOfElementsMatchingAllowedWithoutAttrs]; exact fun _ _ => rfl
    | onElementsMatching r' =>
      simp only [applyOpInit, BuilderOp.addsBareOKPattern, or_false, Policy.bareOKPattern]
      rw [foldl_setOfElementsMatchingAllowedWithoutAttrs]; exact fun _ _ => rfl
    | globally =>
      simp only [applyOpInit, BuilderOp.addsBareOKPattern, or_false, Policy.bareOKPattern]
      rw [foldl_setOfElementsMatchingAllowedWithoutAttrs]; exact fun _ _ => rfl
  | allowURLSchemes schemes =>
    simp only [applyOpInit, BuilderOp.addsBareOKPattern, or_false, Policy.bareOKPattern]
    rw [foldl_setOfElementsMatchingAllowedWithoutAttrs]; exact fun _ _ => rfl
  | skipElementsContent names =>
    simp only [applyOpInit, BuilderOp.addsBareOKPattern, or_false, Policy.bareOKPattern]
    rw [foldl_setOfElementsMatchingAllowedWithoutAttrs]; exact fun _ _ => rfl
  | allowElementsContent names =>
    simp only [applyOpInit, BuilderOp.addsBareOKPattern, or_false, Policy.bareOKPattern]
    rw [foldl_setOfElementsMatchingAllowedWithoutAttrs]; exact fun _ _ => rfl
  | allowElementsMatching r' =>
    simp only [applyOpInit, BuilderOp.addsBareOKPattern, or_false]
    split <;> exact Iff.rfl
  | allowURLSchemesMatching r' =>
    simp only [applyOpInit, BuilderOp.addsBareOKPattern, or_false]; exact Iff.rfl
  | _ => simp only [applyOpInit, BuilderOp.addsBareOKPattern, or_false]; exact Iff.rfl

theorem schemePattern_applyOpInit (d : Bytes → Bytes → Bool) (p : Policy) (op : BuilderOp) (id : Nat) :
    (applyOpInit d p op).schemePattern id ↔ p.schemePattern id ∨ op.addsSchemePattern id := by
  cases op with
  | allowElements names =>
    simp only [applyOpInit, BuilderOp.addsSchemePattern, or_false, Policy.schemePattern]
    rw [foldl_allowURLSchemeRegexps]; exact fun _ _ => rfl
  | allowAttrs names re ae scope =>
    cases scope with
    | onElements els =>
      simp only [applyOpInit, BuilderOp.addsSchemePattern, or_false, Policy.schemePattern]
      rw [foldl_allowURLSchemeRegexps]; exact fun b a => attrsOnElement_allowURLSchemeRegexps b _ _ _ _
    | onElementsMatching r' =>
      simp only [applyOpInit, BuilderOp.addsSchemePattern, or_false]
      split <;> simp only [Policy.schemePattern] <;> (rw [foldl_allowURLSchemeRegexps]; exact fun _ _ => rfl)
    | globally =>
      simp only [applyOpInit, BuilderOp.addsSchemePattern, or_false, Policy.schemePattern]
      rw [foldl_allowURLSchemeRegexps]; exact fun _ _ => rfl
  | allowStyles names m scope =>
    cases scope with
    | onElements els =>
      simp only [applyOpInit, BuilderOp.addsSchemePattern, or_false, Policy.schemePattern]
      rw [foldl_allowURLSchemeRegexps]
      intro b a
      rw [foldl_allowURLSchemeRegexps]; exact fun _ _ => rfl
    | onElementsMatching r' =>
      simp only [applyOpInit, BuilderOp.addsSchemePattern, or_false, Policy.schemePattern]
      rw [foldl_allowURLSchemeRegexps]; exact fun _ _ => rfl
    | globally =>
      simp only [applyOpInit, BuilderOp.addsSchemePattern, or_false, Policy.schemePattern]
      rw [foldl_allowURLSchemeRegexps]; exact fun _ _ => rfl
  | allowURLSchemes schemes =>
    simp only [applyOpInit, BuilderOp.addsSchemePattern, or_false, Policy.schemePattern]
    rw [foldl_allowURLSchemeRegexps]; exact fun _ _ => rfl
  | skipElementsContent names =>
    simp only [applyOpInit, BuilderOp.addsSchemePattern, or_false, Policy.schemePattern]
    rw [foldl_allowURLSchemeRegexps]; exact fun _ _ => rfl
  | allowElementsContent names =>
    simp only [applyOpInit, BuilderOp.addsSchemePattern, or_false, Policy.schemePattern]
    rw [foldl_allowURLSchemeRegexps]; exact fun _ _ => rfl
  | allowElementsMatching r' =>
    simp only [applyOpInit, BuilderOp.addsSchemePattern, or_false]
    split <;> exact Iff.rfl
  | allowURLSchemesMatching r' =>
    simp only [applyOpInit, BuilderOp.addsSchemePattern, Policy.schemePattern]
    exact exists_append_id _ _ _
  | _ => simp only [applyOpInit, BuilderOp.addsSchemePattern, or_false]; exact Iff.rfl

/-- **the remaining tables after any history of builder calls on an initialised policy** -/
theorem rules2_applyOps (d : Bytes → Bytes → Bool) (p : Policy) (hi : p.initialized = true) (ops : List BuilderOp) :
    (∀ r attr x, x ∈ (applyOps d p ops).matchRules r attr ↔
        x ∈ p.matchRules r attr ∨ ∃ op ∈ ops, op.addsMatchRule r attr x) ∧
    (∀ r, (applyOps d p ops).hasPattern r ↔ p.hasPattern r ∨ ∃ op ∈ ops, op.addsPattern r) ∧
    (∀ r prop x, x ∈ (applyOps d p ops).matchStyleRules r prop ↔
        x ∈ p.matchStyleRules r prop ∨ ∃ op ∈ ops, op.addsMatchStyle d r prop x) ∧
    (∀ el, (applyOps d p ops).bareOK el ↔ p.bareOK el ∨ ∃ op ∈ ops, op.addsBareOK el) ∧
    (∀ id, (applyOps d p ops).bareOKPattern id ↔ p.bareOKPattern id ∨ ∃ op ∈ ops, op.addsBareOKPattern id) ∧
    (∀ id, (applyOps d p ops).schemePattern id ↔ p.schemePattern id ∨ ∃ op ∈ ops, op.addsSchemePattern id) := by
  have hinv : ∀ (b : Policy) (a : BuilderOp), b.initialized = true → (applyOp d b a).initialized = true :=
    fun b a hb => applyOp_initialized d b hb a
  refine ⟨?_, ?_, ?_, ?_, ?_, ?_⟩
  · intro r attr x
    exact foldl_iff_inv (applyOp d) (fun p => p.initialized = true) (fun p => x ∈ p.matchRules r attr)
      (fun op => op.addsMatchRule r attr x) hinv
      (fun b a hb => by rw [applyOp_init_eq d b hb]; exact matchRules_applyOpInit d b a r attr x) ops p hi
  · intro r
    exact foldl_iff_inv (applyOp d) (fun p => p.initialized = true) (fun p => p.hasPattern r)
      (fun op => op.addsPattern r) hinv
      (fun b a hb => by rw [applyOp_init_eq d b hb]; exact hasPattern_applyOpInit d b a r) ops p hi
  · intro r prop x
    exact foldl_iff_inv (applyOp d) (fun p => p.initialized = true) (fun p => x ∈ p.matchStyleRules r prop)
      (fun op => op.addsMatchStyle d r prop x) hinv
      (fun b a hb => by rw [applyOp_init_eq d b hb]; exact matchStyleRules_applyOpInit d b a r prop x) ops p hi
  · intro el
    exact foldl_iff_inv (applyOp d) (fun p => p.initialized = true) (fun p => p.bareOK el)
      (fun op => op.addsBareOK el) hinv
      (fun b a hb => by rw [applyOp_init_eq d b hb]; exact bareOK_applyOpInit d b a el) ops p hi
  · intro id
    exact foldl_iff_inv (applyOp d) (fun p => p.initialized = true) (fun p => p.bareOKPattern id)
      (fun op => op.addsBareOKPattern id) hinv
      (fun b a hb => by rw [applyOp_init_eq d b hb]; exact bareOKPattern_applyOpInit d b a id) ops p hi
  · intro id
    exact foldl_iff_inv (applyOp d) (fun p => p.initialized = true) (fun p => p.schemePattern id)
      (fun op => op.addsSchemePattern id) hinv
      (fun b a hb => by rw [applyOp_init_eq d b hb]; exact schemePattern_applyOpInit d b a id) ops p hi

end BM
