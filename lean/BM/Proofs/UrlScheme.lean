import BM.Url
import BM.Spec.Oracles
/-
  The bridge between net/url and a browser, scheme half (C03): the scheme net/url's Parse
  returns is well formed and lower case, `URL.String` prints it first, followed by a colon, and
  the WHATWG scheme-state classifier (`Spec.classifyUrl`) reads exactly that scheme back from
  the printed URL.  So a value `validURL` returns for a URL *with* a scheme is one a browser
  resolves to that scheme.
-/
namespace BM.Url
open BM BM.Spec

def schemeByte (c : UInt8) : Bool := isAlnum c || c == 43 || c == 45 || c == 46

/-- a scheme as RFC 3986 / WHATWG spell it -/
def SchemeForm (s : Bytes) : Prop :=
  ∃ c cs, s = c :: cs ∧ isAlpha c = true ∧ ∀ x ∈ cs, schemeByte x = true

/-! ### what getScheme returns -/

theorem getSchemeAux_form : ∀ (s pre : Bytes) (sch rest : Bytes),
    (pre = [] ∨ SchemeForm pre) →
    getSchemeAux (pre ++ s) pre.length s = .ok sch rest → sch = [] ∨ SchemeForm sch
  | [], pre, sch, rest, _, h => by
    simp only [getSchemeAux] at h
    injection h with h1 _
    exact .inl h1.symm
  | c :: cs, pre, sch, rest, hpre, h => by
    unfold getSchemeAux at h
    have happ : pre ++ c :: cs = (pre ++ [c]) ++ cs := by simp
    have hlen : pre.length + 1 = (pre ++ [c]).length := by simp
    split at h
    · rename_i halpha
      rw [happ, hlen] at h
      refine getSchemeAux_form cs (pre ++ [c]) sch rest ?_ h
      right
      rcases hpre with rfl | ⟨d, ds, rfl, hd, hds⟩
      · exact ⟨c, [], rfl, halpha, by simp⟩
      · exact ⟨d, ds ++ [c], by simp, hd, by
          intro x hx
          simp only [List.mem_append, List.mem_singleton] at hx
          rcases hx with hx | rfl
          · exact hds x hx
          · simp [schemeByte, isAlnum, halpha]⟩
    · split at h
      · rename_i hdig
        split at h
        · injection h with h1 _; exact .inl h1.symm
        · rename_i hi
          rw [happ, hlen] at h
          refine getSchemeAux_form cs (pre ++ [c]) sch rest ?_ h
          right
          rcases hpre with rfl | ⟨d, ds, rfl, hd, hds⟩
          · simp at hi
          · exact ⟨d, ds ++ [c], by simp, hd, by
              intro x hx
              simp only [List.mem_append, List.mem_singleton] at hx
              rcases hx with hx | rfl
              · exact hds x hx
              · simp only [schemeByte, isAlnum, Bool.or_eq_true, beq_iff_eq] at hdig ⊢
                rcases hdig with ((h' | h') | h') | h'
                · exact .inl (.inl (.inl (.inr h')))
                · exact .inl (.inl (.inr h'))
                · exact .inl (.inr h')
                · exact .inr h'⟩
      · split at h
        · split at h
          · cases h
          · injection h with h1 _
            rw [← h1]
            have : (pre ++ c :: cs).take pre.length = pre := by simp
            rw [this]
            exact hpre
        · injection h with h1 _; exact .inl h1.symm

theorem getScheme_form (s sch rest : Bytes) (h : getScheme s = .ok sch rest) : sch = [] ∨ SchemeForm sch :=
  getSchemeAux_form s [] sch rest (.inl rfl) (by simpa [getScheme] using h)

/-- a scheme as Parse stores it: well formed and lower case -/
def SchemeOK (s : Bytes) : Prop := SchemeForm s ∧ lowerAscii s = s

set_option maxRecDepth 8192 in
theorem lowerByte_facts_fin : ∀ n : Fin 256,
    (isAlpha (UInt8.ofNat n.val) = true → isAlpha (lowerByte (UInt8.ofNat n.val)) = true) ∧
    (schemeByte (UInt8.ofNat n.val) = true → schemeByte (lowerByte (UInt8.ofNat n.val)) = true) ∧
    lowerByte (lowerByte (UInt8.ofNat n.val)) = lowerByte (UInt8.ofNat n.val) := by decide

theorem lowerByte_facts (c : UInt8) :
    (isAlpha c = true → isAlpha (lowerByte c) = true) ∧
    (schemeByte c = true → schemeByte (lowerByte c) = true) ∧ lowerByte (lowerByte c) = lowerByte c := by
  have := lowerByte_facts_fin ⟨c.toNat, c.toNat_lt⟩
  simpa only [UInt8.ofNat_toNat] using this

theorem schemeOK_lower (s : Bytes) (h : s = [] ∨ SchemeForm s) : lowerAscii s = [] ∨ SchemeOK (lowerAscii s) := by
  rcases h with rfl | ⟨c, cs, rfl, hc, hcs⟩
  · exact .inl rfl
  · right
    refine ⟨⟨lowerByte c, lowerAscii cs, by simp [lowerAscii], (lowerByte_facts c).1 hc, ?_⟩, ?_⟩
    · intro x hx
      simp only [lowerAscii, List.mem_map] at hx
      obtain ⟨y, hy, rfl⟩ := hx
      exact (lowerByte_facts y).2.1 (hcs y hy)
    · simp only [lowerAscii, List.map_map]
      apply List.map_congr_left
      intro a _
      exact (lowerByte_facts a).2.2

/-! ### Parse keeps that scheme -/

theorem setPath_scheme (u u' : URL) (p : Bytes) (h : setPath u p = some u') : u'.scheme = u.scheme := by
  unfold setPath at h
  simp only [Option.map_eq_some_iff] at h
  obtain ⟨_, _, rfl⟩ := h
  rfl

theorem setFragment_scheme (u u' : URL) (f : Bytes) (h : setFragment u f = some u') : u'.scheme = u.scheme := by
  unfold setFragment at h
  simp only [Option.map_eq_some_iff] at h
  obtain ⟨_, _, rfl⟩ := h
  rfl

theorem parseNoFrag_scheme (raw : Bytes) (u : URL) (h : parseNoFrag raw = some u) :
    u.scheme = [] ∨ SchemeOK u.scheme := by
  unfold parseNoFrag at h
  split at h
  · cases h
  · split at h
    · injection h with h; subst h; exact .inl rfl
    · split at h
      · cases h
      · rename_i scheme rest0 hgs
        have hform := schemeOK_lower scheme (getScheme_form raw scheme rest0 hgs)
        simp only at h
        repeat' split at h
        all_goals (try (cases h; done))
        all_goals (first
          | (injection h with h; subst h; exact hform)
          | (have := setPath_scheme _ _ _ h; rw [this]; exact hform))

theorem parse_scheme (raw : Bytes) (u : URL) (h : parse raw = some u) : u.scheme = [] ∨ SchemeOK u.scheme := by
  unfold parse at h
  simp only at h
  split at h
  · cases h
  · rename_i url hp
    have hs := parseNoFrag_scheme _ url hp
    split at h
    · injection h with h; subst h; exact hs
    · rw [setFragment_scheme url u _ h]; exact hs

/-! ### String prints the scheme first -/

/-- the part of `URL.String` before query and fragment, when there is no opaque part -/
def printHier (u : URL) (head : Bytes) : Bytes :=
  let auth :=
    if !u.scheme.isEmpty || !u.host.isEmpty || u.hasUser then
      if u.omitHost && u.host.isEmpty && !u.hasUser then []
      else
        (if !u.host.isEmpty || !u.path.isEmpty || u.hasUser then b!"//" else []) ++
        (if u.hasUser then userString u ++ [64] else []) ++
        (if !u.host.isEmpty then escape .host u.host else [])
    else []
  let buf := head ++ auth
  let path := escapedPath u
  let buf := if !path.isEmpty && path.head? != some 47 && !u.host.isEmpty then buf ++ [47] else buf
  let buf := if buf.isEmpty && (cut 47 path).1.contains 58 then b!"./" else buf
  buf ++ path

def printTail (u : URL) (body : Bytes) : Bytes :=
  let body := if u.forceQuery || !u.rawQuery.isEmpty then body ++ 63 :: u.rawQuery else body
  if !u.fragment.isEmpty then body ++ 35 :: escapedFragment u else body

theorem print_eq (u : URL) :
    print u = printTail u (let head := if u.scheme.isEmpty then [] else u.scheme ++ [58]
      if !u.opaq.isEmpty then head ++ u.opaq else printHier u head) := rfl

/-- `l` starts with `s:` -/
def StartsWith (s l : Bytes) : Prop := ∃ t, l = s ++ 58 :: t

theorem startsWith_append {s l : Bytes} (x : Bytes) (h : StartsWith s l) : StartsWith s (l ++ x) := by
  obtain ⟨t, rfl⟩ := h
  exact ⟨t ++ x, by simp⟩

theorem startsWith_ne_nil {s l : Bytes} (h : StartsWith s l) : l.isEmpty = false := by
  obtain ⟨t, rfl⟩ := h
  cases s <;> rfl

theorem printTail_startsWith (u : URL) {s body : Bytes} (h : StartsWith s body) : StartsWith s (printTail u body) := by
  unfold printTail
  simp only
  split <;> split <;> first | exact h | exact startsWith_append _ h | exact startsWith_append _ (startsWith_append _ h)

theorem printHier_startsWith (u : URL) (s : Bytes) : StartsWith s (printHier u (s ++ [58])) := by
  unfold printHier
  simp only
  have h0 : ∀ auth : Bytes, StartsWith s ((s ++ [58]) ++ auth) := fun auth => ⟨auth, by simp⟩
  generalize (if !u.scheme.isEmpty || !u.host.isEmpty || u.hasUser then
      if u.omitHost && u.host.isEmpty && !u.hasUser then []
      else
        (if !u.host.isEmpty || !u.path.isEmpty || u.hasUser then b!"//" else []) ++
        (if u.hasUser then userString u ++ [64] else []) ++
        (if !u.host.isEmpty then escape .host u.host else [])
    else []) = auth
  have h1 := h0 auth
  generalize (s ++ [58]) ++ auth = buf at h1
  have h2 : StartsWith s (if !(escapedPath u).isEmpty && (escapedPath u).head? != some 47 && !u.host.isEmpty then buf ++ [47] else buf) := by
    split
    · exact startsWith_append _ h1
    · exact h1
  generalize (if !(escapedPath u).isEmpty && (escapedPath u).head? != some 47 && !u.host.isEmpty then buf ++ [47] else buf) = buf2 at h2
  have h3 : (buf2.isEmpty && (cut 47 (escapedPath u)).1.contains 58) = false := by
    rw [startsWith_ne_nil h2]; rfl
  simp only [h3, Bool.false_eq_true, ↓reduceIte]
  exact startsWith_append _ h2

theorem print_scheme_prefix (u : URL) (h : u.scheme ≠ []) : ∃ tail, print u = u.scheme ++ 58 :: tail := by
  have he : u.scheme.isEmpty = false := by
    cases hs : u.scheme with
    | nil => exact absurd hs h
    | cons _ _ => rfl
  rw [print_eq]
  apply printTail_startsWith
  simp only [he, Bool.false_eq_true, ↓reduceIte]
  split
  · exact ⟨u.opaq, by simp⟩
  · exact printHier_startsWith u u.scheme

/-! ### the browser reads it back -/

theorem dropWhile_append_stop {α} (P : α → Bool) (l1 : List α) (x : α) (l2 : List α) (hx : P x = false) :
    (l1 ++ x :: l2).dropWhile P = l1.dropWhile P ++ x :: l2 := by
  induction l1 with
  | nil => simp [List.dropWhile, hx]
  | cons a as ih =>
    simp only [List.cons_append, List.dropWhile]
    split
    · exact ih
    · rfl

/-- stripping trailing C0-or-space bytes does not reach past a byte above 32 -/
theorem rstrip_keep (pre : Bytes) (x : UInt8) (t : Bytes) (hx : isC0OrSpace x = false) :
    ((pre ++ x :: t).reverse.dropWhile isC0OrSpace).reverse =
      pre ++ x :: (t.reverse.dropWhile isC0OrSpace).reverse := by
  have : (pre ++ x :: t).reverse = t.reverse ++ x :: pre.reverse := by simp
  rw [this, dropWhile_append_stop _ _ _ _ hx]
  simp

set_option maxRecDepth 8192 in
theorem schemeByte_facts_fin : ∀ n : Fin 256,
    (schemeByte (UInt8.ofNat n.val) = true →
      isC0OrSpace (UInt8.ofNat n.val) = false ∧ UInt8.ofNat n.val ≠ 9 ∧ UInt8.ofNat n.val ≠ 10 ∧
      UInt8.ofNat n.val ≠ 13 ∧ UInt8.ofNat n.val ≠ 58) ∧
    (isAlpha (UInt8.ofNat n.val) = true → schemeByte (UInt8.ofNat n.val) = true) := by decide

theorem schemeByte_facts (c : UInt8) :
    (schemeByte c = true → isC0OrSpace c = false ∧ c ≠ 9 ∧ c ≠ 10 ∧ c ≠ 13 ∧ c ≠ 58) ∧
    (isAlpha c = true → schemeByte c = true) := by
  have := schemeByte_facts_fin ⟨c.toNat, c.toNat_lt⟩
  simpa only [UInt8.ofNat_toNat] using this

theorem takeWhile_scheme (s t : Bytes) (hs : ∀ x ∈ s, schemeByte x = true) :
    (s ++ 58 :: t).takeWhile (fun c => isAlnum c || c == 43 || c == 45 || c == 46) = s := by
  induction s with
  | nil => simp [List.takeWhile, isAlnum, isAlpha, isUpper, isLowerA, isDigit]
  | cons c cs ih =>
    have hc := hs c (by simp)
    have : (isAlnum c || c == 43 || c == 45 || c == 46) = true := hc
    simp only [List.cons_append, List.takeWhile, this]
    rw [ih (fun x hx => hs x (by simp [hx]))]

/-- **the WHATWG classifier reads the printed scheme back** -/
theorem classify_scheme_prefix (s tail : Bytes) (hs : SchemeOK s) : classifyUrl (s ++ 58 :: tail) = .scheme s := by
  obtain ⟨⟨c, cs, rfl, hc, hcs⟩, hlow⟩ := hs
  have hall : ∀ x ∈ c :: cs, schemeByte x = true := by
    intro x hx
    simp only [List.mem_cons] at hx
    rcases hx with rfl | hx
    · exact (schemeByte_facts x).2 hc
    · exact hcs x hx
  have hc0 : isC0OrSpace c = false := ((schemeByte_facts c).1 (hall c (by simp))).1
  unfold classifyUrl
  -- leading strip: nothing to strip
  have h1 : ((c :: cs) ++ 58 :: tail).dropWhile isC0OrSpace = (c :: cs) ++ 58 :: tail := by
    simp [List.dropWhile, hc0]
  -- trailing strip: stops at the colon at the latest
  have h58 : isC0OrSpace 58 = false := by decide
  have h2 := rstrip_keep (c :: cs) 58 tail h58
  simp only [h1, h2]
  generalize ((tail.reverse.dropWhile isC0OrSpace).reverse) = tail'
  -- tab / newline removal leaves scheme and colon alone
  have h3 : ((c :: cs) ++ 58 :: tail').filter (fun c => c != 9 && c != 10 && c != 13) =
      (c :: cs) ++ 58 :: tail'.filter (fun c => c != 9 && c != 10 && c != 13) := by
    rw [List.filter_append]
    congr 1
    · apply List.filter_eq_self.mpr
      intro x hx
      obtain ⟨_, h9, h10, h13, _⟩ := (schemeByte_facts x).1 (hall x hx)
      simp [h9, h10, h13]
  simp only [h3]
  generalize (tail'.filter (fun c => c != 9 && c != 10 && c != 13)) = t2
  simp only [List.cons_append, hc, ↓reduceIte]
  have h4 := takeWhile_scheme (c :: cs) t2 hall
  simp only [List.cons_append] at h4
  rw [h4]
  simp [hlow]

/-- **C03 bridge, scheme half**: for a URL net/url parsed with a scheme, a browser extracts
    exactly that scheme from what `URL.String` prints -/
theorem printed_scheme_is_browser_scheme (raw : Bytes) (u : URL) (hp : parse raw = some u) (hs : u.scheme ≠ []) :
    classifyUrl (print u) = .scheme u.scheme := by
  obtain ⟨tail, ht⟩ := print_scheme_prefix u hs
  rcases parse_scheme raw u hp with h | h
  · exact absurd h hs
  · rw [ht]; exact classify_scheme_prefix u.scheme tail h

end BM.Url
