import BM.Proofs.CssDelete
/-
  UTF-8 decoding is self-synchronising where it matters here: appending ASCII bytes to a byte string does not
  change how the string itself decodes — a sequence cut short at the end of the string is an error rune with or
  without the ASCII bytes after it, because an ASCII byte is not a continuation byte.
  Used for `rel` values: `v ++ " nofollow"` decodes to the runes of `v` followed by those of the suffix.
-/
namespace BM
open BM.Golite

def AsciiBytes (w : Bytes) : Prop := ∀ c ∈ w, c.toNat < 0x80

theorem asciiBytes_tail {c : UInt8} {w : Bytes} (h : AsciiBytes (c :: w)) : AsciiBytes w :=
  fun x hx => h x (List.mem_cons_of_mem _ hx)

/-- one decoding step looks at most at the three bytes after the first, and an ASCII byte in a continuation
    position is rejected exactly as a missing byte is -/
theorem decodeRune_append_ascii (b0 : UInt8) (rest w : Bytes) (hw : AsciiBytes w) :
    decodeRune (b0 :: (rest ++ w)) = decodeRune (b0 :: rest) := by
  have hlo : ∀ c ∈ w, ¬ (0x80 ≤ c.toNat) := fun c hc => by have := hw c hc; omega
  unfold decodeRune
  simp only
  split
  · rfl
  · split
    · rfl
    · split
      · -- two-byte sequence
        cases rest with
        | cons b1 r => rfl
        | nil =>
          cases w with
          | nil => rfl
          | cons c w' =>
            have := hlo c (by simp)
            simp [this]
      · split
        · -- three-byte sequence
          cases rest with
          | nil =>
            cases w with
            | nil => rfl
            | cons c w' =>
              cases w' with
              | nil => rfl
              | cons c2 w'' =>
                have h2 := hlo c2 (by simp)
                simp [h2]
          | cons b1 r =>
            cases r with
            | cons b2 r' => rfl
            | nil =>
              cases w with
              | nil => rfl
              | cons c w' =>
                have h1 := hlo c (by simp)
                simp [h1]
        · split
          · -- four-byte sequence
            cases rest with
            | nil =>
              cases w with
              | nil => rfl
              | cons c w' =>
                cases w' with
                | nil => rfl
                | cons c2 w'' =>
                  cases w'' with
                  | nil => rfl
                  | cons c3 w3 =>
                    have h3 := hlo c3 (by simp)
                    simp [h3]
            | cons b1 r =>
              cases r with
              | nil =>
                cases w with
                | nil => rfl
                | cons c w' =>
                  cases w' with
                  | nil => rfl
                  | cons c2 w'' =>
                    have h2 := hlo c2 (by simp)
                    simp [h2]
              | cons b2 r' =>
                cases r' with
                | cons b3 r'' => rfl
                | nil =>
                  cases w with
                  | nil => rfl
                  | cons c w' =>
                    have h1 := hlo c (by simp)
                    simp [h1]
          · rfl

theorem decodeRunes_append_ascii : ∀ (n : Nat) (s w : Bytes), s.length ≤ n → AsciiBytes w →
    decodeRunes (s ++ w) = decodeRunes s ++ decodeRunes w
  | 0, s, w, hn, _ => by
    have : s = [] := List.length_eq_zero_iff.mp (Nat.le_zero.mp hn)
    subst this
    simp [decodeRunes_nil]
  | n + 1, [], w, _, _ => by simp [decodeRunes_nil]
  | n + 1, b0 :: rest, w, hn, hw => by
    have hcons : (b0 :: rest) ++ w = b0 :: (rest ++ w) := rfl
    rw [hcons, decodeRunes_cons b0 (rest ++ w), decodeRunes_cons b0 rest, decodeRune_append_ascii b0 rest w hw]
    have hpos := decodeRune_width_pos b0 rest
    have hle := decodeRune_width_le b0 rest
    have hdrop : (b0 :: (rest ++ w)).drop (decodeRune (b0 :: rest)).2 =
        (b0 :: rest).drop (decodeRune (b0 :: rest)).2 ++ w := by
      rw [← hcons, List.drop_append_of_le_length hle]
    rw [hdrop, decodeRunes_append_ascii n _ w (by
      simp only [List.length_drop, List.length_cons] at hn ⊢; omega) hw]
    rfl

/-- the runes of an ASCII byte string are its bytes -/
theorem decodeRunes_ascii : ∀ (w : Bytes), AsciiBytes w → decodeRunes w = w.map (·.toNat)
  | [], _ => decodeRunes_nil
  | c :: w, h => by
    have hc : c.toNat < 0x80 := h c (by simp)
    have h1 : decodeRune (c :: w) = (c.toNat, 1) := by
      unfold decodeRune; simp [hc]
    rw [decodeRunes_cons, h1]
    simp only [List.drop_succ_cons, List.drop_zero, List.map_cons]
    rw [decodeRunes_ascii w (asciiBytes_tail h)]

end BM
