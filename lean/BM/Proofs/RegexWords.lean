import BM.Proofs.RegexSem
/-
  Loop-free expressions have finitely many "class words" — one character class per position.
  `cwords` computes them (alternation = union, concatenation = product, `?` adds the empty word,
  anchors consume nothing); `cwords_sound`: whatever such an expression matches is spelt by one of
  its class words.  Used to state the documented *form* of the keyword matchers of helpers.go.
-/
namespace BM.Re

abbrev CWord := List (List (Rune × Rune))

def cwords : Re → Option (List CWord)
  | .empty | .bot | .eot | .bol | .eol => some [[]]
  | .none => some []
  | .cls rs => some [[rs]]
  | .cat a b =>
    match cwords a, cwords b with
    | some wa, some wb => some (wa.flatMap fun x => wb.map fun y => x ++ y)
    | _, _ => .none
  | .alt a b =>
    match cwords a, cwords b with
    | some wa, some wb => some (wa ++ wb)
    | _, _ => .none
  | .quest a => (cwords a).map ([] :: ·)
  | .questL a => (cwords a).map ([] :: ·)
  | _ => .none

/-- the runes `s` are spelt by the class word `w` -/
def fits : List Rune → CWord → Bool
  | [], [] => true
  | c :: cs, rs :: w => inRanges c rs && fits cs w
  | _, _ => false

theorem fits_append : ∀ (s1 : List Rune) (w1 : CWord) (s2 : List Rune) (w2 : CWord),
    fits s1 w1 = true → fits s2 w2 = true → fits (s1 ++ s2) (w1 ++ w2) = true := by
  intro s1
  induction s1 with
  | nil =>
    intro w1 s2 w2 h1 h2
    cases w1 with
    | nil => simpa using h2
    | cons _ _ => simp [fits] at h1
  | cons c cs ih =>
    intro w1 s2 w2 h1 h2
    cases w1 with
    | nil => simp [fits] at h1
    | cons rs w =>
      simp only [fits, Bool.and_eq_true] at h1
      simp only [List.cons_append, fits, Bool.and_eq_true]
      exact ⟨h1.1, ih w s2 w2 h1.2 h2⟩

/-- **what a loop-free expression matches is spelt by one of its class words** -/
theorem cwords_sound {r : Re} {p s p' s'} (h : Matches r p s p' s') :
    ∀ ws, cwords r = some ws → ∃ w ∈ ws, ∃ pre, s = pre ++ s' ∧ fits pre w = true := by
  induction h with
  | empty p s => intro ws hw; simp only [cwords, Option.some.injEq] at hw; subst hw; exact ⟨[], by simp, [], rfl, rfl⟩
  | cls rs p c cs hin =>
    intro ws hw; simp only [cwords, Option.some.injEq] at hw; subst hw
    exact ⟨[rs], by simp, [c], rfl, by simp [fits, hin]⟩
  | anyNL p c cs => intro ws hw; simp [cwords] at hw
  | any p c cs _ => intro ws hw; simp [cwords] at hw
  | bot p s _ => intro ws hw; simp only [cwords, Option.some.injEq] at hw; subst hw; exact ⟨[], by simp, [], rfl, rfl⟩
  | eot p s _ => intro ws hw; simp only [cwords, Option.some.injEq] at hw; subst hw; exact ⟨[], by simp, [], rfl, rfl⟩
  | bol p s _ => intro ws hw; simp only [cwords, Option.some.injEq] at hw; subst hw; exact ⟨[], by simp, [], rfl, rfl⟩
  | eolNil p => intro ws hw; simp only [cwords, Option.some.injEq] at hw; subst hw; exact ⟨[], by simp, [], rfl, rfl⟩
  | eolNL p cs => intro ws hw; simp only [cwords, Option.some.injEq] at hw; subst hw; exact ⟨[], by simp, [], rfl, rfl⟩
  | cat a b p s p1 s1 p2 s2 _ _ ih1 ih2 =>
    intro ws hw
    simp only [cwords] at hw
    split at hw
    · rename_i wa wb ha hb
      simp only [Option.some.injEq] at hw; subst hw
      obtain ⟨w1, hw1, pre1, hs1, hf1⟩ := ih1 wa ha
      obtain ⟨w2, hw2, pre2, hs2, hf2⟩ := ih2 wb hb
      refine ⟨w1 ++ w2, ?_, pre1 ++ pre2, by rw [hs1, hs2, List.append_assoc], fits_append _ _ _ _ hf1 hf2⟩
      exact List.mem_flatMap.mpr ⟨w1, hw1, List.mem_map.mpr ⟨w2, hw2, rfl⟩⟩
    · cases hw
  | altL a b p s p' s' _ ih =>
    intro ws hw
    simp only [cwords] at hw
    split at hw
    · rename_i wa wb ha hb
      simp only [Option.some.injEq] at hw; subst hw
      obtain ⟨w, hw1, pre, hs, hf⟩ := ih wa ha
      exact ⟨w, List.mem_append_left _ hw1, pre, hs, hf⟩
    · cases hw
  | altR a b p s p' s' _ ih =>
    intro ws hw
    simp only [cwords] at hw
    split at hw
    · rename_i wa wb ha hb
      simp only [Option.some.injEq] at hw; subst hw
      obtain ⟨w, hw1, pre, hs, hf⟩ := ih wb hb
      exact ⟨w, List.mem_append_right _ hw1, pre, hs, hf⟩
    · cases hw
  | quest0 a p s =>
    intro ws hw
    simp only [cwords, Option.map_eq_some_iff] at hw
    obtain ⟨wa, _, rfl⟩ := hw
    exact ⟨[], by simp, [], rfl, rfl⟩
  | questS a p s p' s' _ ih =>
    intro ws hw
    simp only [cwords, Option.map_eq_some_iff] at hw
    obtain ⟨wa, ha, rfl⟩ := hw
    obtain ⟨w, hw1, pre, hs, hf⟩ := ih wa ha
    exact ⟨w, List.mem_cons_of_mem _ hw1, pre, hs, hf⟩
  | questL0 a p s =>
    intro ws hw
    simp only [cwords, Option.map_eq_some_iff] at hw
    obtain ⟨wa, _, rfl⟩ := hw
    exact ⟨[], by simp, [], rfl, rfl⟩
  | questLS a p s p' s' _ ih =>
    intro ws hw
    simp only [cwords, Option.map_eq_some_iff] at hw
    obtain ⟨wa, ha, rfl⟩ := hw
    obtain ⟨w, hw1, pre, hs, hf⟩ := ih wa ha
    exact ⟨w, List.mem_cons_of_mem _ hw1, pre, hs, hf⟩
  | _ => intro ws hw; simp [cwords] at hw

/-! ### runs of one class -/

theorem star_cls {rs : List (Rune × Rune)} {r : Re} {p s p' s'} (h : Matches r p s p' s') :
    r = .star (.cls rs) → ∃ pre, s = pre ++ s' ∧ ∀ c ∈ pre, inRanges c rs = true := by
  induction h with
  | star0 a p s => intro _; exact ⟨[], rfl, by simp⟩
  | starS a p s p1 s1 p2 s2 h1 _ _ _ ih2 =>
    intro hr
    simp only [star.injEq] at hr
    subst hr
    obtain ⟨pre, hs, hp⟩ := ih2 rfl
    cases h1 with
    | cls _ _ c cs hin =>
      refine ⟨c :: pre, by rw [hs]; rfl, ?_⟩
      intro x hx
      rcases List.mem_cons.mp hx with rfl | hx
      · exact hin
      · exact hp x hx
  | _ => intro hr; cases hr

/-- `[class]+` consumes a non-empty run of the class -/
theorem plus_cls {rs : List (Rune × Rune)} {p s p' s'} (h : Matches (.plus (.cls rs)) p s p' s') :
    ∃ c pre, s = c :: pre ++ s' ∧ inRanges c rs = true ∧ ∀ x ∈ pre, inRanges x rs = true := by
  cases h with
  | plus _ _ _ p1 s1 _ _ h1 h2 =>
    obtain ⟨pre, hs, hp⟩ := star_cls h2 rfl
    cases h1 with
    | cls _ _ c cs hin => exact ⟨c, pre, by rw [hs]; rfl, hin, hp⟩

end BM.Re
