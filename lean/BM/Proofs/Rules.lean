import BM.Policy
/-
  The rule tables of a policy as *sets of contributions* (C17).  For every history of builder
  calls on an initialised policy, what a table holds afterwards is what it held before plus
  what each call of the history contributes — a statement whose right-hand side does not
  mention the order of the calls, nor (beyond `strings.ToLower`) the spelling of their names.
  Accumulation ("rules add up, none replaces another"), order independence (any permutation of
  the history) and case independence are corollaries (Props/C17).
-/
namespace BM

/-! ### Go-map lemmas -/

namespace Map
variable {κ ν : Type} [BEq κ] [LawfulBEq κ]

theorem get?_set (m : Map κ ν) (k k' : κ) (v : ν) :
    (m.set k v).get? k' = if k == k' then some v else m.get? k' := by
  induction m with
  | nil => simp [Map.set, Map.get?]
  | cons e rest ih =>
    obtain ⟨a, b⟩ := e
    unfold Map.set
    by_cases hak : (a == k) = true
    · have : a = k := by simpa using hak
      subst this
      simp only [beq_self_eq_true, ↓reduceIte, Map.get?]
      split <;> rfl
    · simp only [hak, Bool.false_eq_true, ↓reduceIte, Map.get?]
      rw [ih]
      by_cases hkk : (k == k') = true
      · have : k = k' := by simpa using hkk
        subst this
        simp [hak]
      · simp [hkk]

theorem get?_update (m : Map κ ν) (k k' : κ) (dflt : ν) (f : ν → ν) :
    (m.update k dflt f).get? k' = if k == k' then some (f ((m.get? k).getD dflt)) else m.get? k' := by
  unfold Map.update
  exact get?_set _ _ _ _

end Map

/-- the list a map of lists holds for a key (`m[k]` of a Go map of slices: nil when absent) -/
def rulesOf {α : Type} (m : Map Bytes (List α)) (k : Bytes) : List α := (m.get? k).getD []

theorem rulesOf_add {α : Type} (m : Map Bytes (List α)) (k k' : Bytes) (x : α) :
    rulesOf (m.update k [] (· ++ [x])) k' = if k = k' then rulesOf m k ++ [x] else rulesOf m k' := by
  unfold rulesOf
  rw [Map.get?_update]
  by_cases h : k = k'
  · subst h; simp
  · simp [h]

theorem rulesOf_update_id {α : Type} (m : Map Bytes (List α)) (k k' : Bytes) :
    rulesOf (m.update k [] id) k' = rulesOf m k' := by
  unfold rulesOf
  rw [Map.get?_update]
  by_cases h : k = k'
  · subst h; simp
  · simp [h]

/-! ### folds -/

theorem foldl_iff {α β : Type} (f : β → α → β) (P : β → Prop) (Q : α → Prop)
    (h : ∀ b a, P (f b a) ↔ P b ∨ Q a) (l : List α) (b : β) :
    P (l.foldl f b) ↔ P b ∨ ∃ a ∈ l, Q a := by
  induction l generalizing b with
  | nil => simp
  | cons a as ih =>
    simp only [List.foldl_cons, ih, h, List.mem_cons, exists_eq_or_imp]
    constructor
    · rintro ((hb | ha) | hr)
      · exact .inl hb
      · exact .inr (.inl ha)
      · exact .inr (.inr hr)
    · rintro (hb | ha | hr)
      · exact .inl (.inl hb)
      · exact .inl (.inr ha)
      · exact .inr hr

theorem foldl_iff_inv {α β : Type} (f : β → α → β) (Inv : β → Prop) (P : β → Prop) (Q : α → Prop)
    (hinv : ∀ b a, Inv b → Inv (f b a))
    (h : ∀ b a, Inv b → (P (f b a) ↔ P b ∨ Q a)) (l : List α) (b : β) (hb : Inv b) :
    P (l.foldl f b) ↔ P b ∨ ∃ a ∈ l, Q a := by
  induction l generalizing b with
  | nil => simp
  | cons a as ih =>
    simp only [List.foldl_cons, ih _ (hinv b a hb), h b a hb, List.mem_cons, exists_eq_or_imp]
    constructor
    · rintro ((hb | ha) | hr)
      · exact .inl hb
      · exact .inr (.inl ha)
      · exact .inr (.inr hr)
    · rintro (hb | ha | hr)
      · exact .inl (.inl hb)
      · exact .inl (.inr ha)
      · exact .inr hr

theorem foldl_keeps {α β γ : Type} (f : β → α → β) (g : β → γ) (h : ∀ b a, g (f b a) = g b)
    (l : List α) (b : β) : g (l.foldl f b) = g b := by
  induction l generalizing b with
  | nil => rfl
  | cons a as ih => simp only [List.foldl_cons, ih, h]

/-! ### the tables, read as sets -/

/-- value patterns registered for attribute `attr` on the explicitly named element `el` -/
def Policy.elemRules (p : Policy) (el attr : Bytes) : List AttrPolicy :=
  rulesOf (rulesOf p.elsAndAttrs el) attr

/-- value patterns registered for attribute `attr` globally -/
def Policy.globalRules (p : Policy) (attr : Bytes) : List AttrPolicy := rulesOf p.globalAttrs attr

/-- is `el` in the table of explicitly named elements? -/
def Policy.hasElem (p : Policy) (el : Bytes) : Prop := (p.elsAndAttrs.get? el).isSome = true

/-- style matchers registered for property `prop` on the explicitly named element `el` -/
def Policy.elemStyleRules (p : Policy) (el prop : Bytes) : List StylePolicy :=
  rulesOf (rulesOf p.elsAndStyles el) prop

/-- style matchers registered for property `prop` globally -/
def Policy.globalStyleRules (p : Policy) (prop : Bytes) : List StylePolicy := rulesOf p.globalStyles prop

/-! ### what one call contributes -/

/-- the element-scoped attribute rules a builder call contributes -/
def BuilderOp.addsElemRule (op : BuilderOp) (el attr : Bytes) (ap : AttrPolicy) : Prop :=
  match op with
  | .allowAttrs names re _ (.onElements els) =>
    el ∈ els.map toLowerName ∧ attr ∈ names.map toLowerName ∧ ap = re
  | _ => False

/-- the global attribute rules a builder call contributes -/
def BuilderOp.addsGlobalRule (op : BuilderOp) (attr : Bytes) (ap : AttrPolicy) : Prop :=
  match op with
  | .allowAttrs names re _ .globally => attr ∈ names.map toLowerName ∧ ap = re
  | _ => False

/-- the explicitly named elements a builder call contributes -/
def BuilderOp.addsElem (op : BuilderOp) (el : Bytes) : Prop :=
  match op with
  | .allowElements names => el ∈ names.map toLowerName
  | .allowAttrs names _ allowEmpty (.onElements els) =>
    el ∈ els.map toLowerName ∧ (names ≠ [] ∨ allowEmpty = true)
  | _ => False

/-- the element-scoped style rules a builder call contributes -/
def BuilderOp.addsElemStyle (dflt : Bytes → Bytes → Bool) (op : BuilderOp) (el prop : Bytes) (sp : StylePolicy) : Prop :=
  match op with
  | .allowStyles names m (.onElements els) =>
    el ∈ els.map toLowerName ∧ prop ∈ names.map toLowerName ∧ sp = mkStylePolicy dflt m prop
  | _ => False

/-- the global style rules a builder call contributes -/
def BuilderOp.addsGlobalStyle (dflt : Bytes → Bytes → Bool) (op : BuilderOp) (prop : Bytes) (sp : StylePolicy) : Prop :=
  match op with
  | .allowStyles names m .globally => prop ∈ names.map toLowerName ∧ sp = mkStylePolicy dflt m prop
  | _ => False

/-! ### one call -/

theorem ensureInit_of_init (p : Policy) (h : p.initialized = true) : p.ensureInit = p := by
  simp [Policy.ensureInit, h]

/-- one step of `attrsOnElement`'s loop over the attribute names -/
theorem elemRules_addStep (p : Policy) (e attr : Bytes) (re : AttrPolicy) (el attr' : Bytes) (x : AttrPolicy) :
    x ∈ ({ p with elsAndAttrs := p.elsAndAttrs.update e [] fun r => addAttrRule r attr re } : Policy).elemRules el attr' ↔
      x ∈ p.elemRules el attr' ∨ (el = e ∧ attr' = attr ∧ x = re) := by
  unfold Policy.elemRules
  simp only
  have h1 : rulesOf (p.elsAndAttrs.update e [] fun r => addAttrRule r attr re) el =
      if e = el then addAttrRule (rulesOf p.elsAndAttrs e) attr re else rulesOf p.elsAndAttrs el := by
    unfold rulesOf
    rw [Map.get?_update]
    by_cases h : e = el
    · subst h; simp
    · simp [h]
  rw [h1]
  by_cases he : e = el
  · subst he
    simp only [↓reduceIte, addAttrRule, rulesOf_add]
    by_cases ha : attr = attr'
    · subst ha; simp
    · have : ¬ attr' = attr := fun h => ha h.symm
      simp [ha, this]
  · have : ¬ el = e := fun h => he h.symm
    simp [he, this]

theorem elemRules_update_id (p : Policy) (e el attr : Bytes) :
    ({ p with elsAndAttrs := p.elsAndAttrs.update e [] id } : Policy).elemRules el attr = p.elemRules el attr := by
  unfold Policy.elemRules
  simp only
  congr 1
  exact rulesOf_update_id _ _ _

theorem elemRules_attrsOnElement (p : Policy) (names : List Bytes) (re : AttrPolicy) (ae : Bool) (e el attr : Bytes)
    (x : AttrPolicy) :
    x ∈ (attrsOnElement p names re ae e).elemRules el attr ↔
      x ∈ p.elemRules el attr ∨ (el = e ∧ attr ∈ names ∧ x = re) := by
  unfold attrsOnElement
  simp only
  have hfold := foldl_iff (fun (p : Policy) a => { p with elsAndAttrs := p.elsAndAttrs.update e [] fun r => addAttrRule r a re })
    (fun p => x ∈ p.elemRules el attr) (fun a => el = e ∧ attr = a ∧ x = re)
    (fun b a => elemRules_addStep b e a re el attr x) names p
  have hfold' : x ∈ (names.foldl (fun (p : Policy) a =>
        { p with elsAndAttrs := p.elsAndAttrs.update e [] fun r => addAttrRule r a re }) p).elemRules el attr ↔
      x ∈ p.elemRules el attr ∨ (el = e ∧ attr ∈ names ∧ x = re) := by
    rw [hfold]
    constructor
    · rintro (h | ⟨a, ha, h1, h2, h3⟩)
      · exact .inl h
      · exact .inr ⟨h1, h2 ▸ ha, h3⟩
    · rintro (h | ⟨h1, h2, h3⟩)
      · exact .inl h
      · exact .inr ⟨attr, h2, h1, rfl, h3⟩
  split
  · have := elemRules_update_id
      { (names.foldl (fun (p : Policy) a =>
          { p with elsAndAttrs := p.elsAndAttrs.update e [] fun r => addAttrRule r a re }) p) with
        setOfElementsAllowedWithoutAttrs := setInsert (names.foldl (fun (p : Policy) a =>
          { p with elsAndAttrs := p.elsAndAttrs.update e [] fun r => addAttrRule r a re }) p).setOfElementsAllowedWithoutAttrs e }
      e el attr
    simp only at this
    rw [this]
    exact hfold'
  · exact hfold'

/-! ### one builder call, every kind -/

theorem applyOp_init_eq (d : Bytes → Bytes → Bool) (p : Policy) (hi : p.initialized = true) (op : BuilderOp) :
    applyOp d p op = applyOpInit d p op := by
  unfold applyOp
  rw [ensureInit_of_init p hi]
  simp

theorem elemRules_congr {p q : Policy} (h : q.elsAndAttrs = p.elsAndAttrs) (el attr : Bytes) :
    q.elemRules el attr = p.elemRules el attr := by
  unfold Policy.elemRules; rw [h]

theorem foldl_elsAndAttrs {α : Type} (f : Policy → α → Policy) (h : ∀ b a, (f b a).elsAndAttrs = b.elsAndAttrs)
    (l : List α) (b : Policy) : (l.foldl f b).elsAndAttrs = b.elsAndAttrs :=
  foldl_keeps f (fun p : Policy => p.elsAndAttrs) h l b

theorem mem_map_lower (el : Bytes) (els : List Bytes) (Q : Prop) :
    (∃ e ∈ els, el = toLowerName e ∧ Q) ↔ el ∈ els.map toLowerName ∧ Q := by
  simp only [List.mem_map]
  constructor
  · rintro ⟨e, he, h1, h2⟩; exact ⟨⟨e, he, h1.symm⟩, h2⟩
  · rintro ⟨⟨e, he, h1⟩, h2⟩; exact ⟨e, he, h1.symm, h2⟩

/-- **element-scoped attribute rules, one call**: afterwards the table holds what it held plus
    what the call contributes -/
theorem elemRules_applyOpInit (d : Bytes → Bytes → Bool) (p : Policy) (op : BuilderOp) (el attr : Bytes) (x : AttrPolicy) :
    x ∈ (applyOpInit d p op).elemRules el attr ↔ x ∈ p.elemRules el attr ∨ op.addsElemRule el attr x := by
  cases op with
  | allowElements names =>
    simp only [applyOpInit, BuilderOp.addsElemRule, or_false]
    rw [foldl_keeps _ (fun p : Policy => p.elemRules el attr) (fun b a => elemRules_update_id b _ el attr)]
  | allowAttrs names re ae scope =>
    cases scope with
    | onElements els =>
      simp only [applyOpInit, BuilderOp.addsElemRule]
      rw [foldl_iff _ (fun p : Policy => x ∈ p.elemRules el attr)
        (fun e => el = toLowerName e ∧ attr ∈ names.map toLowerName ∧ x = re)
        (fun b a => elemRules_attrsOnElement b _ re ae _ el attr x)]
      rw [mem_map_lower]
    | onElementsMatching r =>
      simp only [applyOpInit, BuilderOp.addsElemRule, or_false]
      split <;> simp only [Policy.elemRules] <;> (rw [foldl_elsAndAttrs]; exact fun _ _ => rfl)
    | globally =>
      simp only [applyOpInit, BuilderOp.addsElemRule, or_false]
      simp only [Policy.elemRules]
      rw [foldl_elsAndAttrs]; exact fun _ _ => rfl
  | allowStyles names m scope =>
    cases scope with
    | onElements els =>
      simp only [applyOpInit, BuilderOp.addsElemRule, or_false]
      simp only [Policy.elemRules]
      rw [foldl_elsAndAttrs]
      intro b a
      rw [foldl_elsAndAttrs]; exact fun _ _ => rfl
    | onElementsMatching r =>
      simp only [applyOpInit, BuilderOp.addsElemRule, or_false]
      simp only [Policy.elemRules]
      rw [foldl_elsAndAttrs]; exact fun _ _ => rfl
    | globally =>
      simp only [applyOpInit, BuilderOp.addsElemRule, or_false]
      simp only [Policy.elemRules]
      rw [foldl_elsAndAttrs]; exact fun _ _ => rfl
  | allowURLSchemes schemes =>
    simp only [applyOpInit, BuilderOp.addsElemRule, or_false]
    simp only [Policy.elemRules]
    rw [foldl_elsAndAttrs]; exact fun _ _ => rfl
  | skipElementsContent names =>
    simp only [applyOpInit, BuilderOp.addsElemRule, or_false]
    simp only [Policy.elemRules]
    rw [foldl_elsAndAttrs]; exact fun _ _ => rfl
  | allowElementsContent names =>
    simp only [applyOpInit, BuilderOp.addsElemRule, or_false]
    simp only [Policy.elemRules]
    rw [foldl_elsAndAttrs]; exact fun _ _ => rfl
  | allowElementsMatching r =>
    simp only [applyOpInit, BuilderOp.addsElemRule, or_false]
    split <;> exact Iff.rfl
  | _ => simp only [applyOpInit, BuilderOp.addsElemRule, or_false]; exact Iff.rfl

/-! ### the other tables -/

theorem nested_add {α : Type} (M : Map Bytes (Map Bytes (List α))) (e k : Bytes) (v : α) (el k' : Bytes) (x : α) :
    x ∈ rulesOf (rulesOf (M.update e [] fun r => Map.update r k [] (· ++ [v])) el) k' ↔
      x ∈ rulesOf (rulesOf M el) k' ∨ (el = e ∧ k' = k ∧ x = v) := by
  have h1 : rulesOf (M.update e [] fun r => Map.update r k [] (· ++ [v])) el =
      if e = el then Map.update (rulesOf M e) k [] (· ++ [v]) else rulesOf M el := by
    unfold rulesOf
    rw [Map.get?_update]
    by_cases h : e = el
    · subst h; simp
    · simp [h]
  rw [h1]
  by_cases he : e = el
  · subst he
    simp only [↓reduceIte, rulesOf_add]
    by_cases ha : k = k'
    · subst ha; simp
    · have : ¬ k' = k := fun h => ha h.symm
      simp [ha, this]
  · have : ¬ el = e := fun h => he h.symm
    simp [he, this]

theorem flat_add {α : Type} (m : Map Bytes (List α)) (k : Bytes) (v : α) (k' : Bytes) (x : α) :
    x ∈ rulesOf (m.update k [] (· ++ [v])) k' ↔ x ∈ rulesOf m k' ∨ (k' = k ∧ x = v) := by
  rw [rulesOf_add]
  by_cases ha : k = k'
  · subst ha; simp
  · have : ¬ k' = k := fun h => ha h.symm
    simp [ha, this]

theorem foldl_globalAttrs {α : Type} (f : Policy → α → Policy) (h : ∀ b a, (f b a).globalAttrs = b.globalAttrs)
    (l : List α) (b : Policy) : (l.foldl f b).globalAttrs = b.globalAttrs :=
  foldl_keeps f (fun p : Policy => p.globalAttrs) h l b

theorem foldl_elsAndStyles {α : Type} (f : Policy → α → Policy) (h : ∀ b a, (f b a).elsAndStyles = b.elsAndStyles)
    (l : List α) (b : Policy) : (l.foldl f b).elsAndStyles = b.elsAndStyles :=
  foldl_keeps f (fun p : Policy => p.elsAndStyles) h l b

theorem foldl_globalStyles {α : Type} (f : Policy → α → Policy) (h : ∀ b a, (f b a).globalStyles = b.globalStyles)
    (l : List α) (b : Policy) : (l.foldl f b).globalStyles = b.globalStyles :=
  foldl_keeps f (fun p : Policy => p.globalStyles) h l b

theorem attrsOnElement_globalAttrs (p : Policy) (names : List Bytes) (re : AttrPolicy) (ae : Bool) (e : Bytes) :
    (attrsOnElement p names re ae e).globalAttrs = p.globalAttrs := by
  unfold attrsOnElement
  simp only
  split
  · simp only; rw [foldl_globalAttrs]; exact fun _ _ => rfl
  · rw [foldl_globalAttrs]; exact fun _ _ => rfl

theorem attrsOnElement_elsAndStyles (p : Policy) (names : List Bytes) (re : AttrPolicy) (ae : Bool) (e : Bytes) :
    (attrsOnElement p names re ae e).elsAndStyles = p.elsAndStyles := by
  unfold attrsOnElement
  simp only
  split
  · simp only; rw [foldl_elsAndStyles]; exact fun _ _ => rfl
  · rw [foldl_elsAndStyles]; exact fun _ _ => rfl

theorem attrsOnElement_globalStyles (p : Policy) (names : List Bytes) (re : AttrPolicy) (ae : Bool) (e : Bytes) :
    (attrsOnElement p names re ae e).globalStyles = p.globalStyles := by
  unfold attrsOnElement
  simp only
  split
  · simp only; rw [foldl_globalStyles]; exact fun _ _ => rfl
  · rw [foldl_globalStyles]; exact fun _ _ => rfl

/-- **global attribute rules, one call** -/
theorem globalRules_applyOpInit (d : Bytes → Bytes → Bool) (p : Policy) (op : BuilderOp) (attr : Bytes) (x : AttrPolicy) :
    x ∈ (applyOpInit d p op).globalRules attr ↔ x ∈ p.globalRules attr ∨ op.addsGlobalRule attr x := by
  cases op with
  | allowElements names =>
    simp only [applyOpInit, BuilderOp.addsGlobalRule, or_false, Policy.globalRules]
    rw [foldl_globalAttrs]; exact fun _ _ => rfl
  | allowAttrs names re ae scope =>
    cases scope with
    | onElements els =>
      simp only [applyOpInit, BuilderOp.addsGlobalRule, or_false, Policy.globalRules]
      rw [foldl_globalAttrs]; exact fun b a => attrsOnElement_globalAttrs b _ _ _ _
    | onElementsMatching r =>
      simp only [applyOpInit, BuilderOp.addsGlobalRule, or_false]
      split <;> simp only [Policy.globalRules] <;> (rw [foldl_globalAttrs]; exact fun _ _ => rfl)
    | globally =>
      simp only [applyOpInit, BuilderOp.addsGlobalRule]
      rw [foldl_iff _ (fun p : Policy => x ∈ p.globalRules attr) (fun a => attr = a ∧ x = re)
        (fun b a => by
          simp only [Policy.globalRules, addAttrRule]
          exact flat_add _ _ _ _ _)]
      constructor
      · rintro (h | ⟨a, ha, h1, h2⟩)
        · exact .inl h
        · exact .inr ⟨h1 ▸ ha, h2⟩
      · rintro (h | ⟨h1, h2⟩)
        · exact .inl h
        · exact .inr ⟨attr, h1, rfl, h2⟩
  | allowStyles names m scope =>
    cases scope with
    | onElements els =>
      simp only [applyOpInit, BuilderOp.addsGlobalRule, or_false, Policy.globalRules]
      rw [foldl_globalAttrs]
      intro b a
      rw [foldl_globalAttrs]; exact fun _ _ => rfl
    | onElementsMatching r =>
      simp only [applyOpInit, BuilderOp.addsGlobalRule, or_false, Policy.globalRules]
      rw [foldl_globalAttrs]; exact fun _ _ => rfl
    | globally =>
      simp only [applyOpInit, BuilderOp.addsGlobalRule, or_false, Policy.globalRules]
      rw [foldl_globalAttrs]; exact fun _ _ => rfl
  | allowURLSchemes schemes =>
    simp only [applyOpInit, BuilderOp.addsGlobalRule, or_false, Policy.globalRules]
    rw [foldl_globalAttrs]; exact fun _ _ => rfl
  | skipElementsContent names =>
    simp only [applyOpInit, BuilderOp.addsGlobalRule, or_false, Policy.globalRules]
    rw [foldl_globalAttrs]; exact fun _ _ => rfl
  | allowElementsContent names =>
    simp only [applyOpInit, BuilderOp.addsGlobalRule, or_false, Policy.globalRules]
    rw [foldl_globalAttrs]; exact fun _ _ => rfl
  | allowElementsMatching r =>
    simp only [applyOpInit, BuilderOp.addsGlobalRule, or_false]
    split <;> exact Iff.rfl
  | _ => simp only [applyOpInit, BuilderOp.addsGlobalRule, or_false]; exact Iff.rfl

/-! ### style rules -/

theorem elemStyle_step (dflt : Bytes → Bytes → Bool) (m : StyleMatcher) (names : List Bytes) (p : Policy) (e el prop : Bytes)
    (x : StylePolicy) :
    x ∈ (names.foldl (fun (p : Policy) pr =>
        { p with elsAndStyles := p.elsAndStyles.update e [] fun r => addStyleRule r pr (mkStylePolicy dflt m pr) }) p).elemStyleRules el prop ↔
      x ∈ p.elemStyleRules el prop ∨ (el = e ∧ prop ∈ names ∧ x = mkStylePolicy dflt m prop) := by
  rw [foldl_iff _ (fun p : Policy => x ∈ p.elemStyleRules el prop)
    (fun pr => el = e ∧ prop = pr ∧ x = mkStylePolicy dflt m pr)
    (fun b a => by
      simp only [Policy.elemStyleRules, addStyleRule]
      exact nested_add _ _ _ _ _ _ _)]
  constructor
  · rintro (h | ⟨a, ha, h1, h2, h3⟩)
    · exact .inl h
    · subst h2; exact .inr ⟨h1, ha, h3⟩
  · rintro (h | ⟨h1, h2, h3⟩)
    · exact .inl h
    · exact .inr ⟨prop, h2, h1, rfl, h3⟩

/-- **element-scoped style rules, one call** -/
theorem elemStyleRules_applyOpInit (d : Bytes → Bytes → Bool) (p : Policy) (op : BuilderOp) (el prop : Bytes) (x : StylePolicy) :
    x ∈ (applyOpInit d p op).elemStyleRules el prop ↔ x ∈ p.elemStyleRules el prop ∨ op.addsElemStyle d el prop x := by
  cases op with
  | allowElements names =>
    simp only [applyOpInit, BuilderOp.addsElemStyle, or_false, Policy.elemStyleRules]
    rw [foldl_elsAndStyles]; exact fun _ _ => rfl
  | allowAttrs names re ae scope =>
    cases scope with
    | onElements els =>
      simp only [applyOpInit, BuilderOp.addsElemStyle, or_false, Policy.elemStyleRules]
      rw [foldl_elsAndStyles]; exact fun b a => attrsOnElement_elsAndStyles b _ _ _ _
    | onElementsMatching r =>
      simp only [applyOpInit, BuilderOp.addsElemStyle, or_false]
      split <;> simp only [Policy.elemStyleRules] <;> (rw [foldl_elsAndStyles]; exact fun _ _ => rfl)
    | globally =>
      simp only [applyOpInit, BuilderOp.addsElemStyle, or_false, Policy.elemStyleRules]
      rw [foldl_elsAndStyles]; exact fun _ _ => rfl
  | allowStyles names m scope =>
    cases scope with
    | onElements els =>
      simp only [applyOpInit, BuilderOp.addsElemStyle]
      rw [foldl_iff _ (fun p : Policy => x ∈ p.elemStyleRules el prop)
        (fun e => el = toLowerName e ∧ prop ∈ names.map toLowerName ∧ x = mkStylePolicy d m prop)
        (fun b a => elemStyle_step d m _ b _ el prop x)]
      rw [mem_map_lower]
    | onElementsMatching r =>
      simp only [applyOpInit, BuilderOp.addsElemStyle, or_false, Policy.elemStyleRules]
      rw [foldl_elsAndStyles]; exact fun _ _ => rfl
    | globally =>
      simp only [applyOpInit, BuilderOp.addsElemStyle, or_false, Policy.elemStyleRules]
      rw [foldl_elsAndStyles]; exact fun _ _ => rfl
  | allowURLSchemes schemes =>
    simp only [applyOpInit, BuilderOp.addsElemStyle, or_false, Policy.elemStyleRules]
    rw [foldl_elsAndStyles]; exact fun _ _ => rfl
  | skipElementsContent names =>
    simp only [applyOpInit, BuilderOp.addsElemStyle, or_false, Policy.elemStyleRules]
    rw [foldl_elsAndStyles]; exact fun _ _ => rfl
  | allowElementsContent names =>
    simp only [applyOpInit, BuilderOp.addsElemStyle, or_false, Policy.elemStyleRules]
    rw [foldl_elsAndStyles]; exact fun _ _ => rfl
  | allowElementsMatching r =>
    simp only [applyOpInit, BuilderOp.addsElemStyle, or_false]
    split <;> exact Iff.rfl
  | _ => simp only [applyOpInit, BuilderOp.addsElemStyle, or_false]; exact Iff.rfl

/-- **global style rules, one call** -/
theorem globalStyleRules_applyOpInit (d : Bytes → Bytes → Bool) (p : Policy) (op : BuilderOp) (prop : Bytes) (x : StylePolicy) :
    x ∈ (applyOpInit d p op).globalStyleRules prop ↔ x ∈ p.globalStyleRules prop ∨ op.addsGlobalStyle d prop x := by
  cases op with
  | allowElements names =>
    simp only [applyOpInit, BuilderOp.addsGlobalStyle, or_false, Policy.globalStyleRules]
    rw [foldl_globalStyles]; exact fun _ _ => rfl
  | allowAttrs names re ae scope =>
    cases scope with
    | onElements els =>
      simp only [applyOpInit, BuilderOp.addsGlobalStyle, or_false, Policy.globalStyleRules]
      rw [foldl_globalStyles]; exact fun b a => attrsOnElement_globalStyles b _ _ _ _
    | onElementsMatching r =>
      simp only [applyOpInit, BuilderOp.addsGlobalStyle, or_false]
      split <;> simp only [Policy.globalStyleRules] <;> (rw [foldl_globalStyles]; exact fun _ _ => rfl)
    | globally =>
      simp only [applyOpInit, BuilderOp.addsGlobalStyle, or_false, Policy.globalStyleRules]
      rw [foldl_globalStyles]; exact fun _ _ => rfl
  | allowStyles names m scope =>
    cases scope with
    | onElements els =>
      simp only [applyOpInit, BuilderOp.addsGlobalStyle, or_false, Policy.globalStyleRules]
      rw [foldl_globalStyles]
      intro b a
      rw [foldl_globalStyles]; exact fun _ _ => rfl
    | onElementsMatching r =>
      simp only [applyOpInit, BuilderOp.addsGlobalStyle, or_false, Policy.globalStyleRules]
      rw [foldl_globalStyles]; exact fun _ _ => rfl
    | globally =>
      simp only [applyOpInit, BuilderOp.addsGlobalStyle]
      rw [foldl_iff _ (fun p : Policy => x ∈ p.globalStyleRules prop) (fun a => prop = a ∧ x = mkStylePolicy d m a)
        (fun b a => by
          simp only [Policy.globalStyleRules, addStyleRule]
          exact flat_add _ _ _ _ _)]
      constructor
      · rintro (h | ⟨a, ha, h1, h2⟩)
        · exact .inl h
        · subst h1; exact .inr ⟨ha, h2⟩
      · rintro (h | ⟨h1, h2⟩)
        · exact .inl h
        · exact .inr ⟨prop, h1, rfl, h2⟩
  | allowURLSchemes schemes =>
    simp only [applyOpInit, BuilderOp.addsGlobalStyle, or_false, Policy.globalStyleRules]
    rw [foldl_globalStyles]; exact fun _ _ => rfl
  | skipElementsContent names =>
    simp only [applyOpInit, BuilderOp.addsGlobalStyle, or_false, Policy.globalStyleRules]
    rw [foldl_globalStyles]; exact fun _ _ => rfl
  | allowElementsContent names =>
    simp only [applyOpInit, BuilderOp.addsGlobalStyle, or_false, Policy.globalStyleRules]
    rw [foldl_globalStyles]; exact fun _ _ => rfl
  | allowElementsMatching r =>
    simp only [applyOpInit, BuilderOp.addsGlobalStyle, or_false]
    split <;> exact Iff.rfl
  | _ => simp only [applyOpInit, BuilderOp.addsGlobalStyle, or_false]; exact Iff.rfl

/-! ### the table of explicitly named elements -/

theorem isSome_update {ν : Type} (m : Map Bytes ν) (e el : Bytes) (dflt : ν) (f : ν → ν) :
    ((m.update e dflt f).get? el).isSome = true ↔ (m.get? el).isSome = true ∨ el = e := by
  rw [Map.get?_update]
  by_cases h : e = el
  · subst h; simp
  · have : ¬ el = e := fun h' => h h'.symm
    simp [h, this]

theorem hasElem_attrsOnElement (p : Policy) (names : List Bytes) (re : AttrPolicy) (ae : Bool) (e el : Bytes) :
    (attrsOnElement p names re ae e).hasElem el ↔ p.hasElem el ∨ (el = e ∧ (names ≠ [] ∨ ae = true)) := by
  unfold attrsOnElement
  simp only
  have hfold : (names.foldl (fun (p : Policy) a =>
        { p with elsAndAttrs := p.elsAndAttrs.update e [] fun r => addAttrRule r a re }) p).hasElem el ↔
      p.hasElem el ∨ (el = e ∧ names ≠ []) := by
    rw [foldl_iff _ (fun p : Policy => p.hasElem el) (fun _ => el = e)
      (fun b a => by simp only [Policy.hasElem]; exact isSome_update _ _ _ _ _)]
    cases names with
    | nil => simp
    | cons n ns => simp
  split
  · rename_i hae
    simp only [Policy.hasElem] at hfold ⊢
    rw [isSome_update, hfold]
    simp only [hae, or_true, and_true]
    constructor
    · rintro ((h | ⟨h, _⟩) | h)
      · exact .inl h
      · exact .inr h
      · exact .inr h
    · rintro (h | h)
      · exact .inl (.inl h)
      · exact .inr h
  · rename_i hae
    rw [hfold]
    simp [hae]

theorem hasElem_applyOpInit (d : Bytes → Bytes → Bool) (p : Policy) (op : BuilderOp) (el : Bytes) :
    (applyOpInit d p op).hasElem el ↔ p.hasElem el ∨ op.addsElem el := by
  cases op with
  | allowElements names =>
    simp only [applyOpInit, BuilderOp.addsElem]
    rw [foldl_iff _ (fun p : Policy => p.hasElem el) (fun n => el = toLowerName n)
      (fun b a => by simp only [Policy.hasElem]; exact isSome_update _ _ _ _ _)]
    simp only [List.mem_map]
    constructor
    · rintro (h | ⟨a, ha, h1⟩)
      · exact .inl h
      · exact .inr ⟨a, ha, h1.symm⟩
    · rintro (h | ⟨a, ha, h1⟩)
      · exact .inl h
      · exact .inr ⟨a, ha, h1.symm⟩
  | allowAttrs names re ae scope =>
    cases scope with
    | onElements els =>
      simp only [applyOpInit, BuilderOp.addsElem]
      rw [foldl_iff _ (fun p : Policy => p.hasElem el)
        (fun e => el = toLowerName e ∧ (names.map toLowerName ≠ [] ∨ ae = true))
        (fun b a => hasElem_attrsOnElement b _ re ae _ el)]
      rw [mem_map_lower]
      have : names.map toLowerName ≠ [] ↔ names ≠ [] := by cases names <;> simp
      rw [this]
    | onElementsMatching r =>
      simp only [applyOpInit, BuilderOp.addsElem, or_false]
      split <;> simp only [Policy.hasElem] <;> (rw [foldl_elsAndAttrs]; exact fun _ _ => rfl)
    | globally =>
      simp only [applyOpInit, BuilderOp.addsElem, or_false, Policy.hasElem]
      rw [foldl_elsAndAttrs]; exact fun _ _ => rfl
  | allowStyles names m scope =>
    cases scope with
    | onElements els =>
      simp only [applyOpInit, BuilderOp.addsElem, or_false, Policy.hasElem]
      rw [foldl_elsAndAttrs]
      intro b a
      rw [foldl_elsAndAttrs]; exact fun _ _ => rfl
    | onElementsMatching r =>
      simp only [applyOpInit, BuilderOp.addsElem, or_false, Policy.hasElem]
      rw [foldl_elsAndAttrs]; exact fun _ _ => rfl
    | globally =>
      simp only [applyOpInit, BuilderOp.addsElem, or_false, Policy.hasElem]
      rw [foldl_elsAndAttrs]; exact fun _ _ => rfl
  | allowURLSchemes schemes =>
    simp only [applyOpInit, BuilderOp.addsElem, or_false, Policy.hasElem]
    rw [foldl_elsAndAttrs]; exact fun _ _ => rfl
  | skipElementsContent names =>
    simp only [applyOpInit, BuilderOp.addsElem, or_false, Policy.hasElem]
    rw [foldl_elsAndAttrs]; exact fun _ _ => rfl
  | allowElementsContent names =>
    simp only [applyOpInit, BuilderOp.addsElem, or_false, Policy.hasElem]
    rw [foldl_elsAndAttrs]; exact fun _ _ => rfl
  | allowElementsMatching r =>
    simp only [applyOpInit, BuilderOp.addsElem, or_false]
    split <;> exact Iff.rfl
  | _ => simp only [applyOpInit, BuilderOp.addsElem, or_false]; exact Iff.rfl

/-! ### initialisation is kept -/

theorem foldl_initialized {α : Type} (f : Policy → α → Policy) (h : ∀ b a, (f b a).initialized = b.initialized)
    (l : List α) (b : Policy) : (l.foldl f b).initialized = b.initialized :=
  foldl_keeps f (fun p : Policy => p.initialized) h l b

theorem attrsOnElement_initialized (p : Policy) (names : List Bytes) (re : AttrPolicy) (ae : Bool) (e : Bytes) :
    (attrsOnElement p names re ae e).initialized = p.initialized := by
  unfold attrsOnElement
  simp only
  split
  · simp only; rw [foldl_initialized]; exact fun _ _ => rfl
  · rw [foldl_initialized]; exact fun _ _ => rfl

theorem applyOpInit_initialized (d : Bytes → Bytes → Bool) (p : Policy) (op : BuilderOp) :
    (applyOpInit d p op).initialized = p.initialized := by
  cases op with
  | allowElements names =>
    simp only [applyOpInit]; rw [foldl_initialized]; exact fun _ _ => rfl
  | allowAttrs names re ae scope =>
    cases scope with
    | onElements els =>
      simp only [applyOpInit]; rw [foldl_initialized]; exact fun b a => attrsOnElement_initialized b _ _ _ _
    | onElementsMatching r =>
      simp only [applyOpInit]
      split <;> (try simp only) <;> (rw [foldl_initialized]; exact fun _ _ => rfl)
    | globally =>
      simp only [applyOpInit]; rw [foldl_initialized]; exact fun _ _ => rfl
  | allowStyles names m scope =>
    cases scope with
    | onElements els =>
      simp only [applyOpInit]; rw [foldl_initialized]
      intro b a
      rw [foldl_initialized]; exact fun _ _ => rfl
    | onElementsMatching r =>
      simp only [applyOpInit]; rw [foldl_initialized]; exact fun _ _ => rfl
    | globally =>
      simp only [applyOpInit]; rw [foldl_initialized]; exact fun _ _ => rfl
  | allowURLSchemes schemes =>
    simp only [applyOpInit]; rw [foldl_initialized]; exact fun _ _ => rfl
  | skipElementsContent names =>
    simp only [applyOpInit]; rw [foldl_initialized]; exact fun _ _ => rfl
  | allowElementsContent names =>
    simp only [applyOpInit]; rw [foldl_initialized]; exact fun _ _ => rfl
  | allowElementsMatching r =>
    simp only [applyOpInit]
    split <;> rfl
  | _ => rfl

theorem applyOp_initialized (d : Bytes → Bytes → Bool) (p : Policy) (hi : p.initialized = true) (op : BuilderOp) :
    (applyOp d p op).initialized = true := by
  rw [applyOp_init_eq d p hi, applyOpInit_initialized]; exact hi

/-! ### whole histories -/

/-- **the tables after any history of builder calls on an initialised policy** (`NewPolicy()`
    and everything built from it): each table holds what it held at the start plus what the
    calls of the history contribute.  The right-hand sides mention the history only through
    `∃ op ∈ ops`, so they are the same for every ordering of the same calls. -/
theorem rules_applyOps (d : Bytes → Bytes → Bool) (p : Policy) (hi : p.initialized = true) (ops : List BuilderOp) :
    (∀ el attr x, x ∈ (applyOps d p ops).elemRules el attr ↔
        x ∈ p.elemRules el attr ∨ ∃ op ∈ ops, op.addsElemRule el attr x) ∧
    (∀ attr x, x ∈ (applyOps d p ops).globalRules attr ↔
        x ∈ p.globalRules attr ∨ ∃ op ∈ ops, op.addsGlobalRule attr x) ∧
    (∀ el, (applyOps d p ops).hasElem el ↔ p.hasElem el ∨ ∃ op ∈ ops, op.addsElem el) ∧
    (∀ el prop x, x ∈ (applyOps d p ops).elemStyleRules el prop ↔
        x ∈ p.elemStyleRules el prop ∨ ∃ op ∈ ops, op.addsElemStyle d el prop x) ∧
    (∀ prop x, x ∈ (applyOps d p ops).globalStyleRules prop ↔
        x ∈ p.globalStyleRules prop ∨ ∃ op ∈ ops, op.addsGlobalStyle d prop x) := by
  have hinv : ∀ (b : Policy) (a : BuilderOp), b.initialized = true → (applyOp d b a).initialized = true :=
    fun b a hb => applyOp_initialized d b hb a
  refine ⟨?_, ?_, ?_, ?_, ?_⟩
  · intro el attr x
    exact foldl_iff_inv (applyOp d) (fun p => p.initialized = true) (fun p => x ∈ p.elemRules el attr)
      (fun op => op.addsElemRule el attr x) hinv
      (fun b a hb => by rw [applyOp_init_eq d b hb]; exact elemRules_applyOpInit d b a el attr x) ops p hi
  · intro attr x
    exact foldl_iff_inv (applyOp d) (fun p => p.initialized = true) (fun p => x ∈ p.globalRules attr)
      (fun op => op.addsGlobalRule attr x) hinv
      (fun b a hb => by rw [applyOp_init_eq d b hb]; exact globalRules_applyOpInit d b a attr x) ops p hi
  · intro el
    exact foldl_iff_inv (applyOp d) (fun p => p.initialized = true) (fun p => p.hasElem el)
      (fun op => op.addsElem el) hinv
      (fun b a hb => by rw [applyOp_init_eq d b hb]; exact hasElem_applyOpInit d b a el) ops p hi
  · intro el prop x
    exact foldl_iff_inv (applyOp d) (fun p => p.initialized = true) (fun p => x ∈ p.elemStyleRules el prop)
      (fun op => op.addsElemStyle d el prop x) hinv
      (fun b a hb => by rw [applyOp_init_eq d b hb]; exact elemStyleRules_applyOpInit d b a el prop x) ops p hi
  · intro prop x
    exact foldl_iff_inv (applyOp d) (fun p => p.initialized = true) (fun p => x ∈ p.globalStyleRules prop)
      (fun op => op.addsGlobalStyle d prop x) hinv
      (fun b a hb => by rw [applyOp_init_eq d b hb]; exact globalStyleRules_applyOpInit d b a prop x) ops p hi

end BM
