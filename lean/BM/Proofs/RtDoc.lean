import BM.Html
import BM.Proofs.Escape
import BM.Proofs.RoundTrip
import BM.Proofs.RtTag
/-
  Render/tokenize round trip, document level (RT of DESIGN §10).

  A *plain* token list — texts, and start / end / self-closing tags with well-formed names and
  attributes, none of them opening a raw-text element — is read back by the tokenizer from its
  serialisation exactly, up to the merging of adjacent texts (`coalesce`).  This is what lifts
  the event-level theorems about the sanitiser's writes to statements about the bytes it
  returns.
-/
namespace BM.Html

/-- a token the round trip covers -/
def SegOK (t : Token) : Prop :=
  match t.tt with
  | .text => True
  | .start => NameOK' t.data ∧ isRawTagName t.data = false ∧ ∀ a ∈ t.attrs, AttrOK a
  | .selfClosing => NameOK' t.data ∧ isRawTagName t.data = false ∧ ∀ a ∈ t.attrs, AttrOK a
  | .end_ => NameOK' t.data ∧ t.attrs = []
  | .comment => False
  | .doctype => False

def renderAll : List Token → Bytes
  | [] => []
  | t :: ts => t.render ++ renderAll ts

/-- the pending text `d`, if any, as a token -/
def flushText (d : Bytes) : List Token := if d.isEmpty then [] else [⟨.text, d, []⟩]

/-- what the tokenizer makes of a token list: adjacent texts are one text, empty texts vanish -/
def coalesce : Bytes → List Token → List Token
  | d, [] => flushText d
  | d, t :: ts =>
    if t.tt == .text then coalesce (d ++ t.data) ts
    else flushText d ++ t :: coalesce [] ts

theorem renderAll_append (a b : List Token) : renderAll (a ++ b) = renderAll a ++ renderAll b := by
  induction a with
  | nil => rfl
  | cons t ts ih => simp [renderAll, ih, List.append_assoc]

/-! ### text followed by markup -/

theorem scanText_noLt_then (e m : Bytes) (he : ∀ c ∈ e, c ≠ 60) (hm : m = [] ∨ isMarkupStart m = true) :
    scanText (e ++ m) = (e, m) := by
  induction e with
  | nil =>
    rcases hm with rfl | hm
    · rfl
    · cases m with
      | nil => rfl
      | cons c cs => simp [scanText, hm]
  | cons c cs ih =>
    have hc : c ≠ 60 := he c (by simp)
    have hms : isMarkupStart (c :: (cs ++ m)) = false := by
      cases h : cs ++ m with
      | nil => rfl
      | cons d ds => simp [isMarkupStart, hc]
    have := ih (fun x hx => he x (by simp [hx]))
    simp [scanText, hms, this]

/-- a non-empty escaped text in front of markup (or at the end) is one text token -/
theorem next_text (d m : Bytes) (hd : d ≠ []) (hm : m = [] ∨ isMarkupStart m = true) :
    next [] (escape d ++ m) = some (⟨.text, d, []⟩, [], m) := by
  have hne : escape d ≠ [] := fun h => hd ((escape_nil_iff d).mp h)
  have hlt : ∀ c ∈ escape d, c ≠ 60 := fun c hc => (escape_no_special d c hc).1
  have he : (escape d ++ m).isEmpty = false := by
    cases h : escape d with
    | nil => exact absurd h hne
    | cons c cs => rfl
  have he2 : (escape d).isEmpty = false := by
    cases h : escape d with
    | nil => exact absurd h hne
    | cons c cs => rfl
  unfold next
  simp only [he, Bool.false_eq_true, ↓reduceIte, List.isEmpty_nil, scanText_noLt_then _ _ hlt hm]
  simp [he2, textData, convertNewlines_escape, unescape_escape]

/-! ### tags -/

theorem take_sub_length (x y : Bytes) : (x ++ y).take ((x ++ y).length - y.length) = x := by
  simp

theorem isAlpha_of_lower {c : UInt8} (h : isLowerA c = true) : isAlpha c = true := by
  simp [isAlpha, h]

theorem nameOK_lower (n : Bytes) (hn : NameOK' n) : lowerAscii n = n := by
  obtain ⟨c, cs, rfl, hc, hcs⟩ := hn
  apply lowerAscii_id
  intro x hx
  simp only [List.mem_cons] at hx
  rcases hx with rfl | hx
  · revert hc; simp only [isLowerA, isUpper]; intro hc
    simp only [Bool.and_eq_true, decide_eq_true_eq] at hc
    simp only [Bool.and_eq_false_iff, decide_eq_false_iff_not, UInt8.not_le]
    right
    exact UInt8.lt_of_lt_of_le (by decide) hc.1
  · have := hcs x hx
    simp only [nameByte, Bool.and_eq_true, Bool.not_eq_true'] at this
    exact this.2


theorem nameOK_head (n : Bytes) (hn : NameOK' n) : ∃ c cs, n = c :: cs ∧ isAlpha c = true := by
  obtain ⟨c, cs, rfl, hc, _⟩ := hn
  exact ⟨c, cs, rfl, isAlpha_of_lower hc⟩

theorem nameOK_last_ne47 (n : Bytes) (hn : NameOK' n) : ∀ x ∈ n, x ≠ 47 := by
  obtain ⟨c, cs, rfl, hc, hcs⟩ := hn
  intro x hx
  simp only [List.mem_cons] at hx
  rcases hx with rfl | hx
  · intro h; subst h; revert hc; decide
  · have := hcs x hx
    simp only [nameByte, Bool.and_eq_true, Bool.not_eq_true', bne_iff_ne, ne_eq] at this
    exact this.1.1.2

/-- the rendering of a non-empty attribute list ends with a quote -/
theorem renderAttrs_ends_quote (a : Attr) (as : List Attr) : ∃ pre, renderAttrs (a :: as) = pre ++ [34] := by
  induction as generalizing a with
  | nil => exact ⟨32 :: a.key ++ b!"=\"" ++ escape a.val, by simp [renderAttrs]⟩
  | cons b bs ih =>
    obtain ⟨pre, hpre⟩ := ih b
    exact ⟨32 :: a.key ++ b!"=\"" ++ escape a.val ++ 34 :: pre, by
      rw [renderAttrs, hpre]; simp [List.append_assoc]⟩

/-- the byte before the final `>` of `name attrs>` is not `/` -/
theorem endsSelfClosing_start (n : Bytes) (hn : NameOK' n) (as : List Attr) :
    endsSelfClosing (n ++ (renderAttrs as ++ [62])) = false := by
  have hrev : (n ++ (renderAttrs as ++ [62])).reverse = 62 :: ((renderAttrs as).reverse ++ n.reverse) := by
    simp
  unfold endsSelfClosing
  rw [hrev]
  cases as with
  | nil =>
    obtain ⟨c, cs, rfl, hc, hcs⟩ := hn
    have hlast := nameOK_last_ne47 (c :: cs) ⟨c, cs, rfl, hc, hcs⟩
    simp only [renderAttrs, List.reverse_nil, List.nil_append]
    cases hr : (c :: cs).reverse with
    | nil => simp at hr
    | cons x xs =>
      have : x ∈ (c :: cs) := by
        have : x ∈ (c :: cs).reverse := by rw [hr]; simp
        exact List.mem_reverse.mp this
      simpa using hlast x this
  | cons a as' =>
    -- the rendering of a non-empty attribute list ends with a quote
    obtain ⟨pre, hpre⟩ := renderAttrs_ends_quote a as'
    rw [hpre]
    simp

theorem endsSelfClosing_self (n : Bytes) (as : List Attr) :
    endsSelfClosing (n ++ (renderAttrs as ++ [47, 62])) = true := by
  have hrev : (n ++ (renderAttrs as ++ [47, 62])).reverse = 62 :: 47 :: ((renderAttrs as).reverse ++ n.reverse) := by
    simp
  unfold endsSelfClosing
  rw [hrev]
  simp

theorem isMarkupStart_tag (c : UInt8) (r : Bytes) (h : isAlpha c = true ∨ c = 47) :
    isMarkupStart (60 :: c :: r) = true := by
  rcases h with h | h
  · simp [isMarkupStart, h]
  · subst h; simp [isMarkupStart]

theorem scanText_markup (m : Bytes) (h : isMarkupStart m = true) : scanText m = ([], m) := by
  cases m with
  | nil => rfl
  | cons c cs => simp [scanText, h]

/-- the tokenizer reads a rendered start tag back -/
theorem next_start (n : Bytes) (hn : NameOK' n) (hraw : isRawTagName n = false) (as : List Attr)
    (hok : ∀ a ∈ as, AttrOK a) (rest : Bytes) :
    next [] (60 :: (n ++ (renderAttrs as ++ 62 :: rest))) = some (⟨.start, n, as⟩, [], rest) := by
  obtain ⟨c, cs, hn', hc⟩ := nameOK_head n hn
  have hrt := readTag_rendered n hn as hok (term := 62 :: rest) (rest := rest) (.inl rfl)
  have hcons : (n ++ (renderAttrs as ++ 62 :: rest)).take ((n ++ (renderAttrs as ++ 62 :: rest)).length - rest.length) =
      n ++ (renderAttrs as ++ [62]) := by
    have : n ++ (renderAttrs as ++ 62 :: rest) = (n ++ (renderAttrs as ++ [62])) ++ rest := by simp
    rw [this]; exact take_sub_length _ _
  have hsc := endsSelfClosing_start n hn as
  have hms : isMarkupStart (60 :: (n ++ (renderAttrs as ++ 62 :: rest))) = true := by
    rw [hn']; exact isMarkupStart_tag c _ (.inl hc)
  unfold next
  simp only [List.isEmpty_cons, Bool.false_eq_true, ↓reduceIte, List.isEmpty_nil, scanText_markup _ hms,
    Bool.not_true]
  rw [hn'] at hrt hcons hsc ⊢
  simp only [List.cons_append] at hrt hcons hsc ⊢
  simp only [hc, ↓reduceIte, hrt, hcons, hsc]
  have hl := nameOK_lower n hn
  rw [hn'] at hl hraw
  simp [hl, hraw, decodeAttrs_raw as hok]

/-- the tokenizer reads a rendered self-closing tag back -/
theorem next_self (n : Bytes) (hn : NameOK' n) (hraw : isRawTagName n = false) (as : List Attr)
    (hok : ∀ a ∈ as, AttrOK a) (rest : Bytes) :
    next [] (60 :: (n ++ (renderAttrs as ++ 47 :: 62 :: rest))) = some (⟨.selfClosing, n, as⟩, [], rest) := by
  obtain ⟨c, cs, hn', hc⟩ := nameOK_head n hn
  have hrt := readTag_rendered n hn as hok (term := 47 :: 62 :: rest) (rest := rest) (.inr rfl)
  have hcons : (n ++ (renderAttrs as ++ 47 :: 62 :: rest)).take ((n ++ (renderAttrs as ++ 47 :: 62 :: rest)).length - rest.length) =
      n ++ (renderAttrs as ++ [47, 62]) := by
    have : n ++ (renderAttrs as ++ 47 :: 62 :: rest) = (n ++ (renderAttrs as ++ [47, 62])) ++ rest := by simp
    rw [this]; exact take_sub_length _ _
  have hsc := endsSelfClosing_self n as
  have hms : isMarkupStart (60 :: (n ++ (renderAttrs as ++ 47 :: 62 :: rest))) = true := by
    rw [hn']; exact isMarkupStart_tag c _ (.inl hc)
  unfold next
  simp only [List.isEmpty_cons, Bool.false_eq_true, ↓reduceIte, List.isEmpty_nil, scanText_markup _ hms,
    Bool.not_true]
  rw [hn'] at hrt hcons hsc ⊢
  simp only [List.cons_append] at hrt hcons hsc ⊢
  simp only [hc, ↓reduceIte, hrt, hcons, hsc]
  have hl := nameOK_lower n hn
  rw [hn'] at hl hraw
  simp [hl, hraw, decodeAttrs_raw as hok]

/-- the tokenizer reads a rendered end tag back -/
theorem next_end (n : Bytes) (hn : NameOK' n) (rest : Bytes) :
    next [] (60 :: 47 :: (n ++ 62 :: rest)) = some (⟨.end_, n, []⟩, [], rest) := by
  obtain ⟨c, cs, hn', hc⟩ := nameOK_head n hn
  have hrt := readTag_rendered n hn [] (by simp) (term := 62 :: rest) (rest := rest) (.inl rfl)
  have hms : isMarkupStart (60 :: 47 :: (n ++ 62 :: rest)) = true := isMarkupStart_tag 47 _ (.inr rfl)
  have h47 : isAlpha 47 = false := by decide
  have hc62 : (c == 62) = false := by
    cases h : c == 62 with
    | false => rfl
    | true => simp only [beq_iff_eq] at h; subst h; revert hc; decide
  unfold next
  simp only [List.isEmpty_cons, Bool.false_eq_true, ↓reduceIte, List.isEmpty_nil, scanText_markup _ hms,
    Bool.not_true, h47, beq_self_eq_true]
  rw [hn'] at hrt ⊢
  simp only [List.cons_append, renderAttrs, List.nil_append] at hrt ⊢
  simp only [hc62, hc, ↓reduceIte, hrt, Bool.false_eq_true]
  have hl := nameOK_lower n hn
  rw [hn'] at hl
  simp [hl]

/-- one rendered tag in front of anything: the tokenizer returns exactly that tag -/
theorem next_tag (t : Token) (hk : t.tt ≠ .text) (hok : SegOK t) (rest : Bytes) :
    next [] (t.render ++ rest) = some (t, [], rest) ∧ isMarkupStart (t.render ++ rest) = true := by
  obtain ⟨tt, data, attrs⟩ := t
  cases tt with
  | text => exact absurd rfl hk
  | comment => exact absurd hok (by simp [SegOK])
  | doctype => exact absurd hok (by simp [SegOK])
  | start =>
    obtain ⟨hn, hraw, ha⟩ := hok
    obtain ⟨c, cs, hn', hc⟩ := nameOK_head data hn
    have hr : Token.render ⟨.start, data, attrs⟩ ++ rest = 60 :: (data ++ (renderAttrs attrs ++ 62 :: rest)) := by
      simp [Token.render, tagString, List.append_assoc]
    rw [hr]
    refine ⟨next_start data hn hraw attrs ha rest, ?_⟩
    rw [hn']; exact isMarkupStart_tag c _ (.inl hc)
  | selfClosing =>
    obtain ⟨hn, hraw, ha⟩ := hok
    obtain ⟨c, cs, hn', hc⟩ := nameOK_head data hn
    have hr : Token.render ⟨.selfClosing, data, attrs⟩ ++ rest = 60 :: (data ++ (renderAttrs attrs ++ 47 :: 62 :: rest)) := by
      simp [Token.render, tagString, List.append_assoc]
    rw [hr]
    refine ⟨next_self data hn hraw attrs ha rest, ?_⟩
    rw [hn']; exact isMarkupStart_tag c _ (.inl hc)
  | end_ =>
    obtain ⟨hn, ha⟩ := hok
    simp only at ha hn
    subst ha
    have hr : Token.render ⟨.end_, data, []⟩ ++ rest = 60 :: 47 :: (data ++ 62 :: rest) := by
      simp [Token.render, tagString, renderAttrs, List.append_assoc]
    rw [hr]
    exact ⟨next_end data hn rest, isMarkupStart_tag 47 _ (.inr rfl)⟩

theorem tokenizeAux_nil (fuel : Nat) : tokenizeAux fuel [] [] = [] := by
  cases fuel <;> simp [tokenizeAux, next]

theorem render_tag_length_pos (t : Token) (hk : t.tt ≠ .text) : 0 < t.render.length := by
  obtain ⟨tt, data, attrs⟩ := t
  cases tt <;> simp [Token.render] at hk ⊢

/-- **RT**: the tokenizer reads the serialisation of a plain token list back exactly, adjacent
    texts merged (with a pending text `d` in front, for the induction) -/
theorem tokenizeAux_rendered (ts : List Token) (hok : ∀ t ∈ ts, SegOK t) :
    ∀ (d : Bytes) (fuel : Nat), (escape d ++ renderAll ts).length < fuel →
      tokenizeAux fuel [] (escape d ++ renderAll ts) = coalesce d ts := by
  induction ts with
  | nil =>
    intro d fuel hf
    cases fuel with
    | zero => simp at hf
    | succ k =>
      by_cases hd : d = []
      · subst hd; simp [renderAll, escape, coalesce, flushText, tokenizeAux, next]
      · have := next_text d [] hd (.inl rfl)
        simp only [renderAll, tokenizeAux, this, tokenizeAux_nil, coalesce, flushText]
        simp [hd]
  | cons t ts ih =>
    intro d fuel hf
    have hts : ∀ x ∈ ts, SegOK x := fun x hx => hok x (by simp [hx])
    by_cases hk : t.tt = .text
    · -- a text joins the pending text
      have hr : t.render = escape t.data := by simp [Token.render, hk]
      have he : escape d ++ renderAll (t :: ts) = escape (d ++ t.data) ++ renderAll ts := by
        simp [renderAll, hr, escape_append, List.append_assoc]
      rw [he] at hf ⊢
      simp only [coalesce, hk]
      exact ih hts _ _ hf
    · obtain ⟨hnext, hms⟩ := next_tag t hk (hok t (by simp)) (renderAll ts)
      have hpos := render_tag_length_pos t hk
      have hne : (t.tt == TT.text) = false := by
        revert hk; cases t.tt <;> intro hk <;> first | rfl | exact absurd rfl hk
      -- the tag itself, with `k + 1` fuel left
      have htag : ∀ k, (t.render ++ renderAll ts).length < k + 1 →
          tokenizeAux (k + 1) [] (t.render ++ renderAll ts) = t :: coalesce [] ts := by
        intro k hk'
        simp only [tokenizeAux, hnext]
        have := ih hts [] k (by simp [escape] at hk' ⊢; omega)
        simpa [escape] using this
      simp only [coalesce, hne, Bool.false_eq_true, ↓reduceIte, renderAll]
      cases fuel with
      | zero => simp at hf
      | succ k =>
        by_cases hd : d = []
        · subst hd
          simp only [escape, List.nil_append, flushText, List.isEmpty_nil, ↓reduceIte]
          exact htag k (by simpa [escape, renderAll] using hf)
        · have hnt := next_text d (t.render ++ renderAll ts) hd (.inr hms)
          have hel : 0 < (escape d).length := by
            cases h : escape d with
            | nil => exact absurd ((escape_nil_iff d).mp h) hd
            | cons c cs => simp
          simp only [tokenizeAux, hnt, flushText]
          have hdn : d.isEmpty = false := by cases d <;> simp_all
          simp only [hdn, Bool.false_eq_true, ↓reduceIte, List.cons_append, List.nil_append]
          have hf' : (escape d).length + ((t.render).length + (renderAll ts).length) < k + 1 := by
            simpa [renderAll, List.length_append] using hf
          cases k with
          | zero => omega
          | succ k' =>
            rw [htag k' (by simp only [List.length_append]; omega)]

/-- **RT, closed form**: tokenising the serialisation of a plain token list -/
theorem tokenize_renderAll (ts : List Token) (hok : ∀ t ∈ ts, SegOK t) :
    tokenize (renderAll ts) = coalesce [] ts := by
  have := tokenizeAux_rendered ts hok [] ((renderAll ts).length + 1) (by simp [escape])
  simpa [tokenize, escape] using this

end BM.Html
