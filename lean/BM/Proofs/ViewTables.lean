import BM.Proofs.Congr
/-
  C17: **the view of a policy is a function of its tables read as sets** (and of its switches,
  skip set and scheme registrations).  Together with `sanitize_congr` this lifts the table-level
  theorems (`C17_rule_tables`, `C17_rule_tables2`, `C17_switches_refinement`, …) to the bytes the
  sanitiser returns.

  The reading of the tables by `sanitize` coincides with the set reading only on well-formed
  tables (`Policy.WF`): compiled patterns are identified by their identity (one identity, one
  `MatchString`), a pattern occurs once as a key, an attribute / property occurs once as a key
  of the inner Go maps, and a style table holds no empty rule list.  `WF` is an invariant of the
  builder API (`wf_applyOps`).
-/
namespace BM
open Html

/-! ### generic lemmas on maps of rule lists -/

theorem Map.mem_of_get? {ν : Type} (m : Map Bytes ν) (k : Bytes) (v : ν) (h : m.get? k = some v) : (k, v) ∈ m := by
  induction m with
  | nil => simp [Map.get?] at h
  | cons e rest ih =>
    obtain ⟨a, b⟩ := e
    unfold Map.get? at h
    by_cases hak : (a == k) = true
    · simp only [hak, ↓reduceIte, Option.some.injEq] at h
      have : a = k := by simpa using hak
      subst this; subst h
      exact List.mem_cons_self
    · simp only [hak, Bool.false_eq_true, ↓reduceIte] at h
      exact List.mem_cons_of_mem _ (ih h)

theorem Map.get?_of_mem_nodup {ν : Type} (m : Map Bytes ν) (hnd : (m.map (·.1)).Nodup) (k : Bytes) (v : ν)
    (h : (k, v) ∈ m) : m.get? k = some v := by
  induction m with
  | nil => simp at h
  | cons e rest ih =>
    obtain ⟨a, b⟩ := e
    simp only [List.map_cons, List.nodup_cons] at hnd
    unfold Map.get?
    rcases List.mem_cons.mp h with heq | hmem
    · cases heq; simp
    · have hne : ¬ a = k := by
        intro hak
        subst hak
        exact hnd.1 (List.mem_map.mpr ⟨(a, v), hmem, rfl⟩)
      have : (a == k) = false := by simpa using hne
      simp only [this, Bool.false_eq_true, ↓reduceIte]
      exact ih hnd.2 hmem

/-- with unique keys, "some entry for `k` holds `x`" is "the list for `k` holds `x`" -/
theorem mem_entry_iff {α : Type} (m : Map Bytes (List α)) (hnd : (m.map (·.1)).Nodup) (k : Bytes) (x : α) :
    (∃ kv ∈ m, kv.1 = k ∧ x ∈ kv.2) ↔ x ∈ rulesOf m k := by
  unfold rulesOf
  constructor
  · rintro ⟨⟨k', v⟩, hm, rfl, hx⟩
    rw [Map.get?_of_mem_nodup m hnd _ _ hm]
    exact hx
  · intro hx
    cases hg : m.get? k with
    | none => rw [hg] at hx; simp at hx
    | some v =>
      rw [hg] at hx
      exact ⟨(k, v), Map.mem_of_get? m k v hg, rfl, hx⟩

/-- `for k, v := range rules { acc[k] = append(acc[k], v...) }` -/
def mergeInto {α : Type} (acc rules : Map Bytes (List α)) : Map Bytes (List α) :=
  rules.foldl (fun acc kv => acc.update kv.1 [] (· ++ kv.2)) acc

theorem rulesOf_append {α : Type} (m : Map Bytes (List α)) (k k' : Bytes) (v : List α) :
    rulesOf (m.update k [] (· ++ v)) k' = if k = k' then rulesOf m k ++ v else rulesOf m k' := by
  unfold rulesOf
  rw [Map.get?_update]
  by_cases h : k = k'
  · subst h; simp
  · simp [h]

theorem mem_mergeInto {α : Type} (rules acc : Map Bytes (List α)) (k : Bytes) (x : α) :
    x ∈ rulesOf (mergeInto acc rules) k ↔ x ∈ rulesOf acc k ∨ ∃ kv ∈ rules, kv.1 = k ∧ x ∈ kv.2 := by
  unfold mergeInto
  induction rules generalizing acc with
  | nil => simp
  | cons e rest ih =>
    simp only [List.foldl_cons]
    rw [ih, rulesOf_append]
    by_cases hk : e.1 = k
    · subst hk
      simp only [↓reduceIte, List.mem_append, List.mem_cons, exists_eq_or_imp, true_and]
      constructor
      · rintro ((h | h) | h)
        · exact .inl h
        · exact .inr (.inl h)
        · exact .inr (.inr h)
      · rintro (h | h | h)
        · exact .inl (.inl h)
        · exact .inl (.inr h)
        · exact .inr h
    · simp only [hk, ↓reduceIte, List.mem_cons, exists_eq_or_imp, false_and, false_or]

theorem mem_mergeAll {α : Type} (hits : List (Pat × Map Bytes (List α))) (acc : Map Bytes (List α)) (k : Bytes) (x : α) :
    x ∈ rulesOf (hits.foldl (fun acc e => mergeInto acc e.2) acc) k ↔
      x ∈ rulesOf acc k ∨ ∃ e ∈ hits, ∃ kv ∈ e.2, kv.1 = k ∧ x ∈ kv.2 := by
  induction hits generalizing acc with
  | nil => simp
  | cons e rest ih =>
    simp only [List.foldl_cons]
    rw [ih, mem_mergeInto]
    simp only [List.mem_cons, exists_eq_or_imp]
    constructor
    · rintro ((h | h) | h)
      · exact .inl h
      · exact .inr (.inl h)
      · exact .inr (.inr h)
    · rintro (h | h | h)
      · exact .inl (.inl h)
      · exact .inl (.inr h)
      · exact .inr h

/-! ### tables keyed by pattern identity -/

theorem patGet?_of_mem {ν : Type} (m : List (Pat × ν)) (hnd : (m.map (·.1.id)).Nodup) (e : Pat × ν) (he : e ∈ m) :
    patGet? m e.1 = some e.2 := by
  induction m with
  | nil => simp at he
  | cons a rest ih =>
    obtain ⟨q, v⟩ := a
    simp only [List.map_cons, List.nodup_cons] at hnd
    unfold patGet?
    rcases List.mem_cons.mp he with heq | hmem
    · subst heq; simp
    · have hne : ¬ q.id = e.1.id := by
        intro hq
        exact hnd.1 (List.mem_map.mpr ⟨e, hmem, hq.symm⟩)
      have : (q.id == e.1.id) = false := by simpa using hne
      simp only [this, Bool.false_eq_true, ↓reduceIte]
      exact ih hnd.2 hmem

theorem mem_of_patGet? {ν : Type} (m : List (Pat × ν)) (r : Pat) (v : ν) (h : patGet? m r = some v) :
    ∃ e ∈ m, e.1.id = r.id ∧ e.2 = v := by
  induction m with
  | nil => simp [patGet?] at h
  | cons a rest ih =>
    obtain ⟨q, w⟩ := a
    unfold patGet? at h
    by_cases hq : (q.id == r.id) = true
    · simp only [hq, ↓reduceIte, Option.some.injEq] at h
      exact ⟨(q, w), List.mem_cons_self, by simpa using hq, h⟩
    · simp only [hq, Bool.false_eq_true, ↓reduceIte] at h
      obtain ⟨e, he, h1, h2⟩ := ih h
      exact ⟨e, List.mem_cons_of_mem _ he, h1, h2⟩

/-- entries of a well-formed pattern table that match `el` and hold `x` under `k`, in terms of
    the get-by-identity reading -/
theorem pattern_entries_iff {α : Type} (T : Nat → Bytes → Bool) (m : List (Pat × Map Bytes (List α)))
    (hids : (m.map (·.1.id)).Nodup) (hkeys : ∀ e ∈ m, (e.2.map (·.1)).Nodup) (htest : ∀ e ∈ m, e.1.test = T e.1.id)
    (el k : Bytes) (x : α) :
    (∃ e ∈ m.filter (fun e => e.1.test el), ∃ kv ∈ e.2, kv.1 = k ∧ x ∈ kv.2) ↔
      ∃ r : Pat, T r.id el = true ∧ x ∈ rulesOf ((patGet? m r).getD []) k := by
  constructor
  · rintro ⟨e, he, hx⟩
    rw [List.mem_filter] at he
    refine ⟨e.1, ?_, ?_⟩
    · rw [← htest e he.1]; exact he.2
    · rw [patGet?_of_mem m hids e he.1]
      exact (mem_entry_iff e.2 (hkeys e he.1) k x).mp hx
  · rintro ⟨r, ht, hx⟩
    cases hg : patGet? m r with
    | none => rw [hg] at hx; simp [rulesOf, Map.get?] at hx
    | some v =>
      rw [hg] at hx
      obtain ⟨e, he, hid, hv⟩ := mem_of_patGet? m r v hg
      subst hv
      refine ⟨e, List.mem_filter.mpr ⟨he, ?_⟩, (mem_entry_iff e.2 (hkeys e he) k x).mpr hx⟩
      rw [htest e he, hid]; exact ht

/-- some entry of a well-formed pattern table matches `el` -/
theorem pattern_any_iff {ν : Type} (T : Nat → Bytes → Bool) (m : List (Pat × ν))
    (htest : ∀ e ∈ m, e.1.test = T e.1.id) (el : Bytes) :
    (∃ e ∈ m, e.1.test el = true) ↔ ∃ r : Pat, T r.id el = true ∧ (patGet? m r).isSome = true := by
  constructor
  · rintro ⟨e, he, ht⟩
    refine ⟨e.1, by rw [← htest e he]; exact ht, ?_⟩
    clear ht htest
    induction m with
    | nil => simp at he
    | cons a rest ih =>
      unfold patGet?
      by_cases hq : (a.1.id == e.1.id) = true
      · simp [hq]
      · simp only [hq, Bool.false_eq_true, ↓reduceIte]
        rcases List.mem_cons.mp he with heq | hmem
        · subst heq; simp at hq
        · exact ih hmem
  · rintro ⟨r, ht, hs⟩
    cases hg : patGet? m r with
    | none => rw [hg] at hs; simp at hs
    | some v =>
      obtain ⟨e, he, hid, _⟩ := mem_of_patGet? m r v hg
      exact ⟨e, he, by rw [htest e he, hid]; exact ht⟩

/-! ### well-formed tables -/

structure Policy.WF (T : Nat → Bytes → Bool) (p : Policy) : Prop where
  idsA : (p.elsMatchingAndAttrs.map (·.1.id)).Nodup
  idsS : (p.elsMatchingAndStyles.map (·.1.id)).Nodup
  keysA : ∀ e ∈ p.elsMatchingAndAttrs, (e.2.map (·.1)).Nodup
  keysS : ∀ e ∈ p.elsMatchingAndStyles, (e.2.map (·.1)).Nodup
  testA : ∀ e ∈ p.elsMatchingAndAttrs, e.1.test = T e.1.id
  testS : ∀ e ∈ p.elsMatchingAndStyles, e.1.test = T e.1.id
  testB : ∀ r ∈ p.setOfElementsMatchingAllowedWithoutAttrs, r.test = T r.id
  testU : ∀ r ∈ p.allowURLSchemeRegexps, r.test = T r.id
  neES : ∀ e ∈ p.elsAndStyles, ∀ kv ∈ e.2, kv.2 ≠ []
  neMS : ∀ e ∈ p.elsMatchingAndStyles, ∀ kv ∈ e.2, kv.2 ≠ []
  neGS : ∀ kv ∈ p.globalStyles, kv.2 ≠ []

/-! ### the questions of the filter, answered from the set reading -/

/-- does a value pattern (or its absence) accept `v`? -/
def okA (x : AttrPolicy) (v : Bytes) : Bool :=
  match x with
  | none => true
  | some r => r.test v

theorem acceptBy_iff (aps : AttrRules) (k v : Bytes) :
    acceptBy aps k v = true ↔ ∃ x ∈ rulesOf aps k, okA x v = true := by
  unfold acceptBy rulesOf
  cases h : aps.get? k with
  | none => simp
  | some apl =>
    simp only [attrPoliciesAccept, List.any_eq_true, Option.getD_some]
    exact Iff.rfl

theorem matchRegex_eq (p : Policy) (el : Bytes) : p.matchRegex el =
    (let hits := p.elsMatchingAndAttrs.filter fun e => e.1.test el
     if hits.isEmpty then none else some (hits.foldl (fun acc e => mergeInto acc e.2) [])) := rfl

theorem filter_isEmpty_iff {α : Type} (l : List α) (f : α → Bool) :
    (l.filter f).isEmpty = false ↔ ∃ e ∈ l, f e = true := by
  induction l with
  | nil => simp
  | cons a rest ih =>
    simp only [List.filter_cons]
    by_cases ha : f a = true
    · simp [ha]
    · simp only [ha, Bool.false_eq_true, ↓reduceIte, ih, List.mem_cons, exists_eq_or_imp, false_or]

section readings
variable (T : Nat → Bytes → Bool) (p : Policy) (hw : p.WF T)
include hw

theorem rulesSome_iff (el : Bytes) :
    (p.attrRulesFor el).isSome = true ↔ p.hasElem el ∨ ∃ r : Pat, T r.id el = true ∧ p.hasPattern r := by
  unfold Policy.attrRulesFor Policy.hasElem Policy.hasPattern
  cases hg : p.elsAndAttrs.get? el with
  | some aps => simp
  | none =>
    simp only [Option.isSome_none, Bool.false_eq_true, false_or]
    rw [matchRegex_eq, ← pattern_any_iff T _ hw.testA el]
    simp only
    cases he : (p.elsMatchingAndAttrs.filter fun e => e.1.test el).isEmpty with
    | true =>
      simp only [↓reduceIte, Option.isSome_none, Bool.false_eq_true, false_iff]
      intro hex
      have := (filter_isEmpty_iff _ _).mpr hex
      rw [he] at this; cases this
    | false =>
      simp only [Bool.false_eq_true, ↓reduceIte, Option.isSome_some, true_iff]
      exact (filter_isEmpty_iff _ _).mp he

theorem accept_iff (el k v : Bytes) :
    p.acceptFor el k v = true ↔
      (p.hasElem el ∧ ∃ x ∈ p.elemRules el k, okA x v = true) ∨
      (¬ p.hasElem el ∧ ∃ r : Pat, T r.id el = true ∧ ∃ x ∈ p.matchRules r k, okA x v = true) := by
  unfold Policy.acceptFor Policy.attrRulesFor Policy.hasElem Policy.elemRules Policy.matchRules
  cases hg : p.elsAndAttrs.get? el with
  | some aps =>
    simp only [Option.isSome_some, true_and, not_true_eq_false, false_and, or_false, acceptBy_iff]
    simp only [rulesOf, hg, Option.getD_some]
  | none =>
    simp only [Option.isSome_none, Bool.false_eq_true, false_and, not_false_eq_true, true_and, false_or]
    rw [matchRegex_eq]
    have hpe := pattern_entries_iff T p.elsMatchingAndAttrs hw.idsA hw.keysA hw.testA el k
    simp only
    cases he : (p.elsMatchingAndAttrs.filter fun e => e.1.test el).isEmpty with
    | true =>
      simp only [↓reduceIte, Bool.false_eq_true, false_iff]
      rintro ⟨r, ht, x, hx, _⟩
      obtain ⟨e, hmem, _⟩ := (hpe x).mpr ⟨r, ht, hx⟩
      have : (p.elsMatchingAndAttrs.filter fun e => e.1.test el) = [] := by simpa using he
      rw [this] at hmem; simp at hmem
    | false =>
      simp only [Bool.false_eq_true, ↓reduceIte, acceptBy_iff]
      constructor
      · rintro ⟨x, hx, hok⟩
        rw [mem_mergeAll] at hx
        rcases hx with hx | hx
        · simp [rulesOf, Map.get?] at hx
        · obtain ⟨r, ht, hr⟩ := (hpe x).mp hx
          exact ⟨r, ht, x, hr, hok⟩
      · rintro ⟨r, ht, x, hx, hok⟩
        refine ⟨x, ?_, hok⟩
        rw [mem_mergeAll]
        exact .inr ((hpe x).mpr ⟨r, ht, hx⟩)

omit hw in
theorem gaccept_iff (k v : Bytes) : acceptBy p.globalAttrs k v = true ↔ ∃ x ∈ p.globalRules k, okA x v = true :=
  acceptBy_iff _ _ _

theorem noAttrs_iff (el : Bytes) :
    p.allowNoAttrs el = true ↔ p.bareOK el ∨ ∃ id, p.bareOKPattern id ∧ T id el = true := by
  unfold Policy.allowNoAttrs Policy.bareOK Policy.bareOKPattern
  simp only [Bool.or_eq_true, List.contains_iff_mem, List.any_eq_true]
  constructor
  · rintro (h | ⟨r, hr, ht⟩)
    · exact .inl h
    · exact .inr ⟨r.id, ⟨r, hr, rfl⟩, by rw [← hw.testB r hr]; exact ht⟩
  · rintro (h | ⟨id, ⟨r, hr, rfl⟩, ht⟩)
    · exact .inl h
    · exact .inr ⟨r, hr, by rw [hw.testB r hr]; exact ht⟩

omit hw in
theorem explicit_iff (el : Bytes) : p.explicitEl el = true ↔ p.hasElem el := Iff.rfl

theorem pattern_iff (el : Bytes) :
    p.patternEl el = true ↔ ¬ p.hasElem el ∧ ∃ r : Pat, T r.id el = true ∧ p.hasPattern r := by
  unfold Policy.patternEl Policy.hasPattern
  rw [← pattern_any_iff T _ hw.testA el]
  simp only [Bool.and_eq_true, Bool.not_eq_true', List.any_eq_true]
  have : p.explicitEl el = false ↔ ¬ p.hasElem el := by
    unfold Policy.explicitEl Policy.hasElem Map.contains
    simp
  rw [this]

end readings

/-! ### style rules -/

/-- does one style matcher accept `v`? -/
def okS (sp : StylePolicy) (v : Bytes) : Bool :=
  match sp.handler with
  | some h => h v
  | none =>
    if sp.enum.length > 0 then stringInSlice v sp.enum
    else match sp.re with
      | some r => r.test v
      | none => false

def acceptS (m : StyleRules) (k v : Bytes) : Bool :=
  match m.get? k with
  | some spl => stylePoliciesAccept spl v
  | none => false

theorem acceptS_iff (m : StyleRules) (k v : Bytes) : acceptS m k v = true ↔ ∃ sp ∈ rulesOf m k, okS sp v = true := by
  unfold acceptS rulesOf
  cases h : m.get? k with
  | none => simp
  | some spl =>
    simp only [stylePoliciesAccept, List.any_eq_true, Option.getD_some]
    exact Iff.rfl

theorem styleRulesFor_eq (p : Policy) (el : Bytes) : p.styleRulesFor el =
    (let sps := (p.elsAndStyles.get? el).getD []
     if sps.length == 0 then
       (p.elsMatchingAndStyles.filter fun e => e.1.test el).foldl (fun acc e => mergeInto acc e.2) []
     else sps) := rfl

/-- a table without empty rule lists is non-empty iff it holds a rule -/
theorem nonempty_iff_exists {α : Type} (m : Map Bytes (List α)) (hne : ∀ kv ∈ m, kv.2 ≠ []) :
    m.length > 0 ↔ ∃ k x, x ∈ rulesOf m k := by
  constructor
  · intro hl
    match m, hne, hl with
    | (k, l) :: rest, hne, _ =>
      have hl : l ≠ [] := hne (k, l) List.mem_cons_self
      obtain ⟨x, hx⟩ := List.exists_mem_of_ne_nil l hl
      exact ⟨k, x, by simp [rulesOf, Map.get?, hx]⟩
  · rintro ⟨k, x, hx⟩
    cases m with
    | nil => simp [rulesOf, Map.get?] at hx
    | cons a rest => simp

/-- the explicitly named element `el` has style rules -/
def Policy.hasElemStyle (p : Policy) (el : Bytes) : Prop := ∃ prop x, x ∈ p.elemStyleRules el prop

theorem declAccepted_iff (p : Policy) (sps : StyleRules) (dec : Css.Decl) :
    p.declAccepted sps dec = true ↔
      ∃ tv, removeUnicode (toLowerGo dec.value) = some tv ∧
        ((∃ sp ∈ rulesOf sps (trimPrefixes (toLowerGo dec.property) vendorPrefixes), okS sp tv = true) ∨
         (∃ sp ∈ p.globalStyleRules (trimPrefixes (toLowerGo dec.property) vendorPrefixes), okS sp tv = true)) := by
  have e : p.declAccepted sps dec =
      match removeUnicode (toLowerGo dec.value) with
      | none => false
      | some tv => acceptS sps (trimPrefixes (toLowerGo dec.property) vendorPrefixes) tv ||
          acceptS p.globalStyles (trimPrefixes (toLowerGo dec.property) vendorPrefixes) tv := rfl
  rw [e]
  cases removeUnicode (toLowerGo dec.value) with
  | none => simp
  | some tv =>
    simp only [Bool.or_eq_true, acceptS_iff, Option.some.injEq, exists_eq_left', Policy.globalStyleRules]

section styleReadings
variable (T : Nat → Bytes → Bool) (p : Policy) (hw : p.WF T)
include hw

theorem elemStyle_nonempty_iff (el : Bytes) :
    ((p.elsAndStyles.get? el).getD []).length > 0 ↔ p.hasElemStyle el := by
  unfold Policy.hasElemStyle Policy.elemStyleRules
  have : rulesOf p.elsAndStyles el = (p.elsAndStyles.get? el).getD [] := rfl
  rw [this]
  apply nonempty_iff_exists
  cases hg : p.elsAndStyles.get? el with
  | none => simp
  | some sps => exact hw.neES (el, sps) (Map.mem_of_get? _ _ _ hg)

theorem styleRulesFor_mem (el prop : Bytes) (x : StylePolicy) :
    x ∈ rulesOf (p.styleRulesFor el) prop ↔
      (p.hasElemStyle el ∧ x ∈ p.elemStyleRules el prop) ∨
      (¬ p.hasElemStyle el ∧ ∃ r : Pat, T r.id el = true ∧ x ∈ p.matchStyleRules r prop) := by
  rw [styleRulesFor_eq]
  simp only
  have hne := elemStyle_nonempty_iff T p hw el
  by_cases hl : ((p.elsAndStyles.get? el).getD []).length > 0
  · have h1 : p.hasElemStyle el := hne.mp hl
    have h2 : (((p.elsAndStyles.get? el).getD []).length == 0) = false := by
      simp only [beq_eq_false_iff_ne, ne_eq]; omega
    simp only [h2, Bool.false_eq_true, ↓reduceIte, h1, true_and, not_true_eq_false, false_and, or_false]
    rfl
  · have h1 : ¬ p.hasElemStyle el := fun hh => hl (hne.mpr hh)
    have h2 : (((p.elsAndStyles.get? el).getD []).length == 0) = true := by
      simp only [beq_iff_eq]; omega
    simp only [h2, ↓reduceIte, h1, false_and, not_false_eq_true, true_and, false_or]
    rw [mem_mergeAll, pattern_entries_iff T p.elsMatchingAndStyles hw.idsS hw.keysS hw.testS el prop x]
    simp only [rulesOf, Map.get?, Option.getD_none, List.not_mem_nil, false_or]
    rfl

theorem decl_iff (el : Bytes) (dec : Css.Decl) :
    p.declAccepted (p.styleRulesFor el) dec = true ↔
      ∃ tv, removeUnicode (toLowerGo dec.value) = some tv ∧
        (((p.hasElemStyle el ∧ ∃ sp ∈ p.elemStyleRules el (trimPrefixes (toLowerGo dec.property) vendorPrefixes),
              okS sp tv = true) ∨
          (¬ p.hasElemStyle el ∧ ∃ r : Pat, T r.id el = true ∧
              ∃ sp ∈ p.matchStyleRules r (trimPrefixes (toLowerGo dec.property) vendorPrefixes), okS sp tv = true)) ∨
         (∃ sp ∈ p.globalStyleRules (trimPrefixes (toLowerGo dec.property) vendorPrefixes), okS sp tv = true)) := by
  rw [declAccepted_iff]
  apply exists_congr
  intro tv
  apply and_congr_right
  intro _
  apply or_congr_left
  simp only [styleRulesFor_mem T p hw]
  constructor
  · rintro ⟨sp, (⟨h1, h2⟩ | ⟨h1, r, ht, h2⟩), hok⟩
    · exact .inl ⟨h1, sp, h2, hok⟩
    · exact .inr ⟨h1, r, ht, sp, h2, hok⟩
  · rintro (⟨h1, sp, h2, hok⟩ | ⟨h1, r, ht, sp, h2, hok⟩)
    · exact ⟨sp, .inl ⟨h1, h2⟩, hok⟩
    · exact ⟨sp, .inr ⟨h1, r, ht, h2⟩, hok⟩

theorem hasStyle_iff (el : Bytes) :
    p.hasStylePolicies el = true ↔
      (∃ prop x, x ∈ p.globalStyleRules prop) ∨ p.hasElemStyle el ∨
      ∃ r : Pat, T r.id el = true ∧ ∃ prop x, x ∈ p.matchStyleRules r prop := by
  have e : p.hasStylePolicies el =
      (decide (p.globalStyles.length > 0) ||
       (match p.elsAndStyles.get? el with | some sps => decide (sps.length > 0) | none => false) ||
       p.elsMatchingAndStyles.any fun e => e.1.test el && decide (e.2.length > 0)) := rfl
  rw [e]
  simp only [Bool.or_eq_true, decide_eq_true_eq, or_assoc]
  apply or_congr
  · exact nonempty_iff_exists _ hw.neGS
  apply or_congr
  · rw [← elemStyle_nonempty_iff T p hw el]
    cases p.elsAndStyles.get? el <;> simp
  · simp only [List.any_eq_true, Bool.and_eq_true, decide_eq_true_eq, Policy.matchStyleRules]
    constructor
    · rintro ⟨e, he, ht, hl⟩
      obtain ⟨prop, x, hx⟩ := (nonempty_iff_exists e.2 (hw.neMS e he)).mp hl
      refine ⟨e.1, by rw [← hw.testS e he]; exact ht, prop, x, ?_⟩
      rw [patGet?_of_mem _ hw.idsS e he]
      exact hx
    · rintro ⟨r, ht, prop, x, hx⟩
      cases hg : patGet? p.elsMatchingAndStyles r with
      | none => rw [hg] at hx; simp [rulesOf, Map.get?] at hx
      | some v =>
        rw [hg] at hx
        obtain ⟨e, he, hid, hv⟩ := mem_of_patGet? _ r v hg
        subst hv
        refine ⟨e, he, by rw [hw.testS e he, hid]; exact ht, ?_⟩
        cases hev : e.2 with
        | nil => rw [hev] at hx; simp [rulesOf, Map.get?] at hx
        | cons a rest => simp

theorem schemeOK_iff (u : Url.URL) :
    p.schemeOK u = true ↔
      match p.allowURLSchemes.get? u.scheme with
      | none => ∃ id, p.schemePattern id ∧ T id u.scheme = true
      | some policies => policies.isEmpty = true ∨ ∃ f ∈ policies, f u = true := by
  unfold Policy.schemeOK Policy.schemePattern
  cases p.allowURLSchemes.get? u.scheme with
  | none =>
    simp only [List.any_eq_true]
    constructor
    · rintro ⟨r, hr, ht⟩
      exact ⟨r.id, ⟨r, hr, rfl⟩, by rw [← hw.testU r hr]; exact ht⟩
    · rintro ⟨id, ⟨r, hr, rfl⟩, ht⟩
      exact ⟨r, hr, by rw [hw.testU r hr]; exact ht⟩
  | some policies => simp only [Bool.or_eq_true, List.any_eq_true]

end styleReadings

end BM
