import BM.Sanitize
import BM.Spec.Oracles
import BM.Proofs.AttrsOK
/-
  Where the attribute *names* in the result of `sanitizeAttrs` come from: each is the name of an
  attribute that survived the first pass, or one the policy instructs the sanitiser to add or
  force *for that element* (`Spec.forcedAttr`: rel/target under a link option on a/area/base/link,
  crossorigin under RequireCrossOriginAnonymous on audio/img/link/script/video, sandbox under
  RequireSandboxOnIFrame on iframe).
-/
namespace BM
open Html Spec

def KeysFrom (Q : Bytes → Prop) (l : List Attr) : Prop := ∀ b ∈ l, Q b.key

variable {Q : Bytes → Prop}

theorem keys_map {l : List Attr} (f : Attr → Attr) (hf : ∀ a, (f a).key = a.key) (h : KeysFrom Q l) :
    KeysFrom Q (l.map f) := by
  intro b hb
  simp only [List.mem_map] at hb
  obtain ⟨a, ha, rfl⟩ := hb
  rw [hf a]; exact h a ha

theorem keys_append {l : List Attr} (x : Attr) (hx : Q x.key) (h : KeysFrom Q l) : KeysFrom Q (l ++ [x]) := by
  intro b hb
  simp only [List.mem_append, List.mem_singleton] at hb
  rcases hb with hb | rfl
  · exact h b hb
  · exact hx

theorem keys_append_rel {l : List Attr} (v : Bytes) (hx : Q b!"rel") (h : KeysFrom Q l) :
    KeysFrom Q (l ++ [⟨b!"rel", v⟩]) := keys_append _ hx h
theorem keys_append_target {l : List Attr} (v : Bytes) (hx : Q b!"target") (h : KeysFrom Q l) :
    KeysFrom Q (l ++ [⟨b!"target", v⟩]) := keys_append _ hx h

theorem keys_fixFirstTarget : ∀ {l : List Attr}, KeysFrom Q l → KeysFrom Q (fixFirstTarget l)
  | [], _ => by intro b hb; simp [fixFirstTarget] at hb
  | a :: as, h => by
    intro b hb
    unfold fixFirstTarget at hb
    split at hb
    · simp only [List.mem_cons] at hb
      rcases hb with rfl | hb
      · split
        · exact h a (by simp)
        · exact h a (by simp)
      · exact h b (by simp [hb])
    · simp only [List.mem_cons] at hb
      rcases hb with rfl | hb
      · exact h _ (by simp)
      · exact keys_fixFirstTarget (fun x hx => h x (by simp [hx])) b hb

theorem keys_addNoOpener {l : List Attr} (hrel : Q b!"rel") (h : KeysFrom Q l) : KeysFrom Q (addNoOpener l) := by
  unfold addNoOpener
  split
  · exact keys_map _ (fun a => by split <;> rfl) h
  · exact keys_append_rel _ hrel h

theorem keys_hardenLinks (p : Policy) (el : Bytes) {l : List Attr} (hrel : Q b!"rel")
    (htarget : p.addTargetBlankToFullyQualifiedLinks = true → el = b!"a" → Q b!"target")
    (h : KeysFrom Q l) : KeysFrom Q (p.hardenLinks el l) := by
  unfold Policy.hardenLinks
  simp only
  split
  · exact h
  · repeat' (first
      | exact keys_map _ (relFix_key' _ _) h
      | apply keys_addNoOpener hrel
      | apply keys_fixFirstTarget
      | apply keys_append_rel _ hrel
      | apply keys_append_target _ (htarget (by simp_all) (by simp_all))
      | split)

theorem keys_forceCrossOrigin (p : Policy) (el : Bytes) {l : List Attr}
    (hq : p.requireCrossOriginAnonymous = true → isCrossOriginElement el = true → Q b!"crossorigin")
    (h : KeysFrom Q l) : KeysFrom Q (p.forceCrossOrigin el l) := by
  unfold Policy.forceCrossOrigin
  split
  · rename_i hg
    simp only [Bool.and_eq_true] at hg
    split
    · exact keys_map _ (fun a => by unfold setVal; split <;> rfl) h
    · exact keys_append _ (hq hg.1.1 hg.2) h
  · exact h

theorem keys_forceSandbox (p : Policy) (el : Bytes) {l : List Attr}
    (hq : p.requireSandboxOnIFrame.isSome = true → el = b!"iframe" → Q b!"sandbox")
    (h : KeysFrom Q l) : KeysFrom Q (p.forceSandbox el l) := by
  unfold Policy.forceSandbox
  split
  · rename_i allowed hs
    split
    · rename_i hel
      simp only [beq_iff_eq] at hel
      split
      · exact keys_map _ (fun a => by unfold setVal; split <;> rfl) h
      · exact keys_append _ (hq (by rw [hs]; rfl) hel) h
    · exact h
  · exact h

/-- the policy instructs the sanitiser to add or force attribute `k` on element `el` -/
def AddedFor (p : Policy) (el k : Bytes) : Prop :=
  (k = b!"rel" ∧ anyLinkOption p = true ∧ isHrefElement el = true) ∨
  (k = b!"target" ∧ p.addTargetBlankToFullyQualifiedLinks = true ∧ el = b!"a") ∨
  (k = b!"crossorigin" ∧ p.requireCrossOriginAnonymous = true ∧ isCrossOriginElement el = true) ∨
  (k = b!"sandbox" ∧ p.requireSandboxOnIFrame.isSome = true ∧ el = b!"iframe")

theorem isHrefEl_eq (el : Bytes) : isHrefEl el = isHrefElement el := rfl
theorem isCoEl_eq (el : Bytes) : isCoEl el = isCrossOriginElement el := rfl

/-- **the names in the result of `sanitizeAttrs`**: first-pass survivors and what the policy
    forces for this element, nothing else -/
theorem sanitizeAttrs_keys (p : Policy) (el : Bytes) (attrs : List Attr) (aps : AttrRules) (out : List Attr)
    (h : p.sanitizeAttrs el attrs aps = some out) :
    ∀ b ∈ out, (∃ b0 ∈ attrs.filterMap (p.filterAttr el aps (p.hasStylePolicies el)), b0.key = b.key) ∨
      AddedFor p el b.key := by
  unfold Policy.sanitizeAttrs at h
  split at h
  · rename_i he; simp at h; subst h; intro b hb; rw [List.isEmpty_iff.mp he] at hb; simp at hb
  · simp only at h
    generalize hfp : attrs.filterMap (p.filterAttr el aps (p.hasStylePolicies el)) = fp at h ⊢
    have h1 : KeysFrom (fun k => (∃ b0 ∈ fp, b0.key = k) ∨ AddedFor p el k) fp :=
      fun b hb => .inl ⟨b, hb, rfl⟩
    split at h
    · simp at h; subst h; exact h1
    · simp only [Option.map_eq_some_iff] at h
      obtain ⟨mid, hmid, rfl⟩ := h
      show KeysFrom (fun k => (∃ b0 ∈ fp, b0.key = k) ∨ AddedFor p el k) _
      apply keys_forceSandbox
      · intro hs hel
        exact .inr (.inr (.inr (.inr ⟨rfl, hs, hel⟩)))
      apply keys_forceCrossOrigin
      · intro hc hel
        exact .inr (.inr (.inr (.inl ⟨rfl, hc, hel⟩)))
      unfold Policy.linkPasses at hmid
      split at hmid
      · simp only [Option.map_eq_some_iff] at hmid
        obtain ⟨m2, hm2, rfl⟩ := hmid
        have h2 : KeysFrom (fun k => (∃ b0 ∈ fp, b0.key = k) ∨ AddedFor p el k) m2 := by
          split at hm2
          · intro b hb
            obtain ⟨a, ha, hab⟩ := mapMOpt_mem _ fp m2 hm2 b hb
            have hk := urlPassAttr_key p el a b hab
            show (∃ b0 ∈ fp, b0.key = b.key) ∨ _
            exact .inl ⟨a, ha, hk.symm⟩
          · simp at hm2; subst hm2; exact h1
        split
        · rename_i hg
          simp only [Bool.and_eq_true] at hg
          have hopt : anyLinkOption p = true := hg.1.1
          have hel : isHrefElement el = true := hg.2
          apply keys_hardenLinks p el _ _ h2
          · exact .inr (.inl ⟨rfl, hopt, hel⟩)
          · intro htb ha
            exact .inr (.inr (.inl ⟨rfl, htb, ha⟩))
        · exact h2
      · simp at hmid; subst hmid; exact h1

end BM
