import BM.Proofs.Nesting
import BM.Proofs.Bytes
/-
  C08, whole documents: the text the loop writes is exactly the text of the input that lies
  outside every disallowed skip-content element (`Spec.visibleTextAux`), by the same
  open-element simulation as C09.
-/
namespace BM
open Html Spec

theorem allowsElement_eq (p : Policy) (n : Bytes) : allowsElement p n = p.allowedEl n := by
  unfold allowsElement Policy.allowedEl Policy.patternEl Policy.explicitEl
  cases p.elsAndAttrs.contains n <;> simp

/-- the spec's "this element hides its content" -/
def hides (p : Policy) (n : Bytes) : Bool := !allowsElement p n && p.setOfElementsToSkipContent.contains n

/-- pushing a frame of a non-script element changes the count exactly when the element hides -/
theorem count_push {p : Policy} {f : Frame} {fs : List Frame} (hok : FramesOK p (f :: fs))
    (hns : hiddenEl p f.name = false) :
    countOf (f :: fs) = if hides p f.name then countOf fs + 1 else countOf fs := by
  cases hok with
  | cons _ _ hf _ =>
    obtain ⟨n, fate⟩ := f
    obtain ⟨_, _, hfate⟩ := hf
    simp only at hfate hns ⊢
    unfold hides
    rw [allowsElement_eq]
    cases fate with
    | hidden => simp only at hfate; rw [hns] at hfate; cases hfate
    | dis s =>
      simp only at hfate
      obtain ⟨_, ha, hs⟩ := hfate
      rw [ha, ← hs]
      cases s <;> simp [countOf]
    | bare => simp only at hfate; rw [hfate.2]; simp [countOf]
    | kept m sh => simp only at hfate; rw [hfate.2.1]; simp [countOf]

/-- text tokens among the written tokens of one iteration -/
theorem prov_text {p : Policy} {t k : Token} (h : Prov p t k) (hk : k.tt = .text) :
    (k = ⟨.text, [32], []⟩ ∧ p.addSpaces = true) ∨ (k = t ∧ t.tt = .text) := by
  rcases h with h | ⟨rfl, _⟩ | ⟨_, _, _, _, rfl, htt⟩
  · exact .inl h
  · exact .inr ⟨rfl, hk⟩
  · simp only at hk; rcases htt with h | h <;> rw [h] at hk <;> cases hk

/-- a tag writes no text when no spaces are added -/
theorem textOf_of_tag {p : Policy} (hs : p.addSpaces = false) {t : Token} {ws : List Write} {toks : List Token}
    (h : TokWrites p t ws toks) (ht : t.tt ≠ .text) : textOf toks = [] := by
  unfold textOf
  rw [List.filter_eq_nil_iff.mpr]
  · rfl
  · intro k hk hkt
    have hkt' : k.tt = .text := by
      revert hkt; cases k.tt <;> intro h <;> first | rfl | exact absurd h (by decide)
    rcases prov_text (h.2 k hk) hkt' with ⟨_, hsp⟩ | ⟨_, htt⟩
    · rw [hs] at hsp; cases hsp
    · exact ht htt

/-- the most recently started element is never script/style when the input has no such tags -/
theorem step_recent (p : Policy) (st : LoopState) (t : Token) (st' : LoopState) (ws : List Write)
    (h : p.step st t = some (st', ws)) (hr : isScriptOrStyle st.mostRecentlyStartedToken = false)
    (hns : isTag t = true → isScriptOrStyle t.data = false) :
    isScriptOrStyle st'.mostRecentlyStartedToken = false := by
  have hmk : ∀ s el, (markKept s el).mostRecentlyStartedToken = s.mostRecentlyStartedToken := by
    intro s el; unfold markKept; split <;> rfl
  have hpd : ∀ s el, (pushDropped s el).mostRecentlyStartedToken = s.mostRecentlyStartedToken := by
    intro s el; unfold pushDropped; split <;> rfl
  have hes : ∀ s el, (p.enterSkip s el).mostRecentlyStartedToken = s.mostRecentlyStartedToken := by
    intro s el; unfold Policy.enterSkip; split <;> rfl
  have hpm : ∀ s el, (popMarker s el).mostRecentlyStartedToken = s.mostRecentlyStartedToken := by
    intro s el; unfold popMarker; split <;> rfl
  have hls : ∀ s el, (p.leaveSkip s el).mostRecentlyStartedToken = s.mostRecentlyStartedToken := by
    intro s el; unfold Policy.leaveSkip; split <;> rfl
  have hcr : ∀ el, isScriptOrStyle (clearRecent st el).mostRecentlyStartedToken = false := by
    intro el; unfold clearRecent; split
    · rfl
    · exact hr
  unfold Policy.step at h
  split at h
  · simp at h; obtain ⟨rfl, _⟩ := h; exact hr
  · simp at h; obtain ⟨rfl, _⟩ := h; exact hr
  · rename_i htt
    have hss := hns (by unfold isTag; rw [htt]; rfl)
    unfold Policy.stepStart at h
    simp only at h
    repeat' split at h
    all_goals (simp at h)
    all_goals (obtain ⟨rfl, _⟩ := h)
    · exact hss
    · rw [hes]; exact hss
    · rw [hpd]; exact hss
    · rw [hmk]; exact hss
  · unfold Policy.stepEnd at h
    have hc := hcr t.data
    generalize clearRecent st t.data = st1 at h hc
    simp only at h
    repeat' split at h
    all_goals (simp at h)
    all_goals (obtain ⟨rfl, _⟩ := h)
    · exact hc
    · exact hc
    · rw [hls, hpm]; exact hc
    · rw [hls, hpm]; exact hc
  · rename_i htt
    have hss := hns (by unfold isTag; rw [htt]; rfl)
    unfold Policy.stepSelfClosing at h
    simp only at h
    repeat' split at h
    all_goals (simp at h)
    all_goals (obtain ⟨rfl, _⟩ := h; exact hss)
  · simp at h; obtain ⟨rfl, _⟩ := h; exact hr

/-- **the text simulation**: the text written from a state abstracting `fs` is the spec's
    visible text at depth `countOf fs` -/
theorem nest_text (p : Policy) (hu : p.allowUnsafe = false) (hs : p.addSpaces = false) :
    ∀ (ts : List Token) (fs : List Frame) (st : LoopState),
    Abs p fs st → isScriptOrStyle st.mostRecentlyStartedToken = false →
    (∀ f ∈ fs, isScriptStyle f.name = false) →
    (∀ t ∈ ts, Props.NameOK t) → (∀ t ∈ ts, isTag t = true → isScriptOrStyle t.data = false) →
    wellNestedAux (fs.map (·.name)) ts = true →
    ∃ ws toks, p.run st ts = (ws, false) ∧ RunWrites p ts ws toks ∧
      textOf toks = visibleTextAux p (countOf fs) (fs.map (·.name)) ts
  | [], fs, st, _, _, _, _, _, _ => ⟨[], [], rfl, ⟨rfl, by intro k hk; simp at hk⟩, by simp [textOf, visibleTextAux]⟩
  | t :: ts, fs, st, habs, hrec, hfs, hname, hnos, hwn => by
    have hname' : ∀ x ∈ ts, Props.NameOK x := fun x hx => hname x (by simp [hx])
    have hnos' : ∀ x ∈ ts, isTag x = true → isScriptOrStyle x.data = false := fun x hx => hnos x (by simp [hx])
    have hnost := hnos t (by simp)
    cases htt : t.tt with
    | start =>
      have hss : isScriptOrStyle t.data = false := hnost (by unfold isTag; rw [htt]; rfl)
      simp only [wellNestedAux, htt] at hwn
      cases hv : isVoidElement t.data with
      | true =>
        rw [voidElements_eq, hv] at hwn
        simp only [↓reduceIte] at hwn
        obtain ⟨st', ws1, toks1, hstep, habs', htw1, _⟩ := step_start_void p habs t htt hv
        have hrec' := step_recent p st t st' ws1 hstep hrec hnost
        obtain ⟨ws2, toks2, hr, htw2, hout⟩ := nest_text p hu hs ts fs st' habs' hrec' hfs hname' hnos' hwn
        refine ⟨ws1 ++ ws2, toks1 ++ toks2, run_cons_some p st st' t ts ws1 ws2 hstep hr, runWrites_cons htw1 htw2, ?_⟩
        rw [textOf_append, textOf_of_tag hs htw1 (by rw [htt]; simp), hout]
        simp only [List.nil_append, visibleTextAux, htt]
        rw [voidElements_eq, hv]
        simp
      | false =>
        rw [voidElements_eq, hv] at hwn
        simp only [Bool.false_eq_true, ↓reduceIte] at hwn
        have hn : t.data.head? ≠ some 47 := hname t (by simp) htt
        obtain ⟨st', f, ws1, toks1, hstep, hfn, habs', htw1, _⟩ := step_start_nonvoid p habs t htt hv hn
        have hrec' := step_recent p st t st' ws1 hstep hrec hnost
        have hwn' : wellNestedAux ((f :: fs).map (·.name)) ts = true := by simpa [hfn] using hwn
        have hfs' : ∀ g ∈ f :: fs, isScriptStyle g.name = false := by
          intro g hg
          simp only [List.mem_cons] at hg
          rcases hg with rfl | hg
          · rw [hfn]; exact hss
          · exact hfs g hg
        obtain ⟨ws2, toks2, hr, htw2, hout⟩ := nest_text p hu hs ts (f :: fs) st' habs' hrec' hfs' hname' hnos' hwn'
        refine ⟨ws1 ++ ws2, toks1 ++ toks2, run_cons_some p st st' t ts ws1 ws2 hstep hr, runWrites_cons htw1 htw2, ?_⟩
        have hcount := count_push habs'.ok (by unfold hiddenEl; rw [hfn, hss]; rfl)
        rw [textOf_append, textOf_of_tag hs htw1 (by rw [htt]; simp), hout, hcount, hfn]
        simp only [List.nil_append, visibleTextAux, htt, voidElements_eq, hv, Bool.false_eq_true, ↓reduceIte,
          List.map_cons, hfn]
        rfl
    | end_ =>
      simp only [wellNestedAux, htt] at hwn
      cases fs with
      | nil => simp at hwn
      | cons f fs' =>
        simp only [List.map_cons, Bool.and_eq_true, beq_iff_eq] at hwn
        obtain ⟨hfn, hwn'⟩ := hwn
        obtain ⟨st', ws1, toks1, hstep, habs', htw1, _⟩ := step_end p habs t htt hfn
        have hrec' := step_recent p st t st' ws1 hstep hrec hnost
        have hfs' : ∀ g ∈ fs', isScriptStyle g.name = false := fun g hg => hfs g (by simp [hg])
        obtain ⟨ws2, toks2, hr, htw2, hout⟩ := nest_text p hu hs ts fs' st' habs' hrec' hfs' hname' hnos' hwn'
        refine ⟨ws1 ++ ws2, toks1 ++ toks2, run_cons_some p st st' t ts ws1 ws2 hstep hr, runWrites_cons htw1 htw2, ?_⟩
        have hss : isScriptOrStyle f.name = false := hfs f (by simp)
        have hcount := count_push habs.ok (by unfold hiddenEl; rw [hss]; rfl)
        rw [textOf_append, textOf_of_tag hs htw1 (by rw [htt]; simp), hout]
        simp only [List.nil_append, visibleTextAux, htt, List.map_cons, List.tail_cons]
        rw [hcount, ← hfn]
        unfold hides
        rcases Bool.eq_false_or_eq_true (!allowsElement p f.name && p.setOfElementsToSkipContent.contains f.name) with hh | hh
        · simp only [hh, ↓reduceIte, Nat.add_sub_cancel]
        · simp only [hh, Bool.false_eq_true, ↓reduceIte]
    | selfClosing =>
      simp only [wellNestedAux, htt] at hwn
      obtain ⟨st', ws1, toks1, hstep, habs', htw1, _⟩ := step_self p habs t htt
      have hrec' := step_recent p st t st' ws1 hstep hrec hnost
      obtain ⟨ws2, toks2, hr, htw2, hout⟩ := nest_text p hu hs ts fs st' habs' hrec' hfs hname' hnos' hwn
      refine ⟨ws1 ++ ws2, toks1 ++ toks2, run_cons_some p st st' t ts ws1 ws2 hstep hr, runWrites_cons htw1 htw2, ?_⟩
      rw [textOf_append, textOf_of_tag hs htw1 (by rw [htt]; simp), hout]
      simp [visibleTextAux, htt]
    | comment =>
      simp only [wellNestedAux, htt] at hwn
      obtain ⟨st', ws1, toks1, hstep, habs', htw1, _⟩ := step_other p hu habs t (.inr (.inl htt))
      have hrec' := step_recent p st t st' ws1 hstep hrec hnost
      obtain ⟨ws2, toks2, hr, htw2, hout⟩ := nest_text p hu hs ts fs st' habs' hrec' hfs hname' hnos' hwn
      refine ⟨ws1 ++ ws2, toks1 ++ toks2, run_cons_some p st st' t ts ws1 ws2 hstep hr, runWrites_cons htw1 htw2, ?_⟩
      rw [textOf_append, textOf_of_tag hs htw1 (by rw [htt]; simp), hout]
      simp [visibleTextAux, htt]
    | doctype =>
      simp only [wellNestedAux, htt] at hwn
      obtain ⟨st', ws1, toks1, hstep, habs', htw1, _⟩ := step_other p hu habs t (.inr (.inr htt))
      have hrec' := step_recent p st t st' ws1 hstep hrec hnost
      obtain ⟨ws2, toks2, hr, htw2, hout⟩ := nest_text p hu hs ts fs st' habs' hrec' hfs hname' hnos' hwn
      refine ⟨ws1 ++ ws2, toks1 ++ toks2, run_cons_some p st st' t ts ws1 ws2 hstep hr, runWrites_cons htw1 htw2, ?_⟩
      rw [textOf_append, textOf_of_tag hs htw1 (by rw [htt]; simp), hout]
      simp [visibleTextAux, htt]
    | text =>
      simp only [wellNestedAux, htt] at hwn
      -- the text step, explicitly
      have hstep : p.step st t = some (st, if countOf fs != 0 then [] else [⟨t.render⟩]) := by
        simp only [Policy.step, htt, Policy.stepText, habs.skip, hrec, Bool.false_eq_true, ↓reduceIte]
      obtain ⟨ws2, toks2, hr, htw2, hout⟩ := nest_text p hu hs ts fs st habs hrec hfs hname' hnos' hwn
      have htop : (match fs.map (·.name) with | top :: _ => isScriptStyle top | [] => false) = false := by
        cases fs with
        | nil => rfl
        | cons f fs' => simp only [List.map_cons]; exact hfs f (by simp)
      cases hz : countOf fs == 0 with
      | true =>
        have hnz : (countOf fs != 0) = false := by simp [bne, hz]
        rw [hnz] at hstep
        simp only [Bool.false_eq_true, ↓reduceIte] at hstep
        refine ⟨[⟨t.render⟩] ++ ws2, [t] ++ toks2, run_cons_some p st st t ts _ ws2 hstep hr,
          runWrites_cons (tokWrites_one p t t (.inr (.inl ⟨rfl, .inl htt⟩))) htw2, ?_⟩
        have ht1 : textOf [t] = t.data := by
          have hb : (TT.text == TT.text) = true := by decide
          rw [textOf_cons, htt, hb]; simp [textOf]
        rw [textOf_append, hout, ht1]
        simp only [visibleTextAux, htt, hz]
        cases fs with
        | nil => simp
        | cons f fs' =>
          have := hfs f (by simp)
          simp [this]
      | false =>
        have hnz : (countOf fs != 0) = true := by simp [bne, hz]
        rw [hnz] at hstep
        simp only [↓reduceIte] at hstep
        refine ⟨[] ++ ws2, [] ++ toks2, run_cons_some p st st t ts _ ws2 hstep hr,
          runWrites_cons (tokWrites_nil p t) htw2, ?_⟩
        simp only [List.nil_append, hout, visibleTextAux, htt, hz, Bool.false_and, Bool.false_eq_true, ↓reduceIte]

end BM
