import BM.Proofs.Bytes
import BM.Proofs.RtComment
/-
  Byte-level lifting for policies that may allow comments (`PlainC`: no AllowUnsafe, no raw-text
  element on the allowlist; comments allowed or not).  Same construction as Proofs/Bytes with the
  round trip of Proofs/RtComment: the bytes returned are the serialisation of a list of texts,
  plain tags and comments, and the tokenizer reads that list back (comments with their data
  re-read).
-/
namespace BM
open Html Spec

structure PlainC (p : Policy) : Prop where
  noUnsafe : p.allowUnsafe = false
  noRaw : ∀ n, isRawTagName n = true → allowsElement p n = false

theorem Plain.toC {p : Policy} (h : Plain p) : PlainC p := ⟨h.noUnsafe, h.noRaw⟩

/-- where a written token comes from: as `FromToken`, or a comment of the input when comments are allowed -/
def FromTokenC (p : Policy) (t k : Token) : Prop :=
  FromToken p t k ∨ (k.tt = .comment ∧ t.tt = .comment ∧ k.data = t.data ∧ p.allowComments = true)

theorem emit_toksOn {p : Policy} (hu : p.allowUnsafe = false) {st : LoopState} {t : Token}
    (hraw : isRawTagName t.data = true → allowsElement p t.data = false) (hwf : TokWF t)
    {ws : List Write} (he : Emit p st t ws) :
    ∃ toks : List Token, ws.map (·.data) = toks.map Token.render ∧ ∀ k ∈ toks, SegOKC k ∧ FromTokenC p t k := by
  cases he with
  | nothing => exact ⟨[], rfl, by simp⟩
  | space hsp =>
    refine ⟨[⟨.text, [32], []⟩], by simp [render_space], ?_⟩
    intro k hk; simp at hk; subst hk
    exact ⟨.inl (by simp [SegOK]), .inl ⟨by simp [SegOK], .inl ⟨rfl, .inl ⟨rfl, hsp⟩⟩⟩⟩
  | comment htt hc =>
    refine ⟨[t], by simp, ?_⟩
    intro k hk; simp at hk; subst hk
    exact ⟨.inr htt, .inr ⟨htt, htt, rfl, hc⟩⟩
  | openTag aps attrs htt haps hss hattrs _ _ =>
    have hall := attrRulesFor_allows' haps
    have hnr : isRawTagName t.data = false := by
      cases h : isRawTagName t.data with
      | false => rfl
      | true => rw [hraw h] at hall; cases hall
    have hnss : isScriptOrStyle t.data = false := by
      simpa [hu] using hss
    refine ⟨[{ t with attrs := attrs }], by simp, ?_⟩
    intro k hk; simp at hk; subst hk
    rcases htt with h | h
    · have hw : NameOK' t.data ∧ ∀ a ∈ t.attrs, AttrOK a := by
        unfold TokWF at hwf; rw [h] at hwf; exact hwf
      have hseg : SegOK ({ t with attrs := attrs } : Token) := by
        unfold SegOK; simp only [h]
        exact ⟨hw.1, hnr, allOK_cleanAttrs p t aps attrs hw.2 hattrs⟩
      exact ⟨.inl hseg, .inl ⟨hseg, .inr ⟨rfl, rfl, hall, hnss⟩⟩⟩
    · have hw : NameOK' t.data ∧ ∀ a ∈ t.attrs, AttrOK a := by
        unfold TokWF at hwf; rw [h] at hwf; exact hwf
      have hseg : SegOK ({ t with attrs := attrs } : Token) := by
        unfold SegOK; simp only [h]
        exact ⟨hw.1, hnr, allOK_cleanAttrs p t aps attrs hw.2 hattrs⟩
      exact ⟨.inl hseg, .inl ⟨hseg, .inr ⟨rfl, rfl, hall, hnss⟩⟩⟩
  | closeTag htt hss hall =>
    have hw : NameOK' t.data ∧ t.attrs = [] := by
      unfold TokWF at hwf; rw [htt] at hwf; exact hwf
    have hnss : isScriptOrStyle t.data = false := by
      simpa [hu] using hss
    refine ⟨[t], by simp, ?_⟩
    intro k hk; simp at hk; subst hk
    have hseg : SegOK k := by unfold SegOK; simp only [htt]; exact hw
    exact ⟨.inl hseg, .inl ⟨hseg, .inr ⟨rfl, rfl, by simpa [allowsElement, Map.contains] using hall, hnss⟩⟩⟩
  | text htt _ _ =>
    refine ⟨[⟨.text, t.data, []⟩], by simp [Token.render, htt], ?_⟩
    intro k hk; simp at hk; subst hk
    exact ⟨.inl (by simp [SegOK]), .inl ⟨by simp [SegOK], .inl ⟨rfl, .inr ⟨htt, rfl⟩⟩⟩⟩
  | rawText _ hun _ => rw [hu] at hun; cases hun

theorem emit_toksC {p : Policy} (hp : PlainC p) {st : LoopState} {t : Token} (hwf : TokWF t)
    {ws : List Write} (he : Emit p st t ws) :
    ∃ toks : List Token, ws.map (·.data) = toks.map Token.render ∧ ∀ k ∈ toks, SegOKC k ∧ FromTokenC p t k :=
  emit_toksOn hp.noUnsafe (hp.noRaw t.data) hwf he

theorem run_toksC {p : Policy} (hp : PlainC p) (ts : List Token) (hwf : ∀ t ∈ ts, TokWF t) :
    ∀ st, ∃ toks : List Token, (p.run st ts).1.map (·.data) = toks.map Token.render ∧
      ∀ k ∈ toks, SegOKC k ∧ ∃ t ∈ ts, FromTokenC p t k := by
  induction ts with
  | nil => intro st; exact ⟨[], by simp [Policy.run], by simp⟩
  | cons t ts ih =>
    intro st
    unfold Policy.run
    split
    · exact ⟨[], by simp, by simp⟩
    · rename_i st' ws hs
      obtain ⟨k1, hk1, hf1⟩ := emit_toksC hp (hwf t (by simp)) (step_emit p st t st' ws hs)
      obtain ⟨k2, hk2, hf2⟩ := ih (fun x hx => hwf x (by simp [hx])) st'
      refine ⟨k1 ++ k2, by simp [hk1, hk2], ?_⟩
      intro k hk
      simp only [List.mem_append] at hk
      rcases hk with h | h
      · exact ⟨(hf1 k h).1, t, by simp, (hf1 k h).2⟩
      · obtain ⟨hs', t', ht', hft⟩ := hf2 k h
        exact ⟨hs', t', by simp [ht'], hft⟩

/-- **the output bytes of a policy without AllowUnsafe and raw-text elements are the serialisation
    of a list of texts, plain tags and comments**, and the tokenizer reads exactly that list back,
    comment data re-read -/
theorem sanitizeTokens_roundtripC {p : Policy} (hp : PlainC p) (ts : List Token) (hwf : ∀ t ∈ ts, TokWF t) :
    ∃ toks : List Token, p.sanitizeTokens ts = renderAll toks ∧
      tokenize (p.sanitizeTokens ts) = coalesce [] (toks.map reread) ∧
      ∀ k ∈ toks, SegOKC k ∧ ∃ t ∈ ts, FromTokenC p t k := by
  obtain ⟨toks, hr, hf⟩ := run_toksC hp ts hwf {}
  have hb : p.sanitizeTokens ts = renderAll toks := by
    unfold Policy.sanitizeTokens
    rw [hr, flatten_map_render]
  refine ⟨toks, hb, ?_, hf⟩
  rw [hb]
  exact tokenize_renderAllC toks fun k hk => (hf k hk).1

/-- the hypothesis of the round trip for one run: no AllowUnsafe, and every raw-text tag *of this input*
    names an element the policy does not allow (so no raw-text tag is written) -/
structure PlainOn (p : Policy) (ts : List Token) : Prop where
  noUnsafe : p.allowUnsafe = false
  noRaw : ∀ t ∈ ts, isRawTagName t.data = true → allowsElement p t.data = false

theorem PlainC.on {p : Policy} (h : PlainC p) (ts : List Token) : PlainOn p ts := ⟨h.noUnsafe, fun t _ => h.noRaw t.data⟩

theorem run_toksOn {p : Policy} (hu : p.allowUnsafe = false) (ts : List Token) (hwf : ∀ t ∈ ts, TokWF t)
    (hraw : ∀ t ∈ ts, isRawTagName t.data = true → allowsElement p t.data = false) :
    ∀ st, ∃ toks : List Token, (p.run st ts).1.map (·.data) = toks.map Token.render ∧
      ∀ k ∈ toks, SegOKC k ∧ ∃ t ∈ ts, FromTokenC p t k := by
  induction ts with
  | nil => intro st; exact ⟨[], by simp [Policy.run], by simp⟩
  | cons t ts ih =>
    intro st
    unfold Policy.run
    split
    · exact ⟨[], by simp, by simp⟩
    · rename_i st' ws hs
      obtain ⟨k1, hk1, hf1⟩ := emit_toksOn hu (hraw t (by simp)) (hwf t (by simp)) (step_emit p st t st' ws hs)
      obtain ⟨k2, hk2, hf2⟩ := ih (fun x hx => hwf x (by simp [hx])) (fun x hx => hraw x (by simp [hx])) st'
      refine ⟨k1 ++ k2, by simp [hk1, hk2], ?_⟩
      intro k hk
      simp only [List.mem_append] at hk
      rcases hk with h | h
      · exact ⟨(hf1 k h).1, t, by simp, (hf1 k h).2⟩
      · obtain ⟨hs', t', ht', hft⟩ := hf2 k h
        exact ⟨hs', t', by simp [ht'], hft⟩

/-- **the round trip for one run**: for a policy without AllowUnsafe — raw-text elements on its allowlist or
    not — and a token list none of whose raw-text tags the policy allows, the bytes written are the
    serialisation of a list of texts, plain tags and comments, and the tokenizer reads exactly that list back -/
theorem sanitizeTokens_roundtripOn {p : Policy} (ts : List Token) (hp : PlainOn p ts) (hwf : ∀ t ∈ ts, TokWF t) :
    ∃ toks : List Token, p.sanitizeTokens ts = renderAll toks ∧
      tokenize (p.sanitizeTokens ts) = coalesce [] (toks.map reread) ∧
      ∀ k ∈ toks, SegOKC k ∧ ∃ t ∈ ts, FromTokenC p t k := by
  obtain ⟨toks, hr, hf⟩ := run_toksOn hp.noUnsafe ts hwf hp.noRaw {}
  have hb : p.sanitizeTokens ts = renderAll toks := by
    unfold Policy.sanitizeTokens
    rw [hr, flatten_map_render]
  refine ⟨toks, hb, ?_, hf⟩
  rw [hb]
  exact tokenize_renderAllC toks fun k hk => (hf k hk).1

end BM
