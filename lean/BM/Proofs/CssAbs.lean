import BM.Proofs.CssClean
/-
  A static analysis of Go-lite handler bodies and its soundness against the interpreter (C18).

  The analysis (`acheck`) follows every path of a handler body and accepts the body if every
  `return e` it finds can only return true when the value has been shown free of hostile bytes
  (backslash, `<`, `>`, `@`): through `in(pieces, constants)`, a whole-value regexp with a clean
  alphabet, another accepted handler, `recursiveCheck` over accepted handlers — applied to the
  value itself or to pieces that cover it (`splitValues`, `strings.Split`, `multiSplit`,
  `strings.TrimSpace`, `[]string{value}`) — directly, under `&&` / `||`, behind `if … { return … }`
  guards, or element by element in a `for … range` loop that returns false on the first element
  it cannot vouch for.  Anything it does not understand makes it refuse, never accept.

  `acheck_sound`: for a context whose handlers in `closed` all pass the analysis, a call of any of
  them that returns true was made on a value without hostile bytes — by induction on the
  interpreter's fuel, for every value.
-/
namespace BM.Golite
open BM

/-- whose cleanliness a variable vouches for -/
inductive Target where
  | param     -- the handler's parameter
  | elem      -- the current element of the enclosing `for … range` loop
  deriving DecidableEq, Repr

inductive AV where
  | covS (t : Target)  -- a string: if it is clean, so is the target
  | covL (t : Target)  -- a list of strings: if all are clean, so is the target
  | cleanS             -- a string without hostile bytes
  | cleanL             -- a list of strings without hostile bytes
  | funcs              -- a list of handlers that all pass the analysis
  | other
  deriving DecidableEq, Repr

structure ACtx where
  closedFns : List String
  closedRes : List String

def cleanB (s : Bytes) : Bool := s.all fun c => !hostile c

def isCleanLit : Expr → Bool
  | .str s => cleanB s
  | _ => false

def isSepLit : Expr → Bool
  | .str s => cleanB s && !s.isEmpty
  | _ => false

abbrev AEnv := String → AV
def AEnv.set (ρ : AEnv) (n : String) (v : AV) : AEnv := fun m => if m == n then v else ρ m

/-- the target a string-valued variable vouches for -/
def covOf (ρ : AEnv) : Expr → Option Target
  | .var n => match ρ n with
    | .covS t => some t
    | _ => none
  | _ => none

/-- the abstract value of an expression (arguments of calls must be variables) -/
def aeval (A : ACtx) (ρ : AEnv) : Expr → AV
  | .var n => ρ n
  | .str s => if cleanB s then .cleanS else .other
  | .strs es =>
    if es.all isCleanLit then .cleanL
    else match es with
      | [e] => match covOf ρ e with
        | some t => .covL t
        | none => .other
      | _ => .other
  | .funcs names => if names.all (A.closedFns.contains ·) then .funcs else .other
  | .call f args =>
    match args with
    | [e] =>
      if f == "splitValues" then
        match covOf ρ e with
        | some t => .covL t
        | none => .other
      else if f == "strings.TrimSpace" then
        match covOf ρ e with
        | some t => .covS t
        | none => .other
      else .other
    | e :: seps =>
      if (f == "strings.Split" && seps.length == 1 || f == "multiSplit") && seps.all isSepLit then
        match covOf ρ e with
        | some t => .covL t
        | none => .other
      else .other
    | [] => .other
  | _ => .other

/-- "if this boolean expression evaluates to true, the target is clean" -/
def aimp (A : ACtx) (ρ : AEnv) (t : Target) : Expr → Bool
  | .bool b => !b
  | .call f args =>
    match args with
    | [a, b] =>
      if f == "in" then aeval A ρ a == .covL t && aeval A ρ b == .cleanL
      else if f == "recursiveCheck" then aeval A ρ a == .covL t && aeval A ρ b == .funcs
      else false
    | [a] =>
      aeval A ρ a == .covS t &&
        (A.closedFns.contains f ||
         (match f.splitOn ":" with
          | ["re.MatchString", r] => A.closedRes.contains r
          | _ => false))
    | _ => false
  | .bin op a b =>
    if op == "&&" then aimp A ρ t a || aimp A ρ t b
    else if op == "||" then aimp A ρ t a && aimp A ρ t b
    else false
  | _ => false

/-- a statement list that cannot be left through its end -/
def noFall (l : List Stmt) : Bool :=
  match l.getLast? with
  | some (.ret _) => true
  | some .cont => true
  | _ => false

def forget : AEnv := fun _ => .other

/-- forget what is known about the variables `ns` -/
def havoc (ρ : AEnv) (ns : List String) : AEnv := fun m => if ns.contains m then .other else ρ m

/-- the variables a statement list may assign (loop variables included); `none` = out of fuel -/
def assignedIn : Nat → List Stmt → Option (List String)
  | 0, _ => none
  | _, [] => some []
  | fuel + 1, s :: rest =>
    match assignedIn fuel rest with
    | none => none
    | some r =>
      match s with
      | .assign n _ => some (n :: r)
      | .ifS _ thn els =>
        match assignedIn fuel thn, assignedIn fuel els with
        | some a, some b => some (a ++ b ++ r)
        | _, _ => none
      | .forRange v _ body =>
        match assignedIn fuel body with
        | some a => some (v :: a ++ r)
        | none => none
      | _ => some r

/-- the analysis of a statement list.  `est`: the parameter is already known to be clean on this
    path; `estX`: so is the current loop element; `inLoop`: the list is (part of) a loop body, so
    leaving it through its end or through `continue` must have established `estX`. -/
def acheck (A : ACtx) : Nat → Bool → Bool → Bool → AEnv → List Stmt → Bool
  | 0, _, _, _, _, _ => false
  | _, _, estX, inLoop, _, [] => !inLoop || estX
  | fuel + 1, est, estX, inLoop, ρ, s :: rest =>
    match s with
    | .assign n e => acheck A fuel est estX inLoop (ρ.set n (aeval A ρ e)) rest
    | .ret e => est || aimp A ρ .param e
    | .brk => false
    | .cont => inLoop && estX
    | .ifS c thn els =>
      acheck A fuel (est || aimp A ρ .param c) (estX || aimp A ρ .elem c) inLoop ρ thn &&
      acheck A fuel est estX inLoop ρ els &&
      (if noFall thn && els.isEmpty then
         -- the rest is reached only when `c` was false
         let neg : Target → Bool := fun t => match c with
           | .not c' => aimp A ρ t c'
           | _ => false
         acheck A fuel (est || neg .param) (estX || neg .elem) inLoop ρ rest
       else acheck A fuel est estX inLoop forget rest)
    | .forRange v e body =>
      !inLoop &&
      (match aeval A ρ e with
       | .covL .param =>
         -- every element is vouched for before the loop is left through its end; the body sees the
         -- variables it does not assign itself as they were before the loop
         (match assignedIn fuel body with
          | none => false
          | some ns =>
            acheck A fuel est false true ((havoc ρ ns).set v (.covS .elem)) body &&
            acheck A fuel true false false forget rest)
       | _ => false)

/-! ### environments -/

theorem Env.get?_set (env : Env) (n m : String) (v : Val) :
    (env.set n v).get? m = if m == n then some v else env.get? m := by
  induction env with
  | nil =>
    simp only [Env.set, Env.get?]
    by_cases h : n = m
    · subst h; simp
    · have h1 : (n == m) = false := by simpa using h
      have h2 : (m == n) = false := by simpa using fun e => h e.symm
      simp [h1, h2]
  | cons kv rest ih =>
    obtain ⟨k, v'⟩ := kv
    unfold Env.set
    by_cases hk : (k == n) = true
    · have hkn : k = n := by simpa using hk
      subst hkn
      simp only [beq_self_eq_true, ↓reduceIte, Env.get?]
      by_cases hm : k = m
      · subst hm; simp
      · have h1 : (k == m) = false := by simpa using hm
        have h2 : (m == k) = false := by simpa using fun e => hm e.symm
        simp [h1, h2]
    · have hk' : (k == n) = false := by simpa using hk
      simp only [hk', Bool.false_eq_true, ↓reduceIte, Env.get?]
      rw [ih]
      by_cases hm : (k == m) = true
      · have hkm : k = m := by simpa using hm
        subst hkm
        have : (k == n) = false := hk'
        simp [this]
      · have hm' : (k == m) = false := by simpa using hm
        simp [hm']

/-! ### what the abstract values mean -/

/-- the values the targets stand for: the handler's argument and the current loop element -/
structure Targets where
  param : Bytes
  elem : Bytes

def Targets.get (tv : Targets) : Target → Bytes
  | .param => tv.param
  | .elem => tv.elem

def AVsem (A : ACtx) (tv : Targets) : AV → Val → Prop
  | .covS t, v => ∃ s, v = .str s ∧ (Clean s → Clean (tv.get t))
  | .covL t, v => ∃ l, v = .strs l ∧ (CleanL l → Clean (tv.get t))
  | .cleanS, v => ∃ s, v = .str s ∧ Clean s
  | .cleanL, v => ∃ l, v = .strs l ∧ CleanL l
  | .funcs, v => ∃ fs, v = .funcs fs ∧ ∀ f ∈ fs, f ∈ A.closedFns
  | .other, _ => True

/-- the abstract environment describes the concrete one -/
def Rel (A : ACtx) (tv : Targets) (ρ : AEnv) (env : Env) : Prop :=
  ∀ n val, env.get? n = some val → AVsem A tv (ρ n) val

theorem Rel.set {A : ACtx} {tv : Targets} {ρ : AEnv} {env : Env} (h : Rel A tv ρ env) (n : String) (a : AV) (v : Val)
    (hv : AVsem A tv a v) : Rel A tv (ρ.set n a) (env.set n v) := by
  intro m val hm
  rw [Env.get?_set] at hm
  unfold AEnv.set
  by_cases hmn : (m == n) = true
  · simp only [hmn, ↓reduceIte, Option.some.injEq] at hm ⊢
    subst hm; exact hv
  · have : (m == n) = false := by simpa using hmn
    simp only [this, Bool.false_eq_true, ↓reduceIte] at hm ⊢
    exact h m val hm

theorem Rel.forget (A : ACtx) (tv : Targets) (env : Env) : Rel A tv forget env := fun _ _ _ => trivial

theorem cleanB_iff (s : Bytes) : cleanB s = true ↔ Clean s := by
  unfold cleanB Clean
  simp only [List.all_eq_true, Bool.not_eq_true']

end BM.Golite
