import BM.Proofs.CssClean
import BM.Proofs.CssDelete
/-
  A static analysis of Go-lite handler bodies and its soundness against the interpreter (C18).

  The analysis (`acheck`) follows every path of a handler body and accepts the body if every
  `return e` it finds can only return true when the value has been shown free of hostile bytes
  (backslash, `<`, `>`, `@`): through `in(pieces, constants)`, a whole-value regexp with a clean
  alphabet, another accepted handler, `recursiveCheck` over accepted handlers — applied to the
  value itself or to pieces that cover it (`splitValues`, `strings.Split`, `multiSplit`,
  `strings.TrimSpace`, `[]string{value}`) — directly, under `&&` / `||`, behind `if … { return … }`
  guards, or element by element in a `for … range` loop that returns false on the first element
  it cannot vouch for.  Anything it does not understand makes it refuse, never accept.

  `acheck_sound`: for a context whose handlers in `closed` all pass the analysis, a call of any of
  them that returns true was made on a value without hostile bytes — by induction on the
  interpreter's fuel, for every value.
-/
namespace BM.Golite
open BM

/-- whose cleanliness a variable vouches for -/
inductive Target where
  | param     -- the handler's parameter
  | elem      -- the current element of the enclosing `for … range` loop
  deriving DecidableEq, Repr

inductive AV where
  | covS (t : Target)  -- a string: if it is clean, so is the target
  | covL (t : Target)  -- a list of strings: if all are clean, so is the target
  | cleanS             -- a string without hostile bytes
  | cleanL             -- a list of strings without hostile bytes
  | funcs              -- a list of handlers that all pass the analysis
  | anyBool            -- a boolean
  | flag (t : Target)  -- a boolean that is true only if the target is clean
  | other
  deriving DecidableEq, Repr

structure ACtx where
  closedFns : List String
  closedRes : List String
  /-- regexps (anchored or not) that consume nothing but inert characters: what `FindString` returns
      is clean, and deleting their matches removes no hostile byte -/
  inertRes : List String := []

def cleanB (s : Bytes) : Bool := s.all fun c => !hostile c

def isCleanLit : Expr → Bool
  | .str s => cleanB s
  | _ => false

def isSepLit : Expr → Bool
  | .str s => cleanB s && !s.isEmpty
  | _ => false

abbrev AEnv := String → AV
def AEnv.set (ρ : AEnv) (n : String) (v : AV) : AEnv := fun m => if m == n then v else ρ m

/-- the target a string-valued variable vouches for -/
def covOf (ρ : AEnv) : Expr → Option Target
  | .var n => match ρ n with
    | .covS t => some t
    | _ => none
  | _ => none

/-- the target the first argument of `strings.Split` vouches for: a variable, or
    `strings.TrimSuffix(variable, clean literal)` -/
def covArg (ρ : AEnv) : Expr → Option Target
  | .call g [e, lit] => if g == "strings.TrimSuffix" && isSepLit lit then covOf ρ e else none
  | e => covOf ρ e

/-- the abstract value of an expression (arguments of calls must be variables) -/
def aeval (A : ACtx) (ρ : AEnv) : Expr → AV
  | .var n => ρ n
  | .str s => if cleanB s then .cleanS else .other
  | .strs es =>
    if es.all isCleanLit then .cleanL
    else match es with
      | [e] => match covOf ρ e with
        | some t => .covL t
        | none => .other
      | _ => .other
  | .funcs names => if names.all (A.closedFns.contains ·) then .funcs else .other
  | .bool _ => .anyBool
  | .call f args =>
    match args with
    | [e] =>
      if f == "splitValues" then
        match covOf ρ e with
        | some t => .covL t
        | none => .other
      else if f == "strings.TrimSpace" then
        match covOf ρ e with
        | some t => .covS t
        | none => .other
      else .other
    | e :: seps =>
      if (f == "strings.Split" && seps.length == 1 || f == "multiSplit") && seps.all isSepLit then
        match covOf ρ e with
        | some t => .covL t
        | none =>
          if f == "strings.Split" then
            match covArg ρ e with
            | some t => .covL t
            | none => .other
          else .other
      else if f == "strings.TrimSuffix" && seps.length == 1 && seps.all isSepLit then
        match covOf ρ e with
        | some t => .covS t
        | none =>
          match e with
          | .reDelete r e' =>
            if A.inertRes.contains r then
              match covOf ρ e' with
              | some t => .covS t
              | none => .other
            else .other
          | _ => .other
      else .other
    | [] => .other
  | .reDelete r e =>
    if A.inertRes.contains r then
      match covOf ρ e with
      | some t => .covS t
      | none => .other
    else .other
  | _ => .other

/-- `R.FindString(x) + lit == b`: then `b` is what an inert regexp found, followed by a clean literal -/
def findEq (A : ACtx) (ρ : AEnv) (t : Target) (a b : Expr) : Bool :=
  match a with
  | .bin op2 (.reFind r _) (.str lit) => op2 == "+" && A.inertRes.contains r && cleanB lit && aeval A ρ b == .covS t
  | _ => false

/-- "if this boolean expression evaluates to true, the target is clean" -/
def aimp (A : ACtx) (ρ : AEnv) (t : Target) : Expr → Bool
  | .bool b => !b
  | .var n => ρ n == .flag t
  | .call f args =>
    match args with
    | [a, b] =>
      if f == "in" then aeval A ρ a == .covL t && aeval A ρ b == .cleanL
      else if f == "recursiveCheck" then aeval A ρ a == .covL t && aeval A ρ b == .funcs
      else false
    | _ => false
  | .handler f a => aeval A ρ a == .covS t && A.closedFns.contains f
  | .reMatch r a => aeval A ρ a == .covS t && A.closedRes.contains r
  | .bin op a b =>
    if op == "&&" then aimp A ρ t a || aimp A ρ t b
    else if op == "||" then aimp A ρ t a && aimp A ρ t b
    else if op == "==" then findEq A ρ t a b
    else false
  | _ => false

/-! ### facts about the elements of a list variable

`(L, i, false)`: if the list held by variable `L` has an element at index `i`, that element is clean;
`(L, i, true)`: every element of `L` at an index `≥ i` is clean (so `len(L) ≤ i` is such a fact).
A condition that compares `len(L)` with a constant, applies an accepted handler or regexp to `L[i]`,
or passes `L`, `L[k:]` or `[]string{L[i]}` to `in` / `recursiveCheck`, yields facts when it is true
and when it is false. -/

abbrev Fact := String × Nat × Bool
abbrev Facts := List Fact

def Fact.implied (F : Facts) (f : Fact) : Bool :=
  F.any fun g => g.1 == f.1 && (if f.2.2 then g.2.2 && decide (g.2.1 ≤ f.2.1)
    else (!g.2.2 && g.2.1 == f.2.1) || (g.2.2 && decide (g.2.1 ≤ f.2.1)))

/-- the facts that hold when either set holds -/
def Facts.inter (F G : Facts) : Facts := F.filter (Fact.implied G) ++ G.filter (Fact.implied F)

/-- every element of `L` is vouched for -/
def coversAll (F : Facts) (L : String) : Bool :=
  F.any fun g => g.1 == L && g.2.2 && (List.range g.2.1).all fun i => Fact.implied F (L, i, false)

/-- some list variable that covers target `t` has all its elements vouched for -/
def covered (F : Facts) (ρ : AEnv) (t : Target) : Bool :=
  F.any fun g => ρ g.1 == .covL t && coversAll F g.1

/-- `L` ↦ `(L, 0)`, `L[k:]` ↦ `(L, k)` -/
def listRef : Expr → Option (String × Nat)
  | .var L => some (L, 0)
  | .sliceFrom (.var L) (.int k) => if k < 0 then none else some (L, k.toNat)
  | _ => none

/-- `L[i]` ↦ `(L, i)` -/
def elemRef : Expr → Option (String × Nat)
  | .index (.var L) (.int i) => if i < 0 then none else some (L, i.toNat)
  | _ => none

/-- what a list argument of `in` / `recursiveCheck` vouches for when the call is true -/
def listArgFacts : Expr → Facts
  | .strs [e] => match elemRef e with
    | some (L, i) => [(L, i, false)]
    | none => []
  | e => match listRef e with
    | some (L, k) => [(L, k, true)]
    | none => []

/-- `len(L) op n` with the given truth value bounds the length: `len(L) ≤ k` -/
def lenBound (op : String) (n : Int) (pol : Bool) : Option Int :=
  if pol then
    (if op == "<" then some (n - 1) else if op == "<=" then some n else if op == "==" then some n else none)
  else
    (if op == ">" then some n else if op == ">=" then some (n - 1) else if op == "!=" then some n else none)

def isListAV : AV → Bool
  | .covL _ => true
  | .cleanL => true
  | _ => false

def lenFacts (ρ : AEnv) (op : String) (a b : Expr) (pol : Bool) : Facts :=
  match a, b with
  | .call f [.var L], .int n =>
    if f == "len" && isListAV (ρ L) then
      match lenBound op n pol with
      | some k => [(L, k.toNat, true)]
      | none => []
    else []
  | _, _ => []

/-- the facts that hold when `e` evaluates to `pol` -/
def facts (A : ACtx) (ρ : AEnv) : Bool → Expr → Facts
  | pol, .not e => facts A ρ (!pol) e
  | pol, .bin op a b =>
    if op == "&&" then
      (if pol then facts A ρ true a ++ facts A ρ true b else Facts.inter (facts A ρ false a) (facts A ρ false b))
    else if op == "||" then
      (if pol then Facts.inter (facts A ρ true a) (facts A ρ true b) else facts A ρ false a ++ facts A ρ false b)
    else lenFacts ρ op a b pol
  | true, .handler f a =>
    if A.closedFns.contains f then
      match elemRef a with
      | some (L, i) => [(L, i, false)]
      | none => []
    else []
  | true, .reMatch r a =>
    if A.closedRes.contains r then
      match elemRef a with
      | some (L, i) => [(L, i, false)]
      | none => []
    else []
  | true, .call f [a, b] =>
    if f == "in" then (if aeval A ρ b == .cleanL then listArgFacts a else [])
    else if f == "recursiveCheck" then (if aeval A ρ b == .funcs then listArgFacts a else [])
    else []
  | _, _ => []

/-- a statement list that cannot be left through its end -/
def noFall (l : List Stmt) : Bool :=
  match l.getLast? with
  | some (.ret _) => true
  | some .cont => true
  | _ => false

def forget : AEnv := fun _ => .other

/-- forget what is known about the variables `ns` -/
def havoc (ρ : AEnv) (ns : List String) : AEnv := fun m => if ns.contains m then .other else ρ m

/-- forget what was said about the element of an enclosing loop -/
def dropTag : AV → AV
  | .covS .elem => .other
  | .covL .elem => .other
  | .flag .elem => .other
  | a => a

def dropElem (ρ : AEnv) : AEnv := fun m => dropTag (ρ m)

/-- the variables a statement list may assign (loop variables included); `none` = out of fuel -/
def assignedIn : Nat → List Stmt → Option (List String)
  | 0, _ => none
  | _, [] => some []
  | fuel + 1, s :: rest =>
    match assignedIn fuel rest with
    | none => none
    | some r =>
      match s with
      | .assign n _ => some (n :: r)
      | .ifS _ thn els =>
        match assignedIn fuel thn, assignedIn fuel els with
        | some a, some b => some (a ++ b ++ r)
        | _, _ => none
      | .forRange v _ body =>
        match assignedIn fuel body with
        | some a => some (v :: a ++ r)
        | none => none
      | _ => some r

/-- "if this boolean expression evaluates to false, the target is clean" -/
def aimpF (A : ACtx) (ρ : AEnv) (t : Target) : Expr → Bool
  | .not c' => aimp A ρ t c'
  | .bin op (.var n) (.str lit) => op == "!=" && ρ n == .covS t && cleanB lit
  | _ => false

/-- the body of an accumulating loop: every statement appends to `acc` or branches.  The result says
    whether every path has appended something that covers the loop element, or has established that
    the element is clean (what else is appended does not matter: more to check is not less) -/
def accOK (A : ACtx) (ρ : AEnv) (acc : String) : Nat → Bool → List Stmt → Option Bool
  | 0, _, _ => none
  | _, done, [] => some done
  | fuel + 1, done, .assign n (.call f [.var a, x]) :: rest =>
    if n == acc && a == acc && f == "append" then accOK A ρ acc fuel (done || aeval A ρ x == .covS .elem) rest
    else if n == acc && a == acc && f == "appendSpread" then accOK A ρ acc fuel (done || aeval A ρ x == .covL .elem) rest
    else none
  | fuel + 1, done, .ifS c thn els :: rest =>
    match accOK A ρ acc fuel (done || aimp A ρ .elem c) thn, accOK A ρ acc fuel (done || aimpF A ρ .elem c) els with
    | some d1, some d2 => accOK A ρ acc fuel (d1 && d2) rest
    | _, _ => none
  | _, _, _ => none

/-- `if !cnd { flag = false; break }` as the whole body of a loop -/
def flagBody? : List Stmt → Option (Expr × String)
  | [.ifS (.not cnd) [.assign flag (.bool false), .brk] []] => some (cnd, flag)
  | _ => none

/-- the analysis of a statement list.  `est`: the parameter is already known to be clean on this
    path; `estX`: so is the current loop element; `inLoop`: the list is inside a loop body, so a
    `continue` must have established `estX`; `endsBody`: the end of the list is the end of the loop
    body, so reaching it must have established `estX` as well. -/
def acheck (A : ACtx) : Nat → Bool → Bool → Bool → Bool → AEnv → Facts → List Stmt → Bool
  | 0, _, _, _, _, _, _, _ => false
  | _, _, estX, _, endsBody, ρ, Φ, [] => !endsBody || estX || covered Φ ρ .elem
  | fuel + 1, est, estX, inLoop, endsBody, ρ, Φ, s :: rest =>
    match s with
    | .assign n e =>
      acheck A fuel est estX inLoop endsBody (ρ.set n (aeval A ρ e)) (Φ.filter fun g => g.1 != n) rest
    | .ret e => est || aimp A ρ .param e || covered (Φ ++ facts A ρ true e) ρ .param
    | .brk => false
    | .cont => inLoop && (estX || covered Φ ρ .elem)
    | .ifS c thn els =>
      acheck A fuel (est || aimp A ρ .param c) (estX || aimp A ρ .elem c) inLoop false ρ (Φ ++ facts A ρ true c) thn &&
      acheck A fuel est estX inLoop false ρ (Φ ++ facts A ρ false c) els &&
      (if noFall thn && els.isEmpty then
         -- the rest is reached only when `c` was false
         let neg : Target → Bool := fun t => match c with
           | .not c' => aimp A ρ t c'
           | _ => false
         acheck A fuel (est || neg .param) (estX || neg .elem) inLoop endsBody ρ (Φ ++ facts A ρ false c) rest
       else acheck A fuel est estX inLoop endsBody forget [] rest)
    | .forRange v e body =>
      !inLoop && !endsBody &&
      (match aeval A ρ e with
       | .covL .param =>
         -- every element is vouched for before the loop is left through its end; the body sees the
         -- variables it does not assign itself as they were before the loop
         (match assignedIn fuel body with
          | none => false
          | some ns =>
            acheck A fuel est false true true ((dropElem (havoc ρ (v :: ns))).set v (.covS .elem)) [] body &&
            acheck A fuel true false false false forget [] rest) ||
         -- a loop that clears a flag and stops at the first element a check refuses: afterwards the flag
         -- is still true only if every element passed
         (match flagBody? body with
          | some (cnd, flag) =>
            flag != v && (ρ flag == .anyBool || ρ flag == .flag .param) &&
            aimp A ((dropElem (havoc ρ [v, flag])).set v (.covS .elem)) .elem cnd &&
            acheck A fuel est false false false ((havoc ρ [v, flag]).set flag (.flag .param)) [] rest
          | none => false) ||
         -- a loop that only appends to a list: afterwards the list covers what the loop ranged over
         (match assignedIn fuel body with
          | some (acc :: _) =>
            acc != v && isListAV (ρ acc) &&
            accOK A ((dropElem (havoc ρ [v, acc])).set v (.covS .elem)) acc fuel false body == some true &&
            acheck A fuel est false false false ((havoc ρ [v, acc]).set acc (.covL .param)) [] rest
          | _ => false)
       | _ => false)

/-! ### environments -/

theorem Env.get?_set (env : Env) (n m : String) (v : Val) :
    (env.set n v).get? m = if m == n then some v else env.get? m := by
  induction env with
  | nil =>
    simp only [Env.set, Env.get?]
    by_cases h : n = m
    · subst h; simp
    · have h1 : (n == m) = false := by simpa using h
      have h2 : (m == n) = false := by simpa using fun e => h e.symm
      simp [h1, h2]
  | cons kv rest ih =>
    obtain ⟨k, v'⟩ := kv
    unfold Env.set
    by_cases hk : (k == n) = true
    · have hkn : k = n := by simpa using hk
      subst hkn
      simp only [beq_self_eq_true, ↓reduceIte, Env.get?]
      by_cases hm : k = m
      · subst hm; simp
      · have h1 : (k == m) = false := by simpa using hm
        have h2 : (m == k) = false := by simpa using fun e => hm e.symm
        simp [h1, h2]
    · have hk' : (k == n) = false := by simpa using hk
      simp only [hk', Bool.false_eq_true, ↓reduceIte, Env.get?]
      rw [ih]
      by_cases hm : (k == m) = true
      · have hkm : k = m := by simpa using hm
        subst hkm
        have : (k == n) = false := hk'
        simp [this]
      · have hm' : (k == m) = false := by simpa using hm
        simp [hm']

/-! ### what the abstract values mean -/

/-- the values the targets stand for: the handler's argument and the current loop element -/
structure Targets where
  param : Bytes
  elem : Bytes

def Targets.get (tv : Targets) : Target → Bytes
  | .param => tv.param
  | .elem => tv.elem

def AVsem (A : ACtx) (tv : Targets) : AV → Val → Prop
  | .covS t, v => ∃ s, v = .str s ∧ (Clean s → Clean (tv.get t))
  | .covL t, v => ∃ l, v = .strs l ∧ (CleanL l → Clean (tv.get t))
  | .cleanS, v => ∃ s, v = .str s ∧ Clean s
  | .cleanL, v => ∃ l, v = .strs l ∧ CleanL l
  | .funcs, v => ∃ fs, v = .funcs fs ∧ ∀ f ∈ fs, f ∈ A.closedFns
  | .anyBool, v => ∃ b, v = .bool b
  | .flag t, v => ∃ b, v = .bool b ∧ (b = true → Clean (tv.get t))
  | .other, _ => True

/-- the abstract environment describes the concrete one -/
def Rel (A : ACtx) (tv : Targets) (ρ : AEnv) (env : Env) : Prop :=
  ∀ n val, env.get? n = some val → AVsem A tv (ρ n) val

theorem Rel.set {A : ACtx} {tv : Targets} {ρ : AEnv} {env : Env} (h : Rel A tv ρ env) (n : String) (a : AV) (v : Val)
    (hv : AVsem A tv a v) : Rel A tv (ρ.set n a) (env.set n v) := by
  intro m val hm
  rw [Env.get?_set] at hm
  unfold AEnv.set
  by_cases hmn : (m == n) = true
  · simp only [hmn, ↓reduceIte, Option.some.injEq] at hm ⊢
    subst hm; exact hv
  · have : (m == n) = false := by simpa using hmn
    simp only [this, Bool.false_eq_true, ↓reduceIte] at hm ⊢
    exact h m val hm

theorem Rel.forget (A : ACtx) (tv : Targets) (env : Env) : Rel A tv forget env := fun _ _ _ => trivial

theorem cleanB_iff (s : Bytes) : cleanB s = true ↔ Clean s := by
  unfold cleanB Clean
  simp only [List.all_eq_true, Bool.not_eq_true']

/-! ### the interpreter, equation by equation -/

theorem evalE_zero (c : Ctx) (env : Env) (e : Expr) : evalE c 0 env e = none := by rw [evalE]
theorem evalArgs_zero (c : Ctx) (env : Env) (es : List Expr) : evalArgs c 0 env es = none := by rw [evalArgs]
theorem evalArgs_nil (c : Ctx) (k : Nat) (env : Env) : evalArgs c (k + 1) env [] = some [] := by
  rw [evalArgs]; omega

theorem evalArgs_cons (c : Ctx) (k : Nat) (env : Env) (e : Expr) (es : List Expr) (vs : List Val)
    (h : evalArgs c (k + 1) env (e :: es) = some vs) :
    ∃ v vs', evalE c k env e = some v ∧ evalArgs c k env es = some vs' ∧ vs = v :: vs' := by
  rw [evalArgs] at h
  split at h
  · rename_i v vs' h1 h2
    simp only [Option.some.injEq] at h
    exact ⟨v, vs', h1, h2, h.symm⟩
  · cases h

theorem evalE_var (c : Ctx) (k : Nat) (env : Env) (n : String) (v : Val) (h : evalE c k env (.var n) = some v) :
    env.get? n = some v := by
  cases k with
  | zero => rw [evalE_zero] at h; cases h
  | succ k => rw [evalE] at h; exact h

theorem evalE_str (c : Ctx) (k : Nat) (env : Env) (s : Bytes) (v : Val) (h : evalE c k env (.str s) = some v) :
    v = .str s := by
  cases k with
  | zero => rw [evalE_zero] at h; cases h
  | succ k => rw [evalE] at h; simp only [Option.some.injEq] at h; exact h.symm

/-- the values of a list of clean literals -/
theorem evalArgs_lits (c : Ctx) (env : Env) (P : Bytes → Prop) (isLit : Expr → Bool)
    (hlit : ∀ e, isLit e = true → ∃ s, e = .str s ∧ P s) :
    ∀ (es : List Expr) (k : Nat) (vs : List Val), es.all isLit = true → evalArgs c k env es = some vs →
      ∃ l : List Bytes, vs = l.map Val.str ∧ ∀ s ∈ l, P s := by
  intro es
  induction es with
  | nil =>
    intro k vs _ h
    cases k with
    | zero => rw [evalArgs_zero] at h; cases h
    | succ k => rw [evalArgs_nil] at h; simp only [Option.some.injEq] at h; subst h; exact ⟨[], rfl, by simp⟩
  | cons e es ih =>
    intro k vs hall h
    cases k with
    | zero => rw [evalArgs_zero] at h; cases h
    | succ k =>
      simp only [List.all_cons, Bool.and_eq_true] at hall
      obtain ⟨v, vs', h1, h2, rfl⟩ := evalArgs_cons c k env e es vs h
      obtain ⟨s, rfl, hs⟩ := hlit e hall.1
      have := evalE_str c k env s v h1
      subst this
      obtain ⟨l, rfl, hl⟩ := ih k vs' hall.2 h2
      refine ⟨s :: l, rfl, ?_⟩
      intro x hx
      rcases List.mem_cons.mp hx with rfl | hx
      · exact hs
      · exact hl x hx

theorem isCleanLit_spec (e : Expr) (h : isCleanLit e = true) : ∃ s, e = .str s ∧ Clean s := by
  cases e <;> simp only [isCleanLit] at h <;> try cases h
  rename_i s
  exact ⟨s, rfl, (cleanB_iff s).mp h⟩

theorem isSepLit_spec (e : Expr) (h : isSepLit e = true) : ∃ s, e = .str s ∧ (s ≠ [] ∧ Clean s) := by
  cases e <;> simp only [isSepLit] at h <;> try cases h
  rename_i s
  simp only [Bool.and_eq_true, Bool.not_eq_true', List.isEmpty_eq_false_iff] at h
  exact ⟨s, rfl, h.2, (cleanB_iff s).mp h.1⟩

theorem mapM_strs (g : Val → Option Bytes) (hg : ∀ s, g (.str s) = some s) (l : List Bytes) :
    (l.map Val.str).mapM g = some l := by
  induction l with
  | nil => rfl
  | cons s l ih => simp [List.mapM_cons, ih, hg]

theorem covOf_spec (ρ : AEnv) (e : Expr) (t : Target) (h : covOf ρ e = some t) : ∃ n, e = .var n ∧ ρ n = .covS t := by
  cases e <;> simp only [covOf] at h <;> try cases h
  rename_i n
  split at h
  · rename_i t' ht
    simp only [Option.some.injEq] at h
    subst h
    exact ⟨n, rfl, ht⟩
  · cases h

/-! ### soundness of the abstract values -/

theorem evalArgs_length (c : Ctx) (env : Env) : ∀ (es : List Expr) (k : Nat) (vs : List Val),
    evalArgs c k env es = some vs → vs.length = es.length := by
  intro es
  induction es with
  | nil =>
    intro k vs h
    cases k with
    | zero => rw [evalArgs_zero] at h; cases h
    | succ k => rw [evalArgs_nil] at h; simp only [Option.some.injEq] at h; subst h; rfl
  | cons e es ih =>
    intro k vs h
    cases k with
    | zero => rw [evalArgs_zero] at h; cases h
    | succ k =>
      obtain ⟨v, vs', _, h2, rfl⟩ := evalArgs_cons c k env e es vs h
      simp [ih k vs' h2]

/-- evaluating the arguments `x, seps…` where `x` is a variable and the `seps` are literals -/
theorem evalArgs_var_lits (c : Ctx) (env : Env) (n : String) (seps : List Expr) (hs : seps.all isSepLit = true)
    (k : Nat) (vs : List Val) (h : evalArgs c k env (.var n :: seps) = some vs) :
    ∃ (v : Val) (l : List Bytes), env.get? n = some v ∧ vs = v :: l.map Val.str ∧ l.length = seps.length ∧
      ∀ s ∈ l, s ≠ [] ∧ Clean s := by
  cases k with
  | zero => rw [evalArgs_zero] at h; cases h
  | succ k =>
    obtain ⟨v, vs', h1, h2, rfl⟩ := evalArgs_cons c k env _ _ vs h
    obtain ⟨l, rfl, hl⟩ := evalArgs_lits c env (fun s => s ≠ [] ∧ Clean s) isSepLit isSepLit_spec seps k vs' hs h2
    have := evalArgs_length c env seps k _ h2
    exact ⟨v, l, evalE_var c k env n v h1, rfl, by simpa using this, hl⟩

theorem evalArgs_var1 (c : Ctx) (env : Env) (n : String) (k : Nat) (vs : List Val)
    (h : evalArgs c k env [.var n] = some vs) : ∃ v, env.get? n = some v ∧ vs = [v] := by
  obtain ⟨v, l, hv, rfl, hlen, _⟩ := evalArgs_var_lits c env n [] rfl k vs h
  have : l = [] := List.eq_nil_of_length_eq_zero (by simpa using hlen)
  subst this
  exact ⟨v, hv, rfl⟩

theorem AVsem_covS {A : ACtx} {tv : Targets} {t : Target} {v : Val} :
    AVsem A tv (.covS t) v ↔ ∃ s, v = .str s ∧ (Clean s → Clean (tv.get t)) := Iff.rfl
theorem AVsem_covL {A : ACtx} {tv : Targets} {t : Target} {v : Val} :
    AVsem A tv (.covL t) v ↔ ∃ l, v = .strs l ∧ (CleanL l → Clean (tv.get t)) := Iff.rfl
theorem AVsem_cleanS {A : ACtx} {tv : Targets} {v : Val} : AVsem A tv .cleanS v ↔ ∃ s, v = .str s ∧ Clean s := Iff.rfl
theorem AVsem_cleanL {A : ACtx} {tv : Targets} {v : Val} : AVsem A tv .cleanL v ↔ ∃ l, v = .strs l ∧ CleanL l := Iff.rfl
theorem AVsem_funcs {A : ACtx} {tv : Targets} {v : Val} :
    AVsem A tv .funcs v ↔ ∃ fs, v = .funcs fs ∧ ∀ f ∈ fs, f ∈ A.closedFns := Iff.rfl

theorem clean_of_trimSuffix (s suf : Bytes) (hsuf : Clean suf) (h : Clean (trimSuffix s suf)) : Clean s := by
  unfold trimSuffix at h
  split at h
  · rename_i hs
    unfold hasSuffix hasPrefix at hs
    cases hst : stripPrefix? suf.reverse s.reverse with
    | none => rw [hst] at hs; cases hs
    | some rest =>
      have heq := stripPrefix?_eq _ _ _ hst
      have hs' : s = rest.reverse ++ suf := by
        have := congrArg List.reverse heq
        simpa using this
      rw [hs'] at h ⊢
      have : (rest.reverse ++ suf).length - suf.length = rest.reverse.length := by simp
      rw [this, List.take_left'] at h
      · exact clean_append.mpr ⟨h, hsuf⟩
      · rfl
  · exact h

theorem evalArgs_two (c : Ctx) (env : Env) (a b : Expr) (k : Nat) (vs : List Val)
    (h : evalArgs c k env [a, b] = some vs) :
    ∃ va vb j, k = j + 2 ∧ evalE c (j + 1) env a = some va ∧ evalE c j env b = some vb ∧ vs = [va, vb] := by
  cases k with
  | zero => rw [evalArgs_zero] at h; cases h
  | succ k =>
    obtain ⟨va, vs', h1, h2, rfl⟩ := evalArgs_cons c k env _ _ vs h
    cases k with
    | zero => rw [evalArgs_zero] at h2; cases h2
    | succ k =>
      obtain ⟨vb, vs'', h3, h4, rfl⟩ := evalArgs_cons c k env _ _ vs' h2
      have := evalArgs_length c env [] k vs'' h4
      have : vs'' = [] := List.eq_nil_of_length_eq_zero (by simpa using this)
      subst this
      exact ⟨va, vb, k, rfl, h1, h3, rfl⟩

theorem covArg_spec (ρ : AEnv) (e : Expr) (t : Target) (h : covArg ρ e = some t) (h0 : covOf ρ e = none) :
    ∃ n lit, e = .call "strings.TrimSuffix" [.var n, lit] ∧ isSepLit lit = true ∧ ρ n = .covS t := by
  unfold covArg at h
  split at h
  · rename_i g e2 lit
    split at h
    · rename_i hg
      simp only [Bool.and_eq_true, beq_iff_eq] at hg
      obtain ⟨rfl, hlit⟩ := hg
      obtain ⟨n, rfl, hn⟩ := covOf_spec ρ e2 t h
      exact ⟨n, lit, rfl, hlit, hn⟩
    · cases h
  · rw [h0] at h; cases h

section sem
variable (A : ACtx) (c : Ctx) (hlow : c.toLower = toLowerGo)
  (hdel : ∀ r ∈ A.inertRes, ∀ re, c.regex? r = some re → ∀ s, Clean (deleteAll re s) → Clean s)
  (tv : Targets) (ρ : AEnv) (env : Env) (hR : Rel A tv ρ env)
include hR

/-- the variable `n` vouches for target `t`: it holds a string that covers it -/
theorem var_covS (n : String) (t : Target) (hn : ρ n = .covS t) (v : Val) (hv : env.get? n = some v) :
    ∃ s, v = .str s ∧ (Clean s → Clean (tv.get t)) := by
  have := hR n v hv
  rw [hn] at this
  exact this

theorem sem_strs_lits (es : List Expr) (hall : es.all isCleanLit = true) (k : Nat) (val : Val)
    (h : evalE c k env (.strs es) = some val) : AVsem A tv .cleanL val := by
  cases k with
  | zero => rw [evalE_zero] at h; cases h
  | succ k =>
    rw [evalE] at h
    cases hargs : evalArgs c k env es with
    | none => rw [hargs] at h; simp at h
    | some vs =>
      obtain ⟨l, rfl, hl⟩ := evalArgs_lits c env Clean isCleanLit isCleanLit_spec es k vs hall hargs
      rw [hargs] at h
      rw [Option.bind_some, mapM_strs _ (fun _ => rfl)] at h
      simp only [Option.map_some, Option.some.injEq] at h
      subst h
      exact ⟨l, rfl, hl⟩

theorem sem_strs_var (n : String) (t : Target) (hn : ρ n = .covS t) (k : Nat) (val : Val)
    (h : evalE c k env (.strs [.var n]) = some val) : AVsem A tv (.covL t) val := by
  cases k with
  | zero => rw [evalE_zero] at h; cases h
  | succ k =>
    rw [evalE] at h
    cases hargs : evalArgs c k env [.var n] with
    | none => rw [hargs] at h; simp at h
    | some vs =>
      obtain ⟨v, hv, rfl⟩ := evalArgs_var1 c env n k vs hargs
      obtain ⟨s, rfl, hcov⟩ := var_covS A tv ρ env hR n t hn v hv
      rw [hargs] at h
      simp only [Option.bind_some, List.mapM_cons, List.mapM_nil, Option.pure_def, Option.bind_eq_bind,
        Option.map_some, Option.some.injEq] at h
      subst h
      exact ⟨[s], rfl, fun hc => hcov (hc s (by simp))⟩

include hlow in
theorem sem_splitValues (n : String) (t : Target) (hn : ρ n = .covS t) (k : Nat) (val : Val)
    (h : evalE c k env (.call "splitValues" [.var n]) = some val) : AVsem A tv (.covL t) val := by
  cases k with
  | zero => rw [evalE_zero] at h; cases h
  | succ k =>
    rw [evalE] at h
    cases hargs : evalArgs c k env [.var n] with
    | none => rw [hargs] at h; simp at h
    | some vs =>
      obtain ⟨v, hv, rfl⟩ := evalArgs_var1 c env n k vs hargs
      obtain ⟨s, rfl, hcov⟩ := var_covS A tv ρ env hR n t hn v hv
      rw [hargs] at h
      simp at h
      subst h
      refine ⟨_, rfl, fun hc => hcov ?_⟩
      rw [hlow] at hc
      exact clean_of_splitValues s hc

theorem sem_trimSpace (n : String) (t : Target) (hn : ρ n = .covS t) (k : Nat) (val : Val)
    (h : evalE c k env (.call "strings.TrimSpace" [.var n]) = some val) : AVsem A tv (.covS t) val := by
  cases k with
  | zero => rw [evalE_zero] at h; cases h
  | succ k =>
    rw [evalE] at h
    cases hargs : evalArgs c k env [.var n] with
    | none => rw [hargs] at h; simp at h
    | some vs =>
      obtain ⟨v, hv, rfl⟩ := evalArgs_var1 c env n k vs hargs
      obtain ⟨s, rfl, hcov⟩ := var_covS A tv ρ env hR n t hn v hv
      rw [hargs] at h
      simp at h
      subst h
      exact ⟨_, rfl, fun hc => hcov (clean_of_trimSpace s hc)⟩

theorem sem_split (n : String) (sepE : Expr) (hsep : isSepLit sepE = true) (t : Target) (hn : ρ n = .covS t) (k : Nat) (val : Val)
    (h : evalE c k env (.call "strings.Split" [.var n, sepE]) = some val) : AVsem A tv (.covL t) val := by
  cases k with
  | zero => rw [evalE_zero] at h; cases h
  | succ k =>
    rw [evalE] at h
    cases hargs : evalArgs c k env [.var n, sepE] with
    | none => rw [hargs] at h; simp at h
    | some vs =>
      obtain ⟨v, l, hv, rfl, hlen, hl⟩ := evalArgs_var_lits c env n [sepE] (by simp [hsep]) k vs hargs
      obtain ⟨s, rfl, hcov⟩ := var_covS A tv ρ env hR n t hn v hv
      match l, hlen with
      | [sep], _ =>
        rw [hargs] at h
        simp at h
        subst h
        refine ⟨_, rfl, fun hc => hcov ?_⟩
        exact clean_of_splitOn s sep (hl sep (by simp)).1 (hl sep (by simp)).2 hc

theorem sem_multiSplit (n : String) (seps : List Expr) (hseps : seps.all isSepLit = true) (t : Target) (hn : ρ n = .covS t)
    (k : Nat) (val : Val) (h : evalE c k env (.call "multiSplit" (.var n :: seps)) = some val) :
    AVsem A tv (.covL t) val := by
  cases k with
  | zero => rw [evalE_zero] at h; cases h
  | succ k =>
    rw [evalE] at h
    cases hargs : evalArgs c k env (.var n :: seps) with
    | none => rw [hargs] at h; simp at h
    | some vs =>
      obtain ⟨v, l, hv, rfl, _, hl⟩ := evalArgs_var_lits c env n seps hseps k vs hargs
      obtain ⟨s, rfl, hcov⟩ := var_covS A tv ρ env hR n t hn v hv
      rw [hargs] at h
      simp only [beq_self_eq_true, ↓reduceIte] at h
      rw [mapM_strs _ (fun _ => rfl)] at h
      simp only [Option.map_some, Option.some.injEq] at h
      subst h
      exact ⟨_, rfl, fun hc => hcov (clean_of_multiSplit s l hl hc)⟩

theorem sem_trimSuffix (n : String) (litE : Expr) (hlit : isSepLit litE = true) (t : Target) (hn : ρ n = .covS t) (k : Nat)
    (val : Val) (h : evalE c k env (.call "strings.TrimSuffix" [.var n, litE]) = some val) : AVsem A tv (.covS t) val := by
  cases k with
  | zero => rw [evalE_zero] at h; cases h
  | succ k =>
    rw [evalE] at h
    cases hargs : evalArgs c k env [.var n, litE] with
    | none => rw [hargs] at h; simp at h
    | some vs =>
      obtain ⟨v, l, hv, rfl, hlen, hl⟩ := evalArgs_var_lits c env n [litE] (by simp [hlit]) k vs hargs
      obtain ⟨s, rfl, hcov⟩ := var_covS A tv ρ env hR n t hn v hv
      match l, hlen with
      | [suf], _ =>
        rw [hargs] at h
        simp at h
        subst h
        exact ⟨_, rfl, fun hc => hcov (clean_of_trimSuffix s suf (hl suf (by simp)).2 hc)⟩

theorem sem_split_trimSuffix (n : String) (litE sepE : Expr) (hlit : isSepLit litE = true) (hsep : isSepLit sepE = true)
    (t : Target) (hn : ρ n = .covS t) (k : Nat) (val : Val)
    (h : evalE c k env (.call "strings.Split" [.call "strings.TrimSuffix" [.var n, litE], sepE]) = some val) :
    AVsem A tv (.covL t) val := by
  cases k with
  | zero => rw [evalE_zero] at h; cases h
  | succ k =>
    rw [evalE] at h
    cases hargs : evalArgs c k env [.call "strings.TrimSuffix" [.var n, litE], sepE] with
    | none => rw [hargs] at h; simp at h
    | some vs =>
      obtain ⟨va, vb, j, rfl, h1, h2, rfl⟩ := evalArgs_two c env _ _ k vs hargs
      obtain ⟨s, rfl, hcov⟩ := sem_trimSuffix A c tv ρ env hR n litE hlit t hn _ va h1
      obtain ⟨sep, rfl, hsepne, hsepcl⟩ := isSepLit_spec sepE hsep
      have := evalE_str c j env sep vb h2
      subst this
      rw [hargs] at h
      simp at h
      subst h
      exact ⟨_, rfl, fun hc => hcov (clean_of_splitOn s sep hsepne hsepcl hc)⟩

include hdel in
theorem sem_reDelete (r : String) (hr : A.inertRes.contains r = true) (n : String) (t : Target) (hn : ρ n = .covS t)
    (k : Nat) (val : Val) (h : evalE c k env (.reDelete r (.var n)) = some val) : AVsem A tv (.covS t) val := by
  cases k with
  | zero => rw [evalE_zero] at h; cases h
  | succ k =>
    rw [evalE] at h
    split at h
    · rename_i s re hs hre
      have hv := evalE_var c k env n _ hs
      obtain ⟨s', hs', hcov⟩ := var_covS A tv ρ env hR n t hn _ hv
      cases hs'
      simp only [Option.some.injEq] at h
      subst h
      exact ⟨_, rfl, fun hc => hcov (hdel r (List.contains_iff_mem.mp hr) re hre s hc)⟩
    · cases h

theorem sem_trimSuffix_gen (e1 litE : Expr) (hlit : isSepLit litE = true) (t : Target)
    (harg : ∀ k v, evalE c k env e1 = some v → AVsem A tv (.covS t) v) (k : Nat) (val : Val)
    (h : evalE c k env (.call "strings.TrimSuffix" [e1, litE]) = some val) : AVsem A tv (.covS t) val := by
  cases k with
  | zero => rw [evalE_zero] at h; cases h
  | succ k =>
    rw [evalE] at h
    cases hargs : evalArgs c k env [e1, litE] with
    | none => rw [hargs] at h; simp at h
    | some vs =>
      obtain ⟨va, vb, j, rfl, h1, h2, rfl⟩ := evalArgs_two c env _ _ k vs hargs
      obtain ⟨s, rfl, hcov⟩ := harg _ va h1
      obtain ⟨suf, rfl, _, hsufcl⟩ := isSepLit_spec litE hlit
      have := evalE_str c j env suf vb h2
      subst this
      rw [hargs] at h
      simp at h
      subst h
      exact ⟨_, rfl, fun hc => hcov (clean_of_trimSuffix s suf hsufcl hc)⟩

include hlow hdel in
/-- **the abstract value of an expression describes every value it can evaluate to** -/
theorem aeval_sound (e : Expr) (k : Nat) (val : Val) (h : evalE c k env e = some val) :
    AVsem A tv (aeval A ρ e) val := by
  cases e with
  | var n => exact hR n val (evalE_var c k env n val h)
  | str s =>
    have := evalE_str c k env s val h
    subst this
    simp only [aeval]
    split
    · rename_i hc; exact ⟨s, rfl, (cleanB_iff s).mp hc⟩
    · trivial
  | strs es =>
    simp only [aeval]
    split
    · rename_i hall; exact sem_strs_lits A c tv ρ env hR es hall k val h
    · split
      · rename_i e1 _
        split
        · rename_i t ht
          obtain ⟨n, rfl, hn⟩ := covOf_spec ρ e1 t ht
          exact sem_strs_var A c tv ρ env hR n t hn k val h
        · trivial
      · trivial
  | funcs names =>
    simp only [aeval]
    split
    · rename_i hall
      cases k with
      | zero => rw [evalE_zero] at h; cases h
      | succ k =>
        rw [evalE] at h
        simp only [Option.some.injEq] at h
        subst h
        refine ⟨names, rfl, ?_⟩
        intro f hf
        exact List.contains_iff_mem.mp (List.all_eq_true.mp hall f hf)
    · trivial
  | call f args =>
    simp only [aeval]
    split
    · rename_i e1
      split
      · rename_i hf
        have hf' : f = "splitValues" := by simpa using hf
        subst hf'
        split
        · rename_i t ht
          obtain ⟨n, rfl, hn⟩ := covOf_spec ρ e1 t ht
          exact sem_splitValues A c hlow tv ρ env hR n t hn k val h
        · trivial
      · split
        · rename_i hf
          have hf' : f = "strings.TrimSpace" := by simpa using hf
          subst hf'
          split
          · rename_i t ht
            obtain ⟨n, rfl, hn⟩ := covOf_spec ρ e1 t ht
            exact sem_trimSpace A c tv ρ env hR n t hn k val h
          · trivial
        · trivial
    · rename_i e1 seps hne
      split
      · rename_i hcond
        simp only [Bool.and_eq_true, Bool.or_eq_true] at hcond
        split
        · rename_i t ht
          obtain ⟨n, rfl, hn⟩ := covOf_spec ρ e1 t ht
          rcases hcond.1 with ⟨hf, hlen⟩ | hf
          · have hf' : f = "strings.Split" := by simpa using hf
            subst hf'
            have hlen' : seps.length = 1 := by simpa using hlen
            match seps, hlen', hcond.2 with
            | [sepE], _, hs =>
              exact sem_split A c tv ρ env hR n sepE (by simpa using hs) t hn k val h
          · have hf' : f = "multiSplit" := by simpa using hf
            subst hf'
            exact sem_multiSplit A c tv ρ env hR n seps hcond.2 t hn k val h
        · split
          · rename_i hf
            have hf' : f = "strings.Split" := by simpa using hf
            subst hf'
            split
            · rename_i hnone _ t ht
              obtain ⟨n, lit, rfl, hlit, hn⟩ := covArg_spec ρ e1 t ht hnone
              have hlen' : seps.length = 1 := by
                rcases hcond.1 with ⟨_, hlen⟩ | hf
                · simpa using hlen
                · simp at hf
              match seps, hlen', hcond.2 with
              | [sepE], _, hs =>
                exact sem_split_trimSuffix A c tv ρ env hR n lit sepE hlit (by simpa using hs) t hn k val h
            · trivial
          · trivial
      · split
        · rename_i hcond
          simp only [Bool.and_eq_true, beq_iff_eq] at hcond
          obtain ⟨⟨rfl, hlen⟩, hlits⟩ := hcond
          split
          · rename_i t ht
            obtain ⟨n, rfl, hn⟩ := covOf_spec ρ e1 t ht
            match seps, hlen, hlits with
            | [litE], _, hs =>
              exact sem_trimSuffix A c tv ρ env hR n litE (by simpa using hs) t hn k val h
          · split
            · rename_i r e' _hx
              split
              · rename_i hr
                split
                · rename_i t ht
                  obtain ⟨n, rfl, hn⟩ := covOf_spec ρ e' t ht
                  match seps, hlen, hlits with
                  | [litE], _, hs =>
                    exact sem_trimSuffix_gen A c tv ρ env hR _ litE (by simpa using hs) t
                      (fun k' v hv => sem_reDelete A c hdel tv ρ env hR r hr n t hn k' v hv) k val h
                · trivial
              · trivial
            · trivial
        · trivial
    · trivial
  | reDelete r e1 =>
    simp only [aeval]
    split
    · rename_i hr
      split
      · rename_i t ht
        obtain ⟨n, rfl, hn⟩ := covOf_spec ρ e1 t ht
        exact sem_reDelete A c hdel tv ρ env hR r hr n t hn k val h
      · trivial
    · trivial
  | bool b =>
    cases k with
    | zero => rw [evalE_zero] at h; cases h
    | succ k => rw [evalE] at h; simp only [Option.some.injEq] at h; exact ⟨b, h.symm⟩
  | _ => trivial

end sem

/-! ### soundness of the boolean analysis -/

/-- what the analysis assumes of the context: Go's `strings.ToLower`, and regexps named clean that
    are clean -/
structure SoundCtx (A : ACtx) (c : Ctx) : Prop where
  lower : c.toLower = toLowerGo
  res : ∀ r ∈ A.closedRes, ∀ re, c.regex? r = some re → ∀ s, Re.matchBytes re s = true → Clean s
  inertDel : ∀ r ∈ A.inertRes, ∀ re, c.regex? r = some re → ∀ s, Clean (deleteAll re s) → Clean s
  inertFind : ∀ r ∈ A.inertRes, ∀ re, c.regex? r = some re → ∀ s, Clean (findString re s)

/-- the handlers named closed return true on clean values only, up to interpreter fuel `k` -/
def CallsOK (A : ACtx) (c : Ctx) (k : Nat) : Prop :=
  ∀ f ∈ A.closedFns, ∀ j, j ≤ k → ∀ s, callFn c j f s = some true → Clean s

theorem CallsOK.mono {A : ACtx} {c : Ctx} {k k' : Nat} (h : CallsOK A c k) (hk : k' ≤ k) : CallsOK A c k' :=
  fun f hf j hj s hs => h f hf j (Nat.le_trans hj hk) s hs

/-- the value of `R.FindString(x) + lit` -/
theorem evalE_findPlus (c : Ctx) (k : Nat) (env : Env) (r : String) (x : Expr) (lit : Bytes) (va : Val)
    (h : evalE c k env (.bin "+" (.reFind r x) (.str lit)) = some va) :
    ∃ sx re, c.regex? r = some re ∧ va = .str (findString re sx ++ lit) := by
  cases k with
  | zero => rw [evalE_zero] at h; cases h
  | succ k =>
    rw [evalE] at h
    have h1 : (("+" : String) == "&&") = false := by decide
    have h2 : (("+" : String) == "||") = false := by decide
    have h3 : (("+" : String) == "==") = false := by decide
    have h4 : (("+" : String) == "!=") = false := by decide
    simp only [h1, h2, Bool.false_eq_true, ↓reduceIte] at h
    cases hf : evalE c k env (.reFind r x) with
    | none => rw [hf] at h; simp at h
    | some vf =>
      cases hl : evalE c k env (.str lit) with
      | none => rw [hf, hl] at h; cases vf <;> simp at h
      | some vl =>
        have := evalE_str c k env lit vl hl
        subst this
        rw [hf, hl] at h
        cases k with
        | zero => rw [evalE_zero] at hf; cases hf
        | succ k' =>
          rw [evalE] at hf
          split at hf
          · rename_i sx re hsx hre
            simp only [Option.some.injEq] at hf
            subst hf
            simp only [h3, h4, Bool.false_eq_true, ↓reduceIte, beq_self_eq_true, Option.some.injEq] at h
            exact ⟨sx, re, hre, h.symm⟩
          · cases hf

theorem aimp_sound (A : ACtx) (c : Ctx) (hS : SoundCtx A c) (tv : Targets) (ρ : AEnv) (env : Env) (hR : Rel A tv ρ env)
    (t : Target) : ∀ (k : Nat) (e : Expr), CallsOK A c (k - 1) → aimp A ρ t e = true →
      evalE c k env e = some (.bool true) → Clean (tv.get t) := by
  intro k
  induction k with
  | zero => intro e _ _ h; rw [evalE_zero] at h; cases h
  | succ k ih =>
  intro e hC ha h
  have hC0 : CallsOK A c k := hC
  cases e with
  | bool b =>
    rw [evalE] at h
    simp only [aimp, Bool.not_eq_true'] at ha
    subst ha
    simp at h
  | var n =>
    simp only [aimp, beq_iff_eq] at ha
    have hv := evalE_var c (k + 1) env n _ h
    have := hR n _ hv
    rw [ha] at this
    obtain ⟨b, hb, hcl⟩ := this
    simp only [Val.bool.injEq] at hb
    exact hcl hb.symm
  | call f args =>
    simp only [aimp] at ha
    split at ha
    · rename_i a b
      rw [evalE] at h
      cases hargs : evalArgs c k env [a, b] with
      | none => rw [hargs] at h; simp at h
      | some vs =>
        obtain ⟨va, vb, j, rfl, h1, h2, rfl⟩ := evalArgs_two c env a b k vs hargs
        rw [hargs] at h
        have sa := aeval_sound A c hS.lower hS.inertDel tv ρ env hR a _ va h1
        have sb := aeval_sound A c hS.lower hS.inertDel tv ρ env hR b _ vb h2
        split at ha
        · rename_i hf
          have hf' : f = "in" := by simpa using hf
          subst hf'
          simp only [Bool.and_eq_true, beq_iff_eq] at ha
          rw [ha.1] at sa
          rw [ha.2] at sb
          obtain ⟨la, rfl, hcov⟩ := sa
          obtain ⟨lb, rfl, hcl⟩ := sb
          simp at h
          exact hcov (cleanL_of_inList la lb h hcl)
        · split at ha
          · rename_i hf
            have hf' : f = "recursiveCheck" := by simpa using hf
            subst hf'
            simp only [Bool.and_eq_true, beq_iff_eq] at ha
            rw [ha.1] at sa
            rw [ha.2] at sb
            obtain ⟨vals, rfl, hcov⟩ := sa
            obtain ⟨fs, rfl, hfs⟩ := sb
            simp at h
            apply hcov
            apply cleanL_of_recursiveCheck _ _ vals h
            intro g hg x hx
            obtain ⟨fn, hfn, rfl⟩ := List.mem_map.mp hg
            simp only [beq_iff_eq] at hx
            exact hC0 fn (hfs fn hfn) (j + 2) (Nat.le_refl _) x hx
          · cases ha
    · cases ha
  | handler f a =>
    simp only [aimp, Bool.and_eq_true, beq_iff_eq] at ha
    rw [evalE] at h
    split at h
    · rename_i s hs
      have sa := aeval_sound A c hS.lower hS.inertDel tv ρ env hR a _ _ hs
      rw [ha.1] at sa
      obtain ⟨s', hs', hcov⟩ := sa
      cases hs'
      apply hcov
      cases hcall : callFn c k f s with
      | none => rw [hcall] at h; simp at h
      | some b =>
        rw [hcall] at h
        simp only [Option.map_some, Option.some.injEq, Val.bool.injEq] at h
        subst h
        exact hC0 f (List.contains_iff_mem.mp ha.2) k (Nat.le_refl _) s hcall
    · cases h
  | reMatch r a =>
    simp only [aimp, Bool.and_eq_true, beq_iff_eq] at ha
    rw [evalE] at h
    split at h
    · rename_i s re hs hre
      have sa := aeval_sound A c hS.lower hS.inertDel tv ρ env hR a _ _ hs
      rw [ha.1] at sa
      obtain ⟨s', hs', hcov⟩ := sa
      cases hs'
      apply hcov
      simp only [Option.some.injEq, Val.bool.injEq] at h
      exact hS.res r (List.contains_iff_mem.mp ha.2) re hre s h
    · cases h
  | bin op a b =>
    simp only [aimp] at ha
    have hC' : CallsOK A c (k - 1) := hC0.mono (by omega)
    rw [evalE] at h
    split at ha
    · rename_i hop
      have : op = "&&" := by simpa using hop
      subst this
      simp only [beq_self_eq_true, ↓reduceIte] at h
      simp only [Bool.or_eq_true] at ha
      split at h
      · cases h
      · rename_i hta
        rcases ha with ha | ha
        · exact ih a hC' ha hta
        · exact ih b hC' ha h
      · cases h
    · split at ha
      · rename_i hop1 hop
        have : op = "||" := by simpa using hop
        subst this
        simp only [Bool.and_eq_true] at ha
        have hne : (("||" : String) == "&&") = false := by decide
        simp only [hne, Bool.false_eq_true, ↓reduceIte, beq_self_eq_true] at h
        split at h
        · rename_i hta; exact ih a hC' ha.1 hta
        · exact ih b hC' ha.2 h
        · cases h
      · rename_i hop1 hop2
        have hand : (op == "&&") = false := by simpa using hop1
        have hor : (op == "||") = false := by simpa using hop2
        by_cases heq : (op == "==") = true
        · have : op = "==" := by simpa using heq
          subst this
          simp only [beq_self_eq_true, ↓reduceIte] at ha
          -- `R.FindString(x) + lit == b`
          unfold findEq at ha
          split at ha
          · rename_i op2 r x lit
            simp only [Bool.and_eq_true, beq_iff_eq] at ha
            obtain ⟨⟨⟨rfl, hr⟩, hlit⟩, hb⟩ := ha
            simp only [hand, hor, Bool.false_eq_true, ↓reduceIte] at h
            cases hva : evalE c k env (.bin "+" (.reFind r x) (.str lit)) with
            | none => rw [hva] at h; simp at h
            | some va =>
              cases hvb : evalE c k env b with
              | none => rw [hva, hvb] at h; cases va <;> simp at h
              | some vb =>
                have sb := aeval_sound A c hS.lower hS.inertDel tv ρ env hR b _ vb hvb
                rw [hb] at sb
                obtain ⟨y, rfl, hcov⟩ := sb
                obtain ⟨sx, re, hre, rfl⟩ := evalE_findPlus c k env r x lit va hva
                rw [hva, hvb] at h
                have h5 : (("==" : String) == "==") = true := by decide
                simp only [h5, ↓reduceIte, Option.some.injEq, Val.bool.injEq, beq_iff_eq] at h
                apply hcov
                rw [← h]
                exact clean_append.mpr ⟨hS.inertFind r (List.contains_iff_mem.mp hr) re hre sx,
                  (cleanB_iff lit).mp hlit⟩
          · cases ha
        · have heq' : (op == "==") = false := by simpa using heq
          simp only [heq', Bool.false_eq_true, ↓reduceIte] at ha
  | _ => simp [aimp] at ha

/-! ### what a statement list can change -/

theorem exec_zero (c : Ctx) (env : Env) (l : List Stmt) : exec c 0 env l = none := by rw [exec]
theorem exec_nil (c : Ctx) (k : Nat) (env : Env) : exec c (k + 1) env [] = some (env, .next) := by
  rw [exec]; omega
theorem loop_nil (c : Ctx) (k : Nat) (env : Env) (v : String) (b : List Stmt) :
    loop c (k + 1) env v [] b = some (env, .next) := by
  rw [loop]; omega
theorem loop_zero (c : Ctx) (env : Env) (v : String) (l : List Bytes) (b : List Stmt) : loop c 0 env v l b = none := by rw [loop]

theorem assignedIn_assign (F : Nat) (x : String) (e : Expr) (rest : List Stmt) (ns : List String)
    (h : assignedIn (F + 1) (.assign x e :: rest) = some ns) : ∃ r, assignedIn F rest = some r ∧ ns = x :: r := by
  rw [assignedIn] at h
  split at h
  · cases h
  · rename_i r hr
    simp only [Option.some.injEq] at h
    exact ⟨r, hr, h.symm⟩

theorem assignedIn_if (F : Nat) (cnd : Expr) (thn els rest : List Stmt) (ns : List String)
    (h : assignedIn (F + 1) (.ifS cnd thn els :: rest) = some ns) :
    ∃ r a b, assignedIn F rest = some r ∧ assignedIn F thn = some a ∧ assignedIn F els = some b ∧ ns = a ++ b ++ r := by
  rw [assignedIn] at h
  split at h
  · cases h
  · rename_i r hr
    simp only at h
    split at h
    · rename_i a b ha hb
      simp only [Option.some.injEq] at h
      exact ⟨r, a, b, hr, ha, hb, h.symm⟩
    · cases h

theorem assignedIn_for (F : Nat) (v : String) (e : Expr) (body rest : List Stmt) (ns : List String)
    (h : assignedIn (F + 1) (.forRange v e body :: rest) = some ns) :
    ∃ r a, assignedIn F rest = some r ∧ assignedIn F body = some a ∧ ns = v :: a ++ r := by
  rw [assignedIn] at h
  split at h
  · cases h
  · rename_i r hr
    simp only at h
    split at h
    · rename_i a ha
      simp only [Option.some.injEq] at h
      exact ⟨r, a, hr, ha, h.symm⟩
    · cases h

theorem assignedIn_ret (F : Nat) (e : Expr) (rest : List Stmt) (ns : List String)
    (h : assignedIn (F + 1) (.ret e :: rest) = some ns) : assignedIn F rest = some ns := by
  rw [assignedIn] at h
  split at h
  · cases h
  · rename_i r hr; simp only [Option.some.injEq] at h; rw [← h]; exact hr

/-- **frame**: a statement list changes only the variables it assigns (and its loop variables) -/
theorem exec_frame (c : Ctx) : ∀ (k : Nat),
    (∀ (stmts : List Stmt) (env env' : Env) (ctl : Ctl) (F : Nat) (ns : List String),
      exec c k env stmts = some (env', ctl) → assignedIn F stmts = some ns →
      ∀ n, n ∉ ns → env'.get? n = env.get? n) ∧
    (∀ (body : List Stmt) (v : String) (l : List Bytes) (env env' : Env) (ctl : Ctl) (F : Nat) (ns : List String),
      loop c k env v l body = some (env', ctl) → assignedIn F body = some ns →
      ∀ n, n ≠ v → n ∉ ns → env'.get? n = env.get? n) := by
  intro k
  induction k with
  | zero =>
    constructor
    · intro stmts env env' ctl F ns h; rw [exec_zero] at h; cases h
    · intro body v l env env' ctl F ns h; rw [loop_zero] at h; cases h
  | succ k ih =>
    obtain ⟨ihE, ihL⟩ := ih
    constructor
    · intro stmts env env' ctl F ns h hns n hn
      cases stmts with
      | nil => rw [exec] at h; simp only [Option.some.injEq, Prod.mk.injEq] at h; rw [← h.1]; omega
      | cons s rest =>
        cases F with
        | zero => rw [assignedIn] at hns; cases hns
        | succ F =>
        rw [exec.eq_def] at h
        simp only at h
        cases s with
        | assign x e =>
          obtain ⟨r, hr, rfl⟩ := assignedIn_assign F x e rest ns hns
          simp only [List.mem_cons, not_or] at hn
          simp only at h
          split at h
          · rename_i v hv
            have := ihE rest _ env' ctl F r h hr n hn.2
            rw [this, Env.get?_set]
            have : (n == x) = false := by simpa using hn.1
            simp [this]
          · cases h
        | ret e =>
          simp only at h
          cases he : evalE c k env e with
          | none => rw [he] at h; simp at h
          | some v =>
            rw [he] at h
            simp only [Option.map_some, Option.some.injEq, Prod.mk.injEq] at h
            rw [← h.1]
        | brk => simp only [Option.some.injEq, Prod.mk.injEq] at h; rw [← h.1]
        | cont => simp only [Option.some.injEq, Prod.mk.injEq] at h; rw [← h.1]
        | ifS cnd thn els =>
          obtain ⟨r, a, b, hr, ha, hb, rfl⟩ := assignedIn_if F cnd thn els rest ns hns
          simp only [List.mem_append, not_or] at hn
          simp only at h
          split at h
          · rename_i bb hb'
            split at h
            · rename_i env1 hbr
              have h1 : env1.get? n = env.get? n := by
                cases bb
                · exact ihE els env env1 .next F b (by simpa using hbr) hb n hn.1.2
                · exact ihE thn env env1 .next F a (by simpa using hbr) ha n hn.1.1
              rw [ihE rest env1 env' ctl F r h hr n hn.2, h1]
            · rename_i hother
              cases bb
              · exact ihE els env env' ctl F b (by simpa using h) hb n hn.1.2
              · exact ihE thn env env' ctl F a (by simpa using h) ha n hn.1.1
          · cases h
        | forRange v e body =>
          obtain ⟨r, a, hr, ha, rfl⟩ := assignedIn_for F v e body rest ns hns
          simp only [List.cons_append, List.mem_cons, List.mem_append, not_or] at hn
          simp only at h
          split at h
          · rename_i l hl
            split at h
            · rename_i env1 hlp
              have h1 := ihL body v l env env1 .next F a hlp ha n hn.1 hn.2.1
              rw [ihE rest env1 env' ctl F r h hr n hn.2.2, h1]
            · exact ihL body v l env env' ctl F a h ha n hn.1 hn.2.1
          · cases h
    · intro body v l env env' ctl F ns h hns n hnv hn
      cases l with
      | nil => rw [loop] at h; simp only [Option.some.injEq, Prod.mk.injEq] at h; rw [← h.1]; omega
      | cons x xs =>
        rw [loop] at h
        have hset : ∀ e1 : Env, (e1.set v (.str x)).get? n = e1.get? n := by
          intro e1
          rw [Env.get?_set]
          have : (n == v) = false := by simpa using hnv
          simp [this]
        split at h
        · rename_i env1 hb
          rw [ihL body v xs env1 env' ctl F ns h hns n hnv hn, ihE body _ env1 .next F ns hb hns n hn, hset]
        · rename_i env1 hb
          rw [ihL body v xs env1 env' ctl F ns h hns n hnv hn, ihE body _ env1 .cont F ns hb hns n hn, hset]
        · rename_i env1 hb
          simp only [Option.some.injEq, Prod.mk.injEq] at h
          rw [← h.1, ihE body _ env1 .brk F ns hb hns n hn, hset]
        · rename_i hother
          cases hb : exec c k (env.set v (.str x)) body with
          | none => rw [hb] at h; cases h
          | some r =>
            obtain ⟨env1, ctl1⟩ := r
            rw [hb] at h
            simp only [Option.some.injEq, Prod.mk.injEq] at h
            rw [← h.1, ihE body _ env1 ctl1 F ns hb hns n hn, hset]

/-! ### soundness of the statement analysis -/

/-- `Rel` outside a set of variables -/
def RelOut (A : ACtx) (tv : Targets) (ρ : AEnv) (S : List String) (env : Env) : Prop :=
  ∀ n val, n ∉ S → env.get? n = some val → AVsem A tv (ρ n) val

theorem AVsem_dropElem (A : ACtx) (p x0 x : Bytes) (a : AV) (val : Val) (h : AVsem A ⟨p, x0⟩ a val) :
    AVsem A ⟨p, x⟩ (dropTag a) val := by
  cases a with
  | covS t => cases t <;> first | exact h | trivial
  | covL t => cases t <;> first | exact h | trivial
  | cleanS => exact h
  | cleanL => exact h
  | funcs => exact h
  | anyBool => exact h
  | flag t => cases t <;> first | exact h | trivial
  | other => trivial

theorem RelOut.rel {A : ACtx} {p x0 : Bytes} {ρ : AEnv} {S : List String} {env : Env}
    (h : RelOut A ⟨p, x0⟩ ρ S env) (x : Bytes) : Rel A ⟨p, x⟩ (dropElem (havoc ρ S)) env := by
  intro n val hn
  unfold dropElem havoc
  by_cases hs : S.contains n = true
  · simp only [hs, ↓reduceIte]; trivial
  · have hs' : S.contains n = false := by simpa using hs
    simp only [hs', Bool.false_eq_true, ↓reduceIte]
    exact AVsem_dropElem A p x0 x (ρ n) val (h n val (by simpa using hs') hn)

theorem Rel.relOut {A : ACtx} {tv : Targets} {ρ : AEnv} {env : Env} (h : Rel A tv ρ env) (S : List String) :
    RelOut A tv ρ S env := fun n val _ hn => h n val hn

theorem RelOut.frame {A : ACtx} {tv : Targets} {ρ : AEnv} {S : List String} {env env' : Env}
    (h : RelOut A tv ρ S env) (hf : ∀ n, n ∉ S → env'.get? n = env.get? n) : RelOut A tv ρ S env' :=
  fun n val hn hv => h n val hn (by rw [← hf n hn]; exact hv)

theorem noFall_not_next (c : Ctx) : ∀ (k : Nat) (l : List Stmt) (env env' : Env), noFall l = true →
    exec c k env l = some (env', .next) → False := by
  intro k
  induction k with
  | zero => intro l env env' _ h; rw [exec_zero] at h; cases h
  | succ k ih =>
    intro l env env' hnf h
    cases l with
    | nil => simp [noFall] at hnf
    | cons s rest =>
      have hrest : rest ≠ [] → noFall rest = true := by
        intro hne
        cases rest with
        | nil => exact absurd rfl hne
        | cons b l =>
          unfold noFall at hnf ⊢
          rw [List.getLast?_cons_cons] at hnf
          exact hnf
      rw [exec.eq_def] at h
      simp only at h
      cases s with
      | assign x e =>
        simp only at h
        split at h
        · by_cases hne : rest = []
          · subst hne; simp [noFall] at hnf
          · exact ih rest _ env' (hrest hne) h
        · cases h
      | ret e =>
        simp only at h
        cases he : evalE c k env e with
        | none => rw [he] at h; simp at h
        | some v => rw [he] at h; simp at h
      | brk => simp at h
      | cont => simp at h
      | ifS cnd thn els =>
        simp only at h
        split at h
        · split at h
          · by_cases hne : rest = []
            · subst hne; simp [noFall] at hnf
            · exact ih rest _ env' (hrest hne) h
          · rename_i hno
            exact hno env' h
        · cases h
      | forRange v e body =>
        simp only at h
        split at h
        · split at h
          · by_cases hne : rest = []
            · subst hne; simp [noFall] at hnf
            · exact ih rest _ env' (hrest hne) h
          · rename_i hno
            exact hno env' h
        · cases h

/-! ### soundness of the facts -/

def FactSem (env : Env) (f : Fact) : Prop :=
  ∃ l, env.get? f.1 = some (.strs l) ∧
    if f.2.2 = true then ∀ j s, f.2.1 ≤ j → l[j]? = some s → Clean s else ∀ s, l[f.2.1]? = some s → Clean s

def FactsHold (env : Env) (F : Facts) : Prop := ∀ f ∈ F, FactSem env f

theorem FactsHold.nil (env : Env) : FactsHold env [] := fun _ h => by cases h

theorem FactsHold.append {env : Env} {F G : Facts} (hF : FactsHold env F) (hG : FactsHold env G) :
    FactsHold env (F ++ G) := by
  intro f hf
  rcases List.mem_append.mp hf with h | h
  · exact hF f h
  · exact hG f h

theorem implied_sound {env : Env} {F : Facts} (h : FactsHold env F) (f : Fact) (hi : Fact.implied F f = true) :
    FactSem env f := by
  unfold Fact.implied at hi
  obtain ⟨g, hg, hc⟩ := List.any_eq_true.mp hi
  simp only [Bool.and_eq_true, beq_iff_eq] at hc
  obtain ⟨hname, hc⟩ := hc
  obtain ⟨l, hl, hsem⟩ := h g hg
  refine ⟨l, by rw [← hname]; exact hl, ?_⟩
  by_cases hf : f.2.2 = true
  · simp only [hf, ↓reduceIte, Bool.and_eq_true, decide_eq_true_eq] at hc ⊢
    simp only [hc.1, ↓reduceIte] at hsem
    intro j s hj hs
    exact hsem j s (Nat.le_trans hc.2 hj) hs
  · have hf' : f.2.2 = false := by simpa using hf
    simp only [hf', Bool.false_eq_true, ↓reduceIte, Bool.or_eq_true, Bool.and_eq_true, Bool.not_eq_true',
      beq_iff_eq, decide_eq_true_eq] at hc ⊢
    intro s hs
    rcases hc with ⟨hg2, hidx⟩ | ⟨hg2, hle⟩
    · simp only [hg2, Bool.false_eq_true, ↓reduceIte] at hsem
      rw [hidx] at hsem
      exact hsem s hs
    · simp only [hg2, ↓reduceIte] at hsem
      exact hsem _ s hle hs

theorem inter_sound {env : Env} {F G : Facts} (h : FactsHold env F ∨ FactsHold env G) :
    FactsHold env (Facts.inter F G) := by
  intro f hf
  unfold Facts.inter at hf
  rcases List.mem_append.mp hf with hf | hf
  · obtain ⟨hm, hi⟩ := List.mem_filter.mp hf
    rcases h with h | h
    · exact h f hm
    · exact implied_sound h f hi
  · obtain ⟨hm, hi⟩ := List.mem_filter.mp hf
    rcases h with h | h
    · exact implied_sound h f hi
    · exact h f hm

theorem coversAll_sound {env : Env} {F : Facts} (h : FactsHold env F) (L : String) (hc : coversAll F L = true) :
    ∃ l, env.get? L = some (.strs l) ∧ CleanL l := by
  unfold coversAll at hc
  obtain ⟨g, hg, hc⟩ := List.any_eq_true.mp hc
  simp only [Bool.and_eq_true, beq_iff_eq, List.all_eq_true, List.mem_range] at hc
  obtain ⟨⟨hname, hfrom⟩, hidx⟩ := hc
  obtain ⟨l, hl, hsem⟩ := h g hg
  simp only [hfrom, ↓reduceIte] at hsem
  rw [hname] at hl
  refine ⟨l, hl, ?_⟩
  intro s hs
  obtain ⟨j, hj⟩ := List.mem_iff_getElem?.mp hs
  by_cases hlt : j < g.2.1
  · obtain ⟨l', hl', hsem'⟩ := implied_sound h (L, j, false) (hidx j hlt)
    simp only at hl' hsem'
    rw [hl] at hl'
    simp only [Option.some.injEq, Val.strs.injEq] at hl'
    subst hl'
    simp only [Bool.false_eq_true, ↓reduceIte] at hsem'
    exact hsem' s hj
  · exact hsem j s (by omega) hj

theorem covered_sound {A : ACtx} {tv : Targets} {ρ : AEnv} {env : Env} {F : Facts} (h : FactsHold env F)
    (hR : Rel A tv ρ env) (t : Target) (hc : covered F ρ t = true) : Clean (tv.get t) := by
  unfold covered at hc
  obtain ⟨g, _, hc⟩ := List.any_eq_true.mp hc
  simp only [Bool.and_eq_true, beq_iff_eq] at hc
  obtain ⟨l, hl, hcl⟩ := coversAll_sound h g.1 hc.2
  have := hR g.1 _ hl
  rw [hc.1] at this
  obtain ⟨l', hl', hcov⟩ := this
  cases hl'
  exact hcov hcl

theorem FactsHold.set {env : Env} {F : Facts} (h : FactsHold env F) (n : String) (v : Val) :
    FactsHold (env.set n v) (F.filter fun g => g.1 != n) := by
  intro f hf
  obtain ⟨hm, hne⟩ := List.mem_filter.mp hf
  obtain ⟨l, hl, hsem⟩ := h f hm
  refine ⟨l, ?_, hsem⟩
  rw [Env.get?_set]
  have : (f.1 == n) = false := by simpa using hne
  simp only [this, Bool.false_eq_true, ↓reduceIte]
  exact hl

theorem evalE_int (c : Ctx) (k : Nat) (env : Env) (n : Int) (v : Val) (h : evalE c k env (.int n) = some v) :
    v = .int n := by
  cases k with
  | zero => rw [evalE_zero] at h; cases h
  | succ k => rw [evalE] at h; simp only [Option.some.injEq] at h; exact h.symm

/-- evaluating `L[i]` -/
theorem evalE_elemRef (c : Ctx) (env : Env) (a : Expr) (L : String) (i : Nat) (h : elemRef a = some (L, i))
    (k : Nat) (v : Val) (hv : evalE c k env a = some v) :
    ∃ l s, env.get? L = some (.strs l) ∧ l[i]? = some s ∧ v = .str s := by
  unfold elemRef at h
  split at h
  · rename_i L' i'
    split at h
    · cases h
    · rename_i hneg
      simp only [Option.some.injEq, Prod.mk.injEq] at h
      obtain ⟨rfl, rfl⟩ := h
      cases k with
      | zero => rw [evalE_zero] at hv; cases hv
      | succ k =>
        rw [evalE] at hv
        split at hv
        · rename_i l kk h1 h2
          have := evalE_int c k env i' _ h2
          simp only [Val.int.injEq] at this
          subst this
          simp only [hneg, ↓reduceIte] at hv
          have hget := evalE_var c k env L' _ h1
          cases hidx : l[kk.toNat]? with
          | none => rw [hidx] at hv; simp at hv
          | some s =>
            rw [hidx] at hv
            simp only [Option.map_some, Option.some.injEq] at hv
            exact ⟨l, s, hget, hidx, hv.symm⟩
        · cases hv
  · cases h

/-- evaluating `L` or `L[k:]` to a list -/
theorem evalE_listRef (c : Ctx) (env : Env) (a : Expr) (L : String) (k0 : Nat) (h : listRef a = some (L, k0))
    (k : Nat) (la : List Bytes) (hv : evalE c k env a = some (.strs la)) :
    ∃ l, env.get? L = some (.strs l) ∧ la = l.drop k0 := by
  unfold listRef at h
  split at h
  · rename_i L'
    simp only [Option.some.injEq, Prod.mk.injEq] at h
    obtain ⟨rfl, rfl⟩ := h
    exact ⟨la, evalE_var c k env _ _ hv, by simp⟩
  · rename_i L' k'
    split at h
    · cases h
    · rename_i hneg
      simp only [Option.some.injEq, Prod.mk.injEq] at h
      obtain ⟨rfl, rfl⟩ := h
      cases k with
      | zero => rw [evalE_zero] at hv; cases hv
      | succ k =>
        rw [evalE] at hv
        split at hv
        · rename_i l kk h1 h2
          have := evalE_int c k env k' _ h2
          simp only [Val.int.injEq] at this
          subst this
          have hget := evalE_var c k env L' _ h1
          split at hv
          · cases hv
          · simp only [Option.some.injEq, Val.strs.injEq] at hv
            exact ⟨l, hget, hv.symm⟩
        · cases hv
  · cases h

/-- a list that is clean vouches, as an argument of `in` / `recursiveCheck`, for what `listArgFacts` says -/
theorem listArgFacts_sound (c : Ctx) (env : Env) (a : Expr) (k : Nat) (la : List Bytes)
    (hv : evalE c k env a = some (.strs la)) (hcl : CleanL la) : FactsHold env (listArgFacts a) := by
  have hgen : ∀ L k0, listRef a = some (L, k0) → FactsHold env [(L, k0, true)] := by
    intro L k0 href f hf
    simp only [List.mem_singleton] at hf
    subst hf
    obtain ⟨l, hl, hdrop⟩ := evalE_listRef c env a L k0 href k la hv
    refine ⟨l, hl, ?_⟩
    simp only [↓reduceIte]
    intro j s hj hs
    apply hcl s
    rw [hdrop]
    apply List.mem_iff_getElem?.mpr
    refine ⟨j - k0, ?_⟩
    rw [List.getElem?_drop]
    have : k0 + (j - k0) = j := by omega
    rw [this]; exact hs
  unfold listArgFacts
  split
  · rename_i e
    split
    · rename_i L i href
      intro f hf
      simp only [List.mem_singleton] at hf
      subst hf
      -- `[]string{L[i]}` evaluated to `la`
      cases k with
      | zero => rw [evalE_zero] at hv; cases hv
      | succ k =>
        rw [evalE] at hv
        cases hargs : evalArgs c k env [e] with
        | none => rw [hargs] at hv; simp at hv
        | some vs =>
          cases k with
          | zero => rw [evalArgs_zero] at hargs; cases hargs
          | succ k =>
            obtain ⟨v, vs', h1, h2, rfl⟩ := evalArgs_cons c k env _ _ vs hargs
            have hlen := evalArgs_length c env [] k vs' h2
            have : vs' = [] := List.eq_nil_of_length_eq_zero (by simpa using hlen)
            subst this
            obtain ⟨l, s, hl, hidx, rfl⟩ := evalE_elemRef c env e L i href k v h1
            rw [hargs] at hv
            simp only [Option.bind_some, List.mapM_cons, List.mapM_nil, Option.pure_def, Option.bind_eq_bind,
              Option.map_some, Option.some.injEq, Val.strs.injEq] at hv
            subst hv
            refine ⟨l, hl, ?_⟩
            simp only [Bool.false_eq_true, ↓reduceIte]
            intro s' hs'
            rw [hidx] at hs'
            simp only [Option.some.injEq] at hs'
            subst hs'
            exact hcl s (by simp)
    · exact FactsHold.nil env
  · split
    · rename_i L k0 href
      exact hgen L k0 href
    · exact FactsHold.nil env

theorem lenBound_sound (op : String) (len n : Int) (pol : Bool) (k : Int) (hb : lenBound op n pol = some k)
    (hc : cmpInt op len n = some pol) : len ≤ k := by
  unfold lenBound at hb
  unfold cmpInt at hc
  cases pol with
  | true =>
    simp only [↓reduceIte] at hb
    split at hb
    · rename_i h; have : op = "<" := by simpa using h
      subst this; simp only [Option.some.injEq] at hb hc; subst hb
      have : len < n := by simpa using hc
      omega
    · split at hb
      · rename_i h; have : op = "<=" := by simpa using h
        subst this; simp only [Option.some.injEq] at hb hc; subst hb
        have : len ≤ n := by simpa using hc
        omega
      · split at hb
        · rename_i h; have : op = "==" := by simpa using h
          subst this; simp only [Option.some.injEq] at hb hc; subst hb
          have : len = n := by simpa using hc
          omega
        · cases hb
  | false =>
    simp only [Bool.false_eq_true, ↓reduceIte] at hb
    split at hb
    · rename_i h; have : op = ">" := by simpa using h
      subst this; simp only [Option.some.injEq] at hb hc; subst hb
      have : ¬ len > n := by simpa using hc
      omega
    · split at hb
      · rename_i h; have : op = ">=" := by simpa using h
        subst this; simp only [Option.some.injEq] at hb hc; subst hb
        have : ¬ len ≥ n := by simpa using hc
        omega
      · split at hb
        · rename_i h; have : op = "!=" := by simpa using h
          subst this; simp only [Option.some.injEq] at hb hc; subst hb
          have : len = n := by simpa using hc
          omega
        · cases hb

theorem isListAV_sem {A : ACtx} {tv : Targets} {a : AV} {v : Val} (hl : isListAV a = true) (h : AVsem A tv a v) :
    ∃ l, v = .strs l := by
  cases a with
  | covL t => obtain ⟨l, hl, _⟩ := h; exact ⟨l, hl⟩
  | cleanL => obtain ⟨l, hl, _⟩ := h; exact ⟨l, hl⟩
  | _ => simp [isListAV] at hl

theorem lenFacts_sound (A : ACtx) (c : Ctx) (tv : Targets) (ρ : AEnv) (env : Env) (hR : Rel A tv ρ env)
    (op : String) (a b : Expr) (pol : Bool) (k : Nat) (hand : (op == "&&") = false) (hor : (op == "||") = false)
    (h : evalE c (k + 1) env (.bin op a b) = some (.bool pol)) : FactsHold env (lenFacts ρ op a b pol) := by
  unfold lenFacts
  split
  · rename_i f L n
    split
    · rename_i hf
      simp only [Bool.and_eq_true, beq_iff_eq] at hf
      obtain ⟨rfl, hlist⟩ := hf
      split
      · rename_i kb hkb
        rw [evalE] at h
        simp only [hand, hor, Bool.false_eq_true, ↓reduceIte] at h
        cases k with
        | zero => simp [evalE_zero] at h
        | succ k =>
        have hb := fun v (hv : evalE c (k + 1) env (.int n) = some v) => evalE_int c (k + 1) env n v hv
        cases ha : evalE c (k + 1) env (.call "len" [.var L]) with
        | none => rw [ha] at h; simp at h
        | some va =>
          cases hbv : evalE c (k + 1) env (.int n) with
          | none => rw [ha, hbv] at h; simp at h
          | some vb =>
            have := hb vb hbv
            subst this
            rw [ha, hbv] at h
            -- the value of `len(L)`
            rw [evalE] at ha
            cases hargs : evalArgs c k env [.var L] with
            | none => rw [hargs] at ha; simp at ha
            | some vs =>
              obtain ⟨v, hget, rfl⟩ := evalArgs_var1 c env L k vs hargs
              obtain ⟨l, rfl⟩ := isListAV_sem hlist (hR L v hget)
              rw [hargs] at ha
              have hne : (("len" : String) == "multiSplit") = false := by decide
              simp only [hne, Bool.false_eq_true, ↓reduceIte, Option.some.injEq] at ha
              subst ha
              simp only [Option.map_eq_some_iff, Val.bool.injEq] at h
              obtain ⟨bb, hcmp, rfl⟩ := h
              have hle := lenBound_sound op _ n bb kb hkb hcmp
              intro f hf
              simp only [List.mem_singleton] at hf
              subst hf
              refine ⟨l, hget, ?_⟩
              simp only [↓reduceIte]
              intro j s hj hs
              have hlt : j < l.length := by
                have := List.getElem?_eq_some_iff.mp hs
                exact this.1
              have : (l.length : Int) ≤ kb := hle
              omega
      · exact FactsHold.nil env
    · exact FactsHold.nil env
  · exact FactsHold.nil env

/-- **soundness of `facts`**: when `e` evaluates to `pol`, the facts listed for that outcome hold -/
theorem facts_sound (A : ACtx) (c : Ctx) (hS : SoundCtx A c) (tv : Targets) (ρ : AEnv) (env : Env) (hR : Rel A tv ρ env) :
    ∀ (k : Nat) (e : Expr) (pol : Bool), CallsOK A c (k - 1) → evalE c k env e = some (.bool pol) →
      FactsHold env (facts A ρ pol e) := by
  intro k
  induction k with
  | zero => intro e pol _ h; rw [evalE_zero] at h; cases h
  | succ k ih =>
  intro e pol hC h
  have hC0 : CallsOK A c k := hC
  have hC' : CallsOK A c (k - 1) := hC0.mono (by omega)
  cases e with
  | not e' =>
    simp only [facts]
    rw [evalE] at h
    split at h
    · rename_i b hb
      simp only [Option.some.injEq, Val.bool.injEq] at h
      subst h
      have := ih e' b hC' hb
      simpa using this
    · cases h
  | bin op a b =>
    simp only [facts]
    by_cases hand : (op == "&&") = true
    · have : op = "&&" := by simpa using hand
      subst this
      simp only [beq_self_eq_true, ↓reduceIte]
      rw [evalE] at h
      simp only [beq_self_eq_true, ↓reduceIte] at h
      split at h
      · -- a false
        rename_i ha
        simp only [Option.some.injEq, Val.bool.injEq] at h
        subst h
        simp only [Bool.false_eq_true, ↓reduceIte]
        exact inter_sound (Or.inl (ih a false hC' ha))
      · rename_i ha
        cases pol with
        | true =>
          simp only [↓reduceIte]
          exact (ih a true hC' ha).append (ih b true hC' h)
        | false =>
          simp only [Bool.false_eq_true, ↓reduceIte]
          exact inter_sound (Or.inr (ih b false hC' h))
      · cases h
    · have hand' : (op == "&&") = false := by simpa using hand
      simp only [hand', Bool.false_eq_true, ↓reduceIte]
      by_cases hor : (op == "||") = true
      · have : op = "||" := by simpa using hor
        subst this
        simp only [beq_self_eq_true, ↓reduceIte]
        rw [evalE] at h
        simp only [hand', Bool.false_eq_true, ↓reduceIte, beq_self_eq_true] at h
        split at h
        · rename_i ha
          simp only [Option.some.injEq, Val.bool.injEq] at h
          subst h
          simp only [↓reduceIte]
          exact inter_sound (Or.inl (ih a true hC' ha))
        · rename_i ha
          cases pol with
          | true =>
            simp only [↓reduceIte]
            exact inter_sound (Or.inr (ih b true hC' h))
          | false =>
            simp only [Bool.false_eq_true, ↓reduceIte]
            exact (ih a false hC' ha).append (ih b false hC' h)
        · cases h
      · have hor' : (op == "||") = false := by simpa using hor
        simp only [hor', Bool.false_eq_true, ↓reduceIte]
        exact lenFacts_sound A c tv ρ env hR op a b pol k hand' hor' h
  | handler f a =>
    cases pol with
    | false => simp only [facts]; exact FactsHold.nil env
    | true =>
      simp only [facts]
      split
      · rename_i hf
        split
        · rename_i L i href
          rw [evalE] at h
          split at h
          · rename_i s hs
            obtain ⟨l, s', hl, hidx, hv⟩ := evalE_elemRef c env a L i href k _ hs
            cases hv
            cases hcall : callFn c k f s with
            | none => rw [hcall] at h; simp at h
            | some bb =>
              rw [hcall] at h
              simp only [Option.map_some, Option.some.injEq, Val.bool.injEq] at h
              subst h
              have hcl := hC0 f (List.contains_iff_mem.mp hf) k (Nat.le_refl _) s hcall
              intro g hg
              simp only [List.mem_singleton] at hg
              subst hg
              refine ⟨l, hl, ?_⟩
              simp only [Bool.false_eq_true, ↓reduceIte]
              intro s2 hs2
              rw [hidx] at hs2
              simp only [Option.some.injEq] at hs2
              subst hs2
              exact hcl
          · cases h
        · exact FactsHold.nil env
      · exact FactsHold.nil env
  | reMatch r a =>
    cases pol with
    | false => simp only [facts]; exact FactsHold.nil env
    | true =>
      simp only [facts]
      split
      · rename_i hr
        split
        · rename_i L i href
          rw [evalE] at h
          split at h
          · rename_i s re hs hre
            obtain ⟨l, s', hl, hidx, hv⟩ := evalE_elemRef c env a L i href k _ hs
            cases hv
            simp only [Option.some.injEq, Val.bool.injEq] at h
            have hcl := hS.res r (List.contains_iff_mem.mp hr) re hre s h
            intro g hg
            simp only [List.mem_singleton] at hg
            subst hg
            refine ⟨l, hl, ?_⟩
            simp only [Bool.false_eq_true, ↓reduceIte]
            intro s2 hs2
            rw [hidx] at hs2
            simp only [Option.some.injEq] at hs2
            subst hs2
            exact hcl
          · cases h
        · exact FactsHold.nil env
      · exact FactsHold.nil env
  | call f args =>
    cases pol with
    | false => simp only [facts]; exact FactsHold.nil env
    | true =>
      match args with
      | [] => simp only [facts]; exact FactsHold.nil env
      | [_] => simp only [facts]; exact FactsHold.nil env
      | _ :: _ :: _ :: _ => simp only [facts]; exact FactsHold.nil env
      | [a, b] =>
        simp only [facts]
        rw [evalE] at h
        cases hargs : evalArgs c k env [a, b] with
        | none => rw [hargs] at h; simp at h
        | some vs =>
          obtain ⟨va, vb, j, rfl, h1, h2, rfl⟩ := evalArgs_two c env a b k vs hargs
          rw [hargs] at h
          have sb := aeval_sound A c hS.lower hS.inertDel tv ρ env hR b _ vb h2
          split
          · rename_i hf
            have hf' : f = "in" := by simpa using hf
            subst hf'
            split
            · rename_i hb
              have hb' : aeval A ρ b = .cleanL := by simpa using hb
              rw [hb'] at sb
              obtain ⟨lb, rfl, hcl⟩ := sb
              cases va with
              | strs la =>
                simp at h
                exact listArgFacts_sound c env a _ la h1 (cleanL_of_inList la lb h hcl)
              | _ => simp at h
            · exact FactsHold.nil env
          · split
            · rename_i hf
              have hf' : f = "recursiveCheck" := by simpa using hf
              subst hf'
              split
              · rename_i hb
                have hb' : aeval A ρ b = .funcs := by simpa using hb
                rw [hb'] at sb
                obtain ⟨fs, rfl, hfs⟩ := sb
                cases va with
                | strs vals =>
                  simp at h
                  apply listArgFacts_sound c env a _ vals h1
                  apply cleanL_of_recursiveCheck _ _ vals h
                  intro g hg x hx
                  obtain ⟨fn, hfn, rfl⟩ := List.mem_map.mp hg
                  simp only [beq_iff_eq] at hx
                  exact hC0 fn (hfs fn hfn) (j + 2) (Nat.le_refl _) x hx
                | _ => simp at h
              · exact FactsHold.nil env
            · exact FactsHold.nil env
  | _ => cases pol <;> simp only [facts] <;> exact FactsHold.nil env

theorem RelOut.havoc {A : ACtx} {tv : Targets} {ρ : AEnv} {S : List String} {env : Env}
    (h : RelOut A tv ρ S env) : Rel A tv (havoc ρ S) env := by
  intro n val hn
  unfold Golite.havoc
  by_cases hs : S.contains n = true
  · simp only [hs, ↓reduceIte]; trivial
  · have hs' : S.contains n = false := by simpa using hs
    simp only [hs', Bool.false_eq_true, ↓reduceIte]
    exact h n val (by simpa using hs') hn

theorem flagBody?_spec (body : List Stmt) (cnd : Expr) (flag : String) (h : flagBody? body = some (cnd, flag)) :
    body = [.ifS (.not cnd) [.assign flag (.bool false), .brk] []] := by
  unfold flagBody? at h
  split at h
  · simp only [Option.some.injEq, Prod.mk.injEq] at h
    obtain ⟨rfl, rfl⟩ := h
    rfl
  · cases h

/-- one run of the body of a flag loop -/
theorem flagBody_exec (c : Ctx) (cnd : Expr) (flag : String) (k1 : Nat) (envx env1 : Env) (ctl1 : Ctl)
    (h : exec c k1 envx [.ifS (.not cnd) [.assign flag (.bool false), .brk] []] = some (env1, ctl1)) :
    ∃ k3, k1 = k3 + 2 ∧
      ((evalE c k3 envx cnd = some (.bool true) ∧ env1 = envx ∧ ctl1 = .next) ∨
       (evalE c k3 envx cnd = some (.bool false) ∧ env1 = envx.set flag (.bool false) ∧ ctl1 = .brk)) := by
  cases k1 with
  | zero => rw [exec_zero] at h; cases h
  | succ k2 =>
    rw [exec.eq_def] at h
    simp only at h
    cases k2 with
    | zero => simp [evalE_zero] at h
    | succ k3 =>
      refine ⟨k3, rfl, ?_⟩
      rw [evalE] at h
      cases hc : evalE c k3 envx cnd with
      | none => rw [hc] at h; simp at h
      | some vc =>
        rw [hc] at h
        cases vc with
        | bool bb =>
          cases bb with
          | true =>
            left
            simp only [Bool.not_true, Bool.false_eq_true, ↓reduceIte] at h
            rw [exec_nil] at h
            simp only at h
            rw [exec_nil] at h
            simp only [Option.some.injEq, Prod.mk.injEq] at h
            exact ⟨rfl, h.1.symm, h.2.symm⟩
          | false =>
            right
            simp only [Bool.not_false, ↓reduceIte] at h
            -- `flag = false; break`
            cases k3 with
            | zero => rw [evalE_zero] at hc; cases hc
            | succ k4 =>
              rw [exec.eq_def] at h
              simp only at h
              rw [evalE] at h
              simp only at h
              rw [exec.eq_def] at h
              simp only [Option.some.injEq, Prod.mk.injEq] at h
              exact ⟨rfl, h.1.symm, h.2.symm⟩
        | _ => simp at h

/-- **a flag loop**: the flag is true afterwards only if it was true before and every element passed -/
theorem flagLoop_sound (A : ACtx) (c : Ctx) (hS : SoundCtx A c) (cnd : Expr) (flag v : String) (hfv : flag ≠ v)
    (ρ : AEnv) (p x0 : Bytes)
    (hcnd : aimp A ((dropElem (havoc ρ [v, flag])).set v (.covS .elem)) .elem cnd = true) :
    ∀ (l : List Bytes) (k : Nat) (env env' : Env) (ctl : Ctl), CallsOK A c (k - 1) →
      RelOut A ⟨p, x0⟩ ρ [v, flag] env → (∀ val, env.get? flag = some val → ∃ b0, val = .bool b0) →
      loop c k env v l [.ifS (.not cnd) [.assign flag (.bool false), .brk] []] = some (env', ctl) →
      ctl = .next ∧ (∀ n, n ≠ v → n ≠ flag → env'.get? n = env.get? n) ∧
        ∀ val, env'.get? flag = some val → ∃ b, val = .bool b ∧ (b = true → CleanL l) := by
  intro l
  induction l with
  | nil =>
    intro k env env' ctl _ _ hb0 h
    cases k with
    | zero => rw [loop_zero] at h; cases h
    | succ k =>
      rw [loop_nil] at h
      simp only [Option.some.injEq, Prod.mk.injEq] at h
      obtain ⟨rfl, rfl⟩ := h
      refine ⟨rfl, fun _ _ _ => rfl, fun val hval => ?_⟩
      obtain ⟨b0, rfl⟩ := hb0 val hval
      exact ⟨b0, rfl, fun _ s hs => by simp at hs⟩
  | cons x xs ih =>
    intro k env env' ctl hC hRO hb0 h
    cases k with
    | zero => rw [loop_zero] at h; cases h
    | succ k1 =>
      rw [loop] at h
      have hsetv : ∀ n, n ≠ v → (env.set v (.str x)).get? n = env.get? n := by
        intro n hn
        rw [Env.get?_set]
        have : (n == v) = false := by simpa using hn
        simp [this]
      cases hb : exec c k1 (env.set v (.str x)) [.ifS (.not cnd) [.assign flag (.bool false), .brk] []] with
      | none => rw [hb] at h; simp at h
      | some r =>
        obtain ⟨env1, ctl1⟩ := r
        rw [hb] at h
        obtain ⟨k3, rfl, hcase⟩ := flagBody_exec c cnd flag k1 _ env1 ctl1 hb
        rcases hcase with ⟨hc, rfl, rfl⟩ | ⟨hc, rfl, rfl⟩
        · -- the element passed: the loop goes on
          simp only at h
          have hRb : Rel A ⟨p, x⟩ ((dropElem (havoc ρ [v, flag])).set v (.covS .elem)) (env.set v (.str x)) :=
            (hRO.rel x).set v _ _ ⟨x, rfl, fun hc => hc⟩
          have hx : Clean x := aimp_sound A c hS ⟨p, x⟩ _ _ hRb .elem k3 cnd (hC.mono (by omega)) hcnd hc
          have hRO' : RelOut A ⟨p, x0⟩ ρ [v, flag] (env.set v (.str x)) := by
            apply hRO.frame
            intro n hn
            simp only [List.mem_cons, List.not_mem_nil, or_false, not_or] at hn
            exact hsetv n hn.1
          have hb0' : ∀ val, (env.set v (.str x)).get? flag = some val → ∃ b0, val = .bool b0 := by
            intro val hval; rw [hsetv flag hfv] at hval; exact hb0 val hval
          obtain ⟨r1, r2, r3⟩ := ih (k3 + 2) _ env' ctl (hC.mono (by omega)) hRO' hb0' h
          refine ⟨r1, fun n hn1 hn2 => by rw [r2 n hn1 hn2, hsetv n hn1], fun val hval => ?_⟩
          obtain ⟨b, rfl, r4⟩ := r3 val hval
          refine ⟨b, rfl, fun hbt s hs => ?_⟩
          rcases List.mem_cons.mp hs with rfl | hs
          · exact hx
          · exact r4 hbt s hs
        · -- the element was refused: the flag is cleared and the loop is left
          simp only [Option.some.injEq, Prod.mk.injEq] at h
          obtain ⟨rfl, rfl⟩ := h
          refine ⟨rfl, fun n hn1 hn2 => ?_, fun val hval => ?_⟩
          · rw [Env.get?_set]
            have : (n == flag) = false := by simpa using hn2
            simp only [this, Bool.false_eq_true, ↓reduceIte]
            exact hsetv n hn1
          · rw [Env.get?_set] at hval
            simp only [beq_self_eq_true, ↓reduceIte, Option.some.injEq] at hval
            exact ⟨false, hval.symm, fun hh => by cases hh⟩

theorem aimpF_sound (A : ACtx) (c : Ctx) (hS : SoundCtx A c) (tv : Targets) (ρ : AEnv) (env : Env) (hR : Rel A tv ρ env)
    (t : Target) (k : Nat) (e : Expr) (hC : CallsOK A c (k - 1)) (ha : aimpF A ρ t e = true)
    (h : evalE c k env e = some (.bool false)) : Clean (tv.get t) := by
  cases k with
  | zero => rw [evalE_zero] at h; cases h
  | succ k =>
    unfold aimpF at ha
    split at ha
    · rename_i c'
      rw [evalE] at h
      split at h
      · rename_i bb hbb
        simp only [Option.some.injEq, Val.bool.injEq, Bool.not_eq_false'] at h
        subst h
        exact aimp_sound A c hS tv ρ env hR t k c' (hC.mono (by omega)) ha hbb
      · cases h
    · rename_i op n lit
      simp only [Bool.and_eq_true, beq_iff_eq] at ha
      obtain ⟨⟨rfl, hn⟩, hlit⟩ := ha
      rw [evalE] at h
      have h1 : (("!=" : String) == "&&") = false := by decide
      have h2 : (("!=" : String) == "||") = false := by decide
      have h3 : (("!=" : String) == "==") = false := by decide
      simp only [h1, h2, Bool.false_eq_true, ↓reduceIte] at h
      cases ha' : evalE c k env (.var n) with
      | none => rw [ha'] at h; simp at h
      | some va =>
        cases hb' : evalE c k env (.str lit) with
        | none => rw [ha', hb'] at h; simp at h
        | some vb =>
          have := evalE_str c k env lit vb hb'
          subst this
          have hget := evalE_var c k env n va ha'
          have := hR n va hget
          rw [hn] at this
          obtain ⟨s, rfl, hcov⟩ := this
          rw [ha', hb'] at h
          simp only [h3, Bool.false_eq_true, ↓reduceIte, beq_self_eq_true, Option.some.injEq, Val.bool.injEq,
            bne_eq_false_iff_eq] at h
          apply hcov
          rw [h]
          exact (cleanB_iff lit).mp hlit
    · cases ha

theorem Rel.set_other {A : ACtx} {tv : Targets} {ρ : AEnv} {env : Env} (h : Rel A tv ρ env) (n : String)
    (hn : ρ n = .other) (v : Val) : Rel A tv ρ (env.set n v) := by
  intro m val hm
  rw [Env.get?_set] at hm
  by_cases hmn : (m == n) = true
  · have : m = n := by simpa using hmn
    subst this
    rw [hn]; trivial
  · have : (m == n) = false := by simpa using hmn
    simp only [this, Bool.false_eq_true, ↓reduceIte] at hm
    exact h m val hm

/-- what the body of an accumulating loop does: it only appends to `acc`; `G` is whatever the list
    vouched for before, `Clean tv.elem` what it vouches for in addition once `done` is reached -/
theorem accOK_sound (A : ACtx) (c : Ctx) (hS : SoundCtx A c) (tv : Targets) (ρ : AEnv) (acc : String)
    (hacc : ρ acc = .other) (G : Prop) :
    ∀ (k : Nat), CallsOK A c (k - 1) → ∀ (fuel : Nat) (done d : Bool) (stmts : List Stmt) (env env' : Env) (ctl : Ctl),
      accOK A ρ acc fuel done stmts = some d → Rel A tv ρ env →
      (∀ val, env.get? acc = some val → ∃ w, val = .strs w ∧ (CleanL w → G)) →
      (done = true → Clean tv.elem ∨ ∃ w, env.get? acc = some (.strs w) ∧ (CleanL w → Clean tv.elem)) →
      exec c k env stmts = some (env', ctl) →
      ctl = .next ∧ (∀ n, n ≠ acc → env'.get? n = env.get? n) ∧
        (∀ val, env'.get? acc = some val → ∃ w, val = .strs w ∧ (CleanL w → G)) ∧
        (d = true → Clean tv.elem ∨ ∃ w, env'.get? acc = some (.strs w) ∧ (CleanL w → Clean tv.elem)) := by
  intro k
  induction k with
  | zero => intro _ fuel done d stmts env env' ctl _ _ _ _ h; rw [exec_zero] at h; cases h
  | succ k ih =>
    intro hC fuel done d stmts env env' ctl hok hR hJ hI h
    have hCk : CallsOK A c (k - 1) := hC.mono (by omega)
    have ih' := ih hCk
    cases fuel with
    | zero => simp [accOK] at hok
    | succ fuel =>
    cases stmts with
    | nil =>
      rw [exec_nil] at h
      simp only [Option.some.injEq, Prod.mk.injEq] at h
      obtain ⟨rfl, rfl⟩ := h
      simp only [accOK, Option.some.injEq] at hok
      subst hok
      exact ⟨rfl, fun _ _ => rfl, hJ, hI⟩
    | cons s rest =>
      -- one appending step, used for both kinds of append
      have happ : ∀ (f : String) (x : Expr) (ys : List Bytes) (w : List Bytes) (done' : Bool),
          env.get? acc = some (.strs w) →
          (done' = true → done = true ∨ (CleanL ys → Clean tv.elem)) →
          accOK A ρ acc fuel done' rest = some d →
          exec c k (env.set acc (.strs (w ++ ys))) rest = some (env', ctl) →
          ctl = .next ∧ (∀ n, n ≠ acc → env'.get? n = env.get? n) ∧
            (∀ val, env'.get? acc = some val → ∃ w, val = .strs w ∧ (CleanL w → G)) ∧
            (d = true → Clean tv.elem ∨ ∃ w, env'.get? acc = some (.strs w) ∧ (CleanL w → Clean tv.elem)) := by
        intro f x ys w done' hw hdone' hok' h'
        have hget : (env.set acc (.strs (w ++ ys))).get? acc = some (.strs (w ++ ys)) := by
          rw [Env.get?_set]; simp
        obtain ⟨r1, r2, r3, r4⟩ := ih' fuel done' d rest _ env' ctl hok' (hR.set_other acc hacc _)
          (fun val hval => by
            rw [hget] at hval
            simp only [Option.some.injEq] at hval
            subst hval
            obtain ⟨w', hw', hG⟩ := hJ _ hw
            cases hw'
            exact ⟨w ++ ys, rfl, fun hcl => hG (fun s hs => hcl s (List.mem_append_left _ hs))⟩)
          (fun hd => by
            rcases hdone' hd with hd0 | hcov
            · rcases hI hd0 with hcl | ⟨w', hw', hcl⟩
              · exact Or.inl hcl
              · rw [hw] at hw'
                simp only [Option.some.injEq, Val.strs.injEq] at hw'
                subst hw'
                exact Or.inr ⟨w ++ ys, hget, fun hc => hcl (fun s hs => hc s (List.mem_append_left _ hs))⟩
            · exact Or.inr ⟨w ++ ys, hget, fun hc => hcov (fun s hs => hc s (List.mem_append_right _ hs))⟩) h'
        refine ⟨r1, fun n hn => ?_, r3, r4⟩
        rw [r2 n hn, Env.get?_set]
        have : (n == acc) = false := by simpa using hn
        simp [this]
      cases s with
      | assign n e =>
        rw [exec.eq_def] at h
        simp only at h
        unfold accOK at hok
        split at hok
        · cases hok
        · contradiction
        · rename_i done' stmts' fuel' n' f a x rest' heq1 heq3
          simp only [Nat.succ_eq_add_one, Nat.add_right_cancel_iff] at heq1
          subst heq1
          simp only [List.cons.injEq, Stmt.assign.injEq] at heq3
          obtain ⟨⟨rfl, rfl⟩, rfl⟩ := heq3
          -- the value of `append(acc, x)` / `append(acc, x...)`
          cases hv : evalE c k env (.call f [.var a, x]) with
          | none => rw [hv] at h; simp at h
          | some val =>
            rw [hv] at h
            simp only at h
            cases k with
            | zero => rw [evalE_zero] at hv; cases hv
            | succ k' =>
            rw [evalE] at hv
            cases hargs : evalArgs c k' env [.var a, x] with
            | none => rw [hargs] at hv; simp at hv
            | some vs =>
              obtain ⟨va, vx, j, rfl, h1, h2, rfl⟩ := evalArgs_two c env (.var a) x k' vs hargs
              rw [hargs] at hv
              have hga := evalE_var c (j + 1) env a va h1
              have sx := aeval_sound A c hS.lower hS.inertDel tv ρ env hR x _ vx h2
              split at hok
              · rename_i hcond
                simp only [Bool.and_eq_true, beq_iff_eq] at hcond
                obtain ⟨⟨rfl, rfl⟩, rfl⟩ := hcond
                have hne : (("append" : String) == "multiSplit") = false := by decide
                simp only [hne, Bool.false_eq_true, ↓reduceIte] at hv
                cases va with
                | strs w =>
                  cases vx with
                  | str sx' =>
                    simp only [Option.some.injEq] at hv
                    subst hv
                    refine happ "append" x [sx'] w _ hga (fun hd => ?_) hok h
                    simp only [Bool.or_eq_true, beq_iff_eq] at hd
                    rcases hd with hd | hd
                    · exact Or.inl hd
                    · right
                      rw [hd] at sx
                      obtain ⟨s', hs', hcov⟩ := sx
                      cases hs'
                      exact fun hc => hcov (hc sx' (by simp))
                  | _ => simp at hv
                | _ => simp at hv
              · split at hok
                · rename_i hcond
                  simp only [Bool.and_eq_true, beq_iff_eq] at hcond
                  obtain ⟨⟨rfl, rfl⟩, rfl⟩ := hcond
                  have hne : (("appendSpread" : String) == "multiSplit") = false := by decide
                  simp only [hne, Bool.false_eq_true, ↓reduceIte] at hv
                  cases va with
                  | strs w =>
                    cases vx with
                    | strs xs' =>
                      simp only [Option.some.injEq] at hv
                      subst hv
                      refine happ "appendSpread" x xs' w _ hga (fun hd => ?_) hok h
                      simp only [Bool.or_eq_true, beq_iff_eq] at hd
                      rcases hd with hd | hd
                      · exact Or.inl hd
                      · right
                        rw [hd] at sx
                        obtain ⟨l', hl', hcov⟩ := sx
                        cases hl'
                        exact hcov
                    | _ => simp at hv
                  | _ => simp at hv
                · cases hok
        · rename_i heq; simp at heq
        · first | contradiction | cases hok
      | ifS cnd thn els =>
        rw [exec.eq_def] at h
        simp only at h
        simp only [accOK] at hok
        split at hok
        · rename_i d1 d2 hd1 hd2
          split at h
          · rename_i b hb
            -- the branch that runs
            have hbranch : ∀ env1 ctl1, exec c k env (if b = true then thn else els) = some (env1, ctl1) →
                ctl1 = .next ∧ (∀ n, n ≠ acc → env1.get? n = env.get? n) ∧
                (∀ val, env1.get? acc = some val → ∃ w, val = .strs w ∧ (CleanL w → G)) ∧
                ((d1 && d2) = true → Clean tv.elem ∨ ∃ w, env1.get? acc = some (.strs w) ∧ (CleanL w → Clean tv.elem)) := by
              intro env1 ctl1 hbr
              cases b with
              | true =>
                simp only [↓reduceIte] at hbr
                obtain ⟨r1, r2, r3, r4⟩ := ih' fuel _ d1 thn env env1 ctl1 hd1 hR hJ (fun hd => by
                  simp only [Bool.or_eq_true] at hd
                  rcases hd with hd | hd
                  · exact hI hd
                  · exact Or.inl (aimp_sound A c hS tv ρ env hR .elem k cnd hCk hd hb)) hbr
                exact ⟨r1, r2, r3, fun hd => r4 (by simp only [Bool.and_eq_true] at hd; exact hd.1)⟩
              | false =>
                simp only [Bool.false_eq_true, ↓reduceIte] at hbr
                obtain ⟨r1, r2, r3, r4⟩ := ih' fuel _ d2 els env env1 ctl1 hd2 hR hJ (fun hd => by
                  simp only [Bool.or_eq_true] at hd
                  rcases hd with hd | hd
                  · exact hI hd
                  · exact Or.inl (aimpF_sound A c hS tv ρ env hR .elem k cnd hCk hd hb)) hbr
                exact ⟨r1, r2, r3, fun hd => r4 (by simp only [Bool.and_eq_true] at hd; exact hd.2)⟩
            split at h
            · rename_i env1 hbr
              obtain ⟨_, b2, b3, b4⟩ := hbranch env1 .next hbr
              have hR1 : Rel A tv ρ env1 := by
                intro n val hn
                by_cases hna : n = acc
                · subst hna; rw [hacc]; trivial
                · exact hR n val (by rw [← b2 n hna]; exact hn)
              obtain ⟨r1, r2, r3, r4⟩ := ih' fuel _ d rest env1 env' ctl hok hR1 b3 b4 h
              exact ⟨r1, fun n hn => by rw [r2 n hn, b2 n hn], r3, r4⟩
            · rename_i hno
              obtain ⟨b1, _, _, _⟩ := hbranch env' ctl h
              subst b1
              exact absurd h (hno env')
          · cases h
        · cases hok
      | _ => simp [accOK] at hok

/-- **an accumulating loop**: afterwards the list vouches for every element the loop ranged over -/
theorem accLoop_sound (A : ACtx) (c : Ctx) (hS : SoundCtx A c) (acc v : String) (hav : acc ≠ v)
    (ρ : AEnv) (p x0 : Bytes) (fuel : Nat) (body : List Stmt)
    (hok : accOK A ((dropElem (havoc ρ [v, acc])).set v (.covS .elem)) acc fuel false body = some true) :
    ∀ (l : List Bytes) (k : Nat) (env env' : Env) (ctl : Ctl), CallsOK A c (k - 1) →
      RelOut A ⟨p, x0⟩ ρ [v, acc] env →
      (∀ val, env.get? acc = some val → ∃ w, val = .strs w ∧ (CleanL w → CleanL ([] : List Bytes))) →
      loop c k env v l body = some (env', ctl) →
      ctl = .next ∧ (∀ n, n ≠ v → n ≠ acc → env'.get? n = env.get? n) ∧
        ∀ val, env'.get? acc = some val → ∃ w, val = .strs w ∧ (CleanL w → CleanL l) := by
  -- generalised: the list already vouches for the elements `done` ranged over before
  suffices hgen : ∀ (l : List Bytes) (seen : List Bytes) (k : Nat) (env env' : Env) (ctl : Ctl), CallsOK A c (k - 1) →
      RelOut A ⟨p, x0⟩ ρ [v, acc] env →
      (∀ val, env.get? acc = some val → ∃ w, val = .strs w ∧ (CleanL w → CleanL seen)) →
      loop c k env v l body = some (env', ctl) →
      ctl = .next ∧ (∀ n, n ≠ v → n ≠ acc → env'.get? n = env.get? n) ∧
        ∀ val, env'.get? acc = some val → ∃ w, val = .strs w ∧ (CleanL w → CleanL (seen ++ l)) by
    intro l k env env' ctl hC hRO hJ h
    have := hgen l [] k env env' ctl hC hRO hJ h
    simpa using this
  intro l
  induction l with
  | nil =>
    intro seen k env env' ctl _ _ hJ h
    cases k with
    | zero => rw [loop_zero] at h; cases h
    | succ k =>
      rw [loop_nil] at h
      simp only [Option.some.injEq, Prod.mk.injEq] at h
      obtain ⟨rfl, rfl⟩ := h
      exact ⟨rfl, fun _ _ _ => rfl, by simpa using hJ⟩
  | cons x xs ih =>
    intro seen k env env' ctl hC hRO hJ h
    cases k with
    | zero => rw [loop_zero] at h; cases h
    | succ k1 =>
      rw [loop] at h
      have hsetv : ∀ n, n ≠ v → (env.set v (.str x)).get? n = env.get? n := by
        intro n hn
        rw [Env.get?_set]
        have : (n == v) = false := by simpa using hn
        simp [this]
      have hρacc : ((dropElem (havoc ρ [v, acc])).set v (.covS .elem)) acc = .other := by
        unfold AEnv.set dropElem Golite.havoc
        have h1 : (acc == v) = false := by simpa using hav
        have h2 : [v, acc].contains acc = true := by simp
        simp only [h1, Bool.false_eq_true, ↓reduceIte, h2, dropTag]
      have hRb : Rel A ⟨p, x⟩ ((dropElem (havoc ρ [v, acc])).set v (.covS .elem)) (env.set v (.str x)) :=
        (hRO.rel x).set v _ _ ⟨x, rfl, fun hc => hc⟩
      cases hb : exec c k1 (env.set v (.str x)) body with
      | none => rw [hb] at h; simp at h
      | some r =>
        obtain ⟨env1, ctl1⟩ := r
        obtain ⟨rfl, b2, b3, b4⟩ := accOK_sound A c hS ⟨p, x⟩ _ acc hρacc (CleanL seen) k1 (hC.mono (by omega)) fuel false true
          body _ env1 ctl1 hok hRb (fun val hval => by rw [hsetv acc hav] at hval; exact hJ val hval)
          (fun hh => by cases hh) hb
        rw [hb] at h
        simp only at h
        have hRO' : RelOut A ⟨p, x0⟩ ρ [v, acc] env1 := by
          apply hRO.frame
          intro n hn
          simp only [List.mem_cons, List.not_mem_nil, or_false, not_or] at hn
          rw [b2 n hn.2, hsetv n hn.1]
        have hJ' : ∀ val, env1.get? acc = some val → ∃ w, val = .strs w ∧ (CleanL w → CleanL (seen ++ [x])) := by
          intro val hval
          obtain ⟨w, rfl, hw⟩ := b3 val hval
          refine ⟨w, rfl, fun hcl s hs => ?_⟩
          rcases List.mem_append.mp hs with hs | hs
          · exact hw hcl s hs
          · simp only [List.mem_singleton] at hs
            subst hs
            rcases b4 rfl with hx | ⟨w', hw', hx⟩
            · exact hx
            · rw [hval] at hw'
              simp only [Option.some.injEq, Val.strs.injEq] at hw'
              subst hw'
              exact hx hcl
        obtain ⟨r1, r2, r3⟩ := ih (seen ++ [x]) k1 env1 env' ctl (hC.mono (by omega)) hRO' hJ' h
        refine ⟨r1, fun n hn1 hn2 => by rw [r2 n hn1 hn2, b2 n hn2, hsetv n hn1], fun val hval => ?_⟩
        obtain ⟨w, rfl, hw⟩ := r3 val hval
        exact ⟨w, rfl, by simpa using hw⟩

/-- what the analysis promises of a run of a statement list -/
def ExecOK (tv : Targets) (inLoop endsBody : Bool) (ctl : Ctl) : Prop :=
  (ctl = .ret (.bool true) → Clean tv.param) ∧
  (inLoop = true → ctl = .cont → Clean tv.elem) ∧
  (endsBody = true → ctl = .next → Clean tv.elem) ∧
  ctl ≠ .brk

/-- **soundness of `acheck`**, for statement lists and for loops, by induction on the interpreter's fuel -/
theorem exec_sound (A : ACtx) (c : Ctx) (hS : SoundCtx A c) : ∀ (k : Nat), CallsOK A c (k - 1) →
    (∀ (af : Nat) (stmts : List Stmt) (env : Env) (ρ : AEnv) (Φ : Facts) (est estX inLoop endsBody : Bool) (tv : Targets)
        (env' : Env) (ctl : Ctl),
      acheck A af est estX inLoop endsBody ρ Φ stmts = true → Rel A tv ρ env → FactsHold env Φ →
      (est = true → Clean tv.param) → (estX = true → Clean tv.elem) →
      exec c k env stmts = some (env', ctl) → ExecOK tv inLoop endsBody ctl) ∧
    (∀ (af F : Nat) (body : List Stmt) (ns : List String) (v : String) (l : List Bytes) (env : Env) (ρ : AEnv) (est : Bool)
        (p x0 : Bytes) (env' : Env) (ctl : Ctl),
      assignedIn F body = some ns →
      acheck A af est false true true ((dropElem (havoc ρ (v :: ns))).set v (.covS .elem)) [] body = true →
      RelOut A ⟨p, x0⟩ ρ (v :: ns) env → (est = true → Clean p) →
      loop c k env v l body = some (env', ctl) →
        (ctl = .ret (.bool true) → Clean p) ∧ (ctl = .next → CleanL l) ∧ ctl ≠ .brk ∧ ctl ≠ .cont) := by
  intro k
  induction k with
  | zero =>
    intro _
    constructor
    · intro af stmts env ρ Φ est estX inLoop endsBody tv env' ctl _ _ _ _ _ h; rw [exec_zero] at h; cases h
    · intro af F body ns v l env ρ est p x0 env' ctl _ _ _ _ h; rw [loop_zero] at h; cases h
  | succ k ih =>
    intro hC
    have hCk : CallsOK A c (k - 1) := hC.mono (by omega)
    obtain ⟨ihE, ihL⟩ := ih hCk
    constructor
    · intro af stmts env ρ Φ est estX inLoop endsBody tv env' ctl hac hR hΦ hest hestX h
      cases af with
      | zero => simp [acheck] at hac
      | succ af =>
      cases stmts with
      | nil =>
        rw [exec_nil] at h
        simp only [Option.some.injEq, Prod.mk.injEq] at h
        rw [← h.2]
        simp only [acheck, Bool.or_eq_true, Bool.not_eq_true'] at hac
        refine ⟨(fun hc => by cases hc), (fun _ hc => by cases hc), ?_, (fun hh => by cases hh)⟩
        intro hin _
        rcases hac with (hac | hac) | hac
        · rw [hin] at hac; cases hac
        · exact hestX hac
        · exact covered_sound hΦ hR .elem hac
      | cons s rest =>
        rw [exec.eq_def] at h
        simp only at h
        cases s with
        | assign n e =>
          simp only [acheck] at hac
          simp only at h
          split at h
          · rename_i v hv
            have hsem := aeval_sound A c hS.lower hS.inertDel tv ρ env hR e k v hv
            exact ihE af rest _ _ _ est estX inLoop endsBody tv env' ctl hac (hR.set n _ v hsem) (hΦ.set n v) hest hestX h
          · cases h
        | ret e =>
          simp only [acheck, Bool.or_eq_true] at hac
          simp only at h
          cases he : evalE c k env e with
          | none => rw [he] at h; simp at h
          | some v =>
            rw [he] at h
            simp only [Option.map_some, Option.some.injEq, Prod.mk.injEq] at h
            rw [← h.2]
            refine ⟨?_, (fun _ hc => by cases hc), (fun _ hc => by cases hc), (fun hh => by cases hh)⟩
            intro hv
            simp only [Ctl.ret.injEq] at hv
            subst hv
            rcases hac with (hac | hac) | hac
            · exact hest hac
            · exact aimp_sound A c hS tv ρ env hR .param k e hCk hac he
            · exact covered_sound (hΦ.append (facts_sound A c hS tv ρ env hR k e true hCk he)) hR .param hac
        | brk => simp [acheck] at hac
        | cont =>
          simp only [acheck, Bool.and_eq_true, Bool.or_eq_true] at hac
          simp only [Option.some.injEq, Prod.mk.injEq] at h
          rw [← h.2]
          refine ⟨(fun hc => by cases hc), (fun _ _ => ?_), (fun _ hc => by cases hc), (fun hh => by cases hh)⟩
          rcases hac.2 with hx | hx
          · exact hestX hx
          · exact covered_sound hΦ hR .elem hx
        | ifS cnd thn els =>
          simp only [acheck, Bool.and_eq_true] at hac
          obtain ⟨⟨hthn, hels⟩, hrest⟩ := hac
          simp only at h
          split at h
          · rename_i b hb
            -- the branch that runs
            have hbranch : ∀ env1 ctl1, exec c k env (if b = true then thn else els) = some (env1, ctl1) →
                ExecOK tv inLoop false ctl1 := by
              intro env1 ctl1 hbr
              cases b with
              | true =>
                simp only [↓reduceIte] at hbr
                refine ihE af thn env ρ _ _ _ inLoop false tv env1 ctl1 hthn hR
                  (hΦ.append (facts_sound A c hS tv ρ env hR k cnd true hCk hb)) ?_ ?_ hbr
                · intro he
                  simp only [Bool.or_eq_true] at he
                  rcases he with he | he
                  · exact hest he
                  · exact aimp_sound A c hS tv ρ env hR .param k cnd hCk he hb
                · intro he
                  simp only [Bool.or_eq_true] at he
                  rcases he with he | he
                  · exact hestX he
                  · exact aimp_sound A c hS tv ρ env hR .elem k cnd hCk he hb
              | false =>
                simp only [Bool.false_eq_true, ↓reduceIte] at hbr
                exact ihE af els env ρ _ est estX inLoop false tv env1 ctl1 hels hR
                  (hΦ.append (facts_sound A c hS tv ρ env hR k cnd false hCk hb)) hest hestX hbr
            split at h
            · rename_i env1 hbr
              -- the branch fell through: the rest runs
              split at hrest
              · rename_i hnf
                simp only [Bool.and_eq_true, List.isEmpty_iff] at hnf
                obtain ⟨hnf, hempty⟩ := hnf
                subst hempty
                cases b with
                | true =>
                  simp only [↓reduceIte] at hbr
                  exact absurd hbr (fun hh => noFall_not_next c k thn env env1 hnf hh)
                | false =>
                  simp only [Bool.false_eq_true, ↓reduceIte] at hbr
                  -- the empty else branch leaves the environment as it was
                  have henv : env1 = env := by
                    cases k with
                    | zero => rw [exec_zero] at hbr; cases hbr
                    | succ k' => rw [exec_nil] at hbr; simp only [Option.some.injEq, Prod.mk.injEq] at hbr; exact hbr.1.symm
                  subst henv
                  refine ihE af rest env1 ρ _ _ _ inLoop endsBody tv env' ctl hrest hR
                    (hΦ.append (facts_sound A c hS tv ρ env1 hR k cnd false hCk hb)) ?_ ?_ h
                  · intro he
                    simp only [Bool.or_eq_true] at he
                    rcases he with he | he
                    · exact hest he
                    · cases cnd with
                      | not c' =>
                        simp only at he
                        -- `!c'` was false, so `c'` was true
                        cases k with
                        | zero => rw [evalE_zero] at hb; cases hb
                        | succ k' =>
                          rw [evalE] at hb
                          split at hb
                          · rename_i bb hbb
                            simp only [Option.some.injEq, Val.bool.injEq, Bool.not_eq_false'] at hb
                            subst hb
                            exact aimp_sound A c hS tv ρ env1 hR .param k' c' (hCk.mono (by omega)) he hbb
                          · cases hb
                      | _ => simp at he
                  · intro he
                    simp only [Bool.or_eq_true] at he
                    rcases he with he | he
                    · exact hestX he
                    · cases cnd with
                      | not c' =>
                        simp only at he
                        cases k with
                        | zero => rw [evalE_zero] at hb; cases hb
                        | succ k' =>
                          rw [evalE] at hb
                          split at hb
                          · rename_i bb hbb
                            simp only [Option.some.injEq, Val.bool.injEq, Bool.not_eq_false'] at hb
                            subst hb
                            exact aimp_sound A c hS tv ρ env1 hR .elem k' c' (hCk.mono (by omega)) he hbb
                          · cases hb
                      | _ => simp at he
              · exact ihE af rest env1 forget [] est estX inLoop endsBody tv env' ctl hrest (Rel.forget A tv env1)
                  (FactsHold.nil env1) hest hestX h
            · -- the branch did not fall through: its result is the result
              rename_i hno
              obtain ⟨b1, b2, _, b4⟩ := hbranch env' ctl h
              exact ⟨b1, b2, (fun _ hc => by subst hc; exact absurd h (hno env')), b4⟩
          · cases h
        | forRange v e body =>
          simp only [acheck, Bool.and_eq_true, Bool.not_eq_true'] at hac
          obtain ⟨⟨hnl, hne⟩, hac⟩ := hac
          subst hnl
          subst hne
          simp only at h
          split at h
          · rename_i l hl
            have hsem := aeval_sound A c hS.lower hS.inertDel tv ρ env hR e k _ hl
            split at hac
            · rename_i hcov
              rw [hcov] at hsem
              obtain ⟨l', hl', hcovl⟩ := hsem
              cases hl'
              simp only [Bool.or_eq_true] at hac
              rcases hac with (hac | hac) | hac
              · split at hac
                · cases hac
                · rename_i ns hns
                  simp only [Bool.and_eq_true] at hac
                  obtain ⟨hbody, hrest⟩ := hac
                  have hloop : ∀ env1 ctl1, loop c k env v l body = some (env1, ctl1) →
                      (ctl1 = .ret (.bool true) → Clean tv.param) ∧ (ctl1 = .next → CleanL l) ∧ ctl1 ≠ .brk ∧ ctl1 ≠ .cont := by
                    intro env1 ctl1 hlp
                    exact ihL af af body ns v l env ρ est tv.param tv.elem env1 ctl1 hns hbody (hR.relOut _) hest hlp
                  split at h
                  · rename_i env1 hlp
                    have hcl := (hloop env1 .next hlp).2.1 rfl
                    have := ihE af rest env1 forget [] true false false false tv env' ctl hrest (Rel.forget A tv env1)
                      (FactsHold.nil env1) (fun _ => hcovl hcl) (fun hh => by cases hh) h
                    exact ⟨this.1, (fun hh => by cases hh), (fun hh => by cases hh), this.2.2.2⟩
                  · rename_i hno
                    obtain ⟨h1, _, h3, h4⟩ := hloop env' ctl h
                    exact ⟨h1, (fun hh => by cases hh), (fun hh => by cases hh), h3⟩
              · -- a flag loop
                split at hac
                · rename_i cnd flag hfb
                  have hbodyeq := flagBody?_spec body cnd flag hfb
                  subst hbodyeq
                  simp only [Bool.and_eq_true, bne_iff_ne, ne_eq, Bool.or_eq_true, beq_iff_eq] at hac
                  obtain ⟨⟨⟨hfv, hflag⟩, hcnd⟩, hrest⟩ := hac
                  -- the flag holds a boolean before the loop
                  have hbool : ∀ val, env.get? flag = some val → ∃ b0, val = .bool b0 := by
                    intro val hval
                    have := hR flag val hval
                    rcases hflag with hflag | hflag
                    · rw [hflag] at this; exact this
                    · rw [hflag] at this; obtain ⟨b, hb, _⟩ := this; exact ⟨b, hb⟩
                  have hloop : ∀ env1 ctl1, loop c k env v l [.ifS (.not cnd) [.assign flag (.bool false), .brk] []] = some (env1, ctl1) →
                      ctl1 = .next ∧ (∀ n, n ≠ v → n ≠ flag → env1.get? n = env.get? n) ∧
                        (∀ val, env1.get? flag = some val → ∃ b, val = .bool b ∧ (b = true → CleanL l)) := by
                    intro env1 ctl1 hlp
                    exact flagLoop_sound A c hS cnd flag v hfv ρ tv.param tv.elem hcnd l k env env1 ctl1
                      hCk (hR.relOut _) hbool hlp
                  split at h
                  · rename_i env1 hlp
                    obtain ⟨_, hframe, hfl⟩ := hloop env1 .next hlp
                    have hR1 : Rel A tv ((havoc ρ [v, flag]).set flag (.flag .param)) env1 := by
                      intro n val hn
                      unfold AEnv.set
                      by_cases hnf : (n == flag) = true
                      · have : n = flag := by simpa using hnf
                        subst this
                        simp only [beq_self_eq_true, ↓reduceIte]
                        obtain ⟨b, rfl, hb⟩ := hfl val hn
                        exact ⟨b, rfl, fun hbt => hcovl (hb hbt)⟩
                      · have hnf' : (n == flag) = false := by simpa using hnf
                        simp only [hnf', Bool.false_eq_true, ↓reduceIte]
                        unfold Golite.havoc
                        by_cases hnv : n = v
                        · subst hnv
                          have hc : [n, flag].contains n = true := by simp
                          simp only [hc, ↓reduceIte]; trivial
                        · have hne : n ≠ flag := by simpa using hnf'
                          have hc : [v, flag].contains n = false := by simp [hnv, hne]
                          simp only [hc, Bool.false_eq_true, ↓reduceIte]
                          exact hR n val (by rw [← hframe n hnv hne]; exact hn)
                    have := ihE af rest env1 _ [] est false false false tv env' ctl hrest hR1 (FactsHold.nil env1) hest
                      (fun hh => by cases hh) h
                    exact ⟨this.1, (fun hh => by cases hh), (fun hh => by cases hh), this.2.2.2⟩
                  · rename_i hno
                    obtain ⟨h1, _, _⟩ := hloop env' ctl h
                    subst h1
                    exact absurd h (hno env')
                · cases hac
              · -- an accumulating loop
                split at hac
                · rename_i acc nsr hns
                  simp only [Bool.and_eq_true, bne_iff_ne, ne_eq, beq_iff_eq] at hac
                  obtain ⟨⟨⟨hav, hlist⟩, hok⟩, hrest⟩ := hac
                  have hlistv : ∀ val, env.get? acc = some val → ∃ w, val = .strs w := by
                    intro val hval
                    exact isListAV_sem hlist (hR acc val hval)
                  have hloop : ∀ env1 ctl1, loop c k env v l body = some (env1, ctl1) →
                      ctl1 = .next ∧ (∀ n, n ≠ v → n ≠ acc → env1.get? n = env.get? n) ∧
                        (∀ val, env1.get? acc = some val → ∃ w, val = .strs w ∧ (CleanL w → CleanL l)) := by
                    intro env1 ctl1 hlp
                    exact accLoop_sound A c hS acc v hav ρ tv.param tv.elem af body hok l k env env1 ctl1
                      hCk (hR.relOut _) (fun val hval => by
                        obtain ⟨w, rfl⟩ := hlistv val hval
                        exact ⟨w, rfl, fun _ s hs => by simp at hs⟩) hlp
                  split at h
                  · rename_i env1 hlp
                    obtain ⟨_, hframe, hfl⟩ := hloop env1 .next hlp
                    have hR1 : Rel A tv ((havoc ρ [v, acc]).set acc (.covL .param)) env1 := by
                      intro n val hn
                      unfold AEnv.set
                      by_cases hnf : (n == acc) = true
                      · have : n = acc := by simpa using hnf
                        subst this
                        simp only [beq_self_eq_true, ↓reduceIte]
                        obtain ⟨w, rfl, hw⟩ := hfl val hn
                        exact ⟨w, rfl, fun hcl => hcovl (hw hcl)⟩
                      · have hnf' : (n == acc) = false := by simpa using hnf
                        simp only [hnf', Bool.false_eq_true, ↓reduceIte]
                        unfold Golite.havoc
                        by_cases hnv : n = v
                        · subst hnv
                          have hc : [n, acc].contains n = true := by simp
                          simp only [hc, ↓reduceIte]; trivial
                        · have hne : n ≠ acc := by simpa using hnf'
                          have hc : [v, acc].contains n = false := by simp [hnv, hne]
                          simp only [hc, Bool.false_eq_true, ↓reduceIte]
                          exact hR n val (by rw [← hframe n hnv hne]; exact hn)
                    have := ihE af rest env1 _ [] est false false false tv env' ctl hrest hR1 (FactsHold.nil env1) hest
                      (fun hh => by cases hh) h
                    exact ⟨this.1, (fun hh => by cases hh), (fun hh => by cases hh), this.2.2.2⟩
                  · rename_i hno
                    obtain ⟨h1, _, _⟩ := hloop env' ctl h
                    subst h1
                    exact absurd h (hno env')
                · cases hac
            · cases hac
          · cases h
    · intro af F body ns v l env ρ est p x0 env' ctl hns hbody hRO hest h
      cases l with
      | nil =>
        rw [loop_nil] at h
        simp only [Option.some.injEq, Prod.mk.injEq] at h
        rw [← h.2]
        exact ⟨(fun hc => by cases hc), (fun _ s hs => by simp at hs), (fun hh => by cases hh), (fun hh => by cases hh)⟩
      | cons x xs =>
        rw [loop] at h
        -- one iteration
        have hRb : Rel A ⟨p, x⟩ ((dropElem (havoc ρ (v :: ns))).set v (.covS .elem)) (env.set v (.str x)) :=
          (hRO.rel x).set v _ _ ⟨x, rfl, fun hc => hc⟩
        have hiter : ∀ env1 ctl1, exec c k (env.set v (.str x)) body = some (env1, ctl1) → ExecOK ⟨p, x⟩ true true ctl1 :=
          fun env1 ctl1 hb => ihE af body _ _ [] est false true true ⟨p, x⟩ env1 ctl1 hbody hRb (FactsHold.nil _) hest
            (fun hh => by cases hh) hb
        have hframe : ∀ env1 ctl1, exec c k (env.set v (.str x)) body = some (env1, ctl1) →
            RelOut A ⟨p, x0⟩ ρ (v :: ns) env1 := by
          intro env1 ctl1 hb
          apply hRO.frame
          intro n hn
          simp only [List.mem_cons, not_or] at hn
          rw [(exec_frame c k).1 body _ env1 ctl1 F ns hb hns n hn.2, Env.get?_set]
          have : (n == v) = false := by simpa using hn.1
          simp [this]
        split at h
        · rename_i env1 hb
          obtain ⟨_, _, hx, _⟩ := hiter env1 .next hb
          obtain ⟨r1, r2, r3, r4⟩ := ihL af F body ns v xs env1 ρ est p x0 env' ctl hns hbody (hframe env1 .next hb) hest h
          refine ⟨r1, fun hc => ?_, r3, r4⟩
          intro s hs
          rcases List.mem_cons.mp hs with rfl | hs
          · exact hx rfl rfl
          · exact r2 hc s hs
        · rename_i env1 hb
          obtain ⟨_, hx, _, _⟩ := hiter env1 .cont hb
          obtain ⟨r1, r2, r3, r4⟩ := ihL af F body ns v xs env1 ρ est p x0 env' ctl hns hbody (hframe env1 .cont hb) hest h
          refine ⟨r1, fun hc => ?_, r3, r4⟩
          intro s hs
          rcases List.mem_cons.mp hs with rfl | hs
          · exact hx rfl rfl
          · exact r2 hc s hs
        · rename_i env1 hb
          exact absurd rfl (hiter env1 .brk hb).2.2.2
        · rename_i hn1 hn2 hn3
          cases hb : exec c k (env.set v (.str x)) body with
          | none => rw [hb] at h; cases h
          | some r =>
            obtain ⟨env1, ctl1⟩ := r
            rw [hb] at h
            simp only [Option.some.injEq, Prod.mk.injEq] at h
            obtain ⟨h1, _, _, h3⟩ := hiter env1 ctl1 hb
            rw [← h.2]
            refine ⟨h1, fun hc => ?_, h3, fun hc => ?_⟩
            · subst hc; exact absurd hb (hn1 env1)
            · subst hc; exact absurd hb (hn2 env1)

/-! ### the handlers -/

/-- every handler named closed is defined, and its body passes the analysis with its parameter
    vouching for itself and the package-level values as `ρg` describes them -/
def ACtx.bodiesOK (A : ACtx) (c : Ctx) (ρg : AEnv) (af : Nat) : Bool :=
  A.closedFns.all fun f =>
    match c.func? f with
    | some fn => acheck A af false false false false (ρg.set fn.param (.covS .param)) [] fn.body
    | none => false

theorem callFn_zero (c : Ctx) (f : String) (s : Bytes) : callFn c 0 f s = none := by rw [callFn]

/-- **C18, composition**: in a context whose closed handlers all pass the analysis, a closed handler
    returns true only on values without hostile bytes — for every value and every amount of fuel -/
theorem handlers_sound (A : ACtx) (c : Ctx) (hS : SoundCtx A c) (ρg : AEnv)
    (hg : ∀ tv, Rel A tv ρg c.globals) (af : Nat) (hok : A.bodiesOK c ρg af = true) : ∀ k, CallsOK A c k := by
  intro k
  induction k with
  | zero =>
    intro f _ j hj s h
    have : j = 0 := by omega
    subst this
    rw [callFn_zero] at h; cases h
  | succ k ih =>
    intro f hf j hj s h
    by_cases hjk : j ≤ k
    · exact ih f hf j hjk s h
    · have : j = k + 1 := by omega
      subst this
      rw [callFn] at h
      have hfn := List.all_eq_true.mp hok f hf
      split at h
      · cases h
      · rename_i fn hfunc
        simp only [hfunc] at hfn
        split at h
        · rename_i env' b hex
          simp only [Option.some.injEq] at h
          subst h
          have hR : Rel A ⟨s, []⟩ (ρg.set fn.param (.covS .param)) ((fn.param, .str s) :: c.globals) := by
            intro n val hn
            unfold Env.get? at hn
            unfold AEnv.set
            by_cases hp : (fn.param == n) = true
            · have hp' : fn.param = n := by simpa using hp
              subst hp'
              simp only [beq_self_eq_true, ↓reduceIte, Option.some.injEq] at hn ⊢
              subst hn
              exact ⟨s, rfl, fun hc => hc⟩
            · have hp1 : (fn.param == n) = false := by simpa using hp
              have hp2 : (n == fn.param) = false := by
                simp only [beq_eq_false_iff_ne, ne_eq] at hp1 ⊢
                exact fun e => hp1 e.symm
              simp only [hp1, Bool.false_eq_true, ↓reduceIte] at hn
              simp only [hp2, Bool.false_eq_true, ↓reduceIte]
              exact hg _ n val hn
          have := (exec_sound A c hS k (ih.mono (by omega))).1 af fn.body _ _ [] false false false false ⟨s, []⟩ env' _ hfn hR
            (FactsHold.nil _) (fun hh => by cases hh) (fun hh => by cases hh) hex
          exact this.1 rfl
        · cases h

end BM.Golite
