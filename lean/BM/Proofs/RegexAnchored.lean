import BM.Proofs.RegexSem
import BM.Proofs.RegexLemmas
/-
  "Matches against the whole value": for an expression of the shape `^ … $` (`anchoredBoth`, decided
  on the regenerated syntax trees of every exported matcher and of the css regexps), `MatchString`
  is true exactly when the expression matches — in the declarative relation — from the start of the
  string to its end.  No proper substring can be what was matched.
-/
namespace BM.Re

theorem Matches.endsEot {r : Re} {p s p' s'} (h : Matches r p s p' s') (he : endsEot r = true) : s' = [] := by
  induction h with
  | eot p s hs => simpa using hs
  | cat a b p s p1 s1 p2 s2 _ _ _ ih2 => exact ih2 (by simpa [Re.endsEot] using he)
  | _ => simp [Re.endsEot] at he

/-- **an anchored expression matches the whole string or nothing** -/
theorem search_anchored (r : Re) (ha : anchoredBoth r = true) (s : List Rune) :
    search r s = true ↔ ∃ p', Matches r .none s p' [] := by
  unfold search
  rw [searchFrom_iff]
  constructor
  · rintro ⟨pre, post, p0, p', s', hs, hp, hm⟩
    -- the expression starts with `^`: the match starts where there is no previous rune
    cases r with
    | cat a rest =>
      cases a <;> simp only [anchoredBoth] at ha <;> try cases ha
      cases hm with
      | cat _ _ _ _ p1 s1 _ _ hbot hrest =>
        cases hbot with
        | bot _ _ hnone =>
          have hpre : pre = [] := by
            cases pre with
            | nil => rfl
            | cons x xs =>
              rw [hp] at hnone
              simp only [List.isEmpty_cons, Bool.false_eq_true, ↓reduceIte] at hnone
              cases hl : (x :: xs).getLast? with
              | none => simp at hl
              | some v => rw [hl] at hnone; simp at hnone
          subst hpre
          simp only [List.nil_append] at hs
          subst hs
          simp only [List.isEmpty_nil, ↓reduceIte] at hp
          subst hp
          have hs' := hrest.endsEot ha
          subst hs'
          exact ⟨p', .cat _ _ _ _ _ _ _ _ (.bot _ _ hnone) hrest⟩
    | _ => simp [anchoredBoth] at ha
  · rintro ⟨p', hm⟩
    exact ⟨[], s, .none, p', [], rfl, rfl, hm⟩

end BM.Re
