import BM.Sanitize
import BM.Proofs.Switches
import BM.Proofs.Tables2
/-
  C17, the congruence half: **`sanitize` reads a policy only through its view**.

  `Policy.view` collects what the filter asks of a policy: the switches, and — as plain
  functions — whether an element has rules, whether its rules / the global rules accept a
  key-value pair, whether it may appear bare, whether its content is skipped, whether it is
  allowed by name or by pattern, whether style rules apply to it, whether a declaration is
  accepted on it, and whether a parsed URL's scheme is acceptable.  `sanitize_congr`: two
  policies with the same view return the same bytes for every input (and panic on the same
  inputs).  `Proofs/ViewTables` then shows that the view is a function of the tables read as
  sets, which lifts `C17_rule_tables` from tables to outputs.
-/
namespace BM
open Html

/-- what the first pass asks of a rule table: is `k = v` accepted? -/
def acceptBy (aps : AttrRules) (k v : Bytes) : Bool :=
  match aps.get? k with
  | some apl => attrPoliciesAccept apl v
  | none => false

/-- is the scheme of a parsed URL acceptable (`validURL`'s lookup)? -/
def Policy.schemeOK (p : Policy) (u : Url.URL) : Bool :=
  match p.allowURLSchemes.get? u.scheme with
  | none => p.allowURLSchemeRegexps.any (·.test u.scheme)
  | some policies => policies.isEmpty || policies.any (· u)

/-- do the rules found for element `el` accept `k = v`? -/
def Policy.acceptFor (p : Policy) (el k v : Bytes) : Bool :=
  match p.attrRulesFor el with
  | some aps => acceptBy aps k v
  | none => false

structure View where
  sw : Switches
  rulesSome : Bytes → Bool
  accept : Bytes → Bytes → Bytes → Bool
  gaccept : Bytes → Bytes → Bool
  noAttrs : Bytes → Bool
  skips : Bytes → Bool
  explicit : Bytes → Bool
  pattern : Bytes → Bool
  hasStyle : Bytes → Bool
  decl : Bytes → Css.Decl → Bool
  schemeOK : Url.URL → Bool

def Policy.view (p : Policy) : View :=
  { sw := p.switches
    rulesSome := fun el => (p.attrRulesFor el).isSome
    accept := p.acceptFor
    gaccept := acceptBy p.globalAttrs
    noAttrs := p.allowNoAttrs
    skips := fun el => p.setOfElementsToSkipContent.contains el
    explicit := p.explicitEl
    pattern := p.patternEl
    hasStyle := p.hasStylePolicies
    decl := fun el dec => p.declAccepted (p.styleRulesFor el) dec
    schemeOK := p.schemeOK }

section congr
variable {p q : Policy} (h : p.view = q.view)
include h

theorem view_sw : p.switches = q.switches := congrArg View.sw h

theorem view_addSpaces : p.addSpaces = q.addSpaces := congrArg Switches.addSpaces (view_sw h)
theorem view_allowUnsafe : p.allowUnsafe = q.allowUnsafe := congrArg Switches.allowUnsafe (view_sw h)
theorem view_allowComments : p.allowComments = q.allowComments := congrArg Switches.allowComments (view_sw h)
theorem view_parseable : p.requireParseableURLs = q.requireParseableURLs :=
  congrArg Switches.requireParseableURLs (view_sw h)
theorem view_relative : p.allowRelativeURLs = q.allowRelativeURLs := congrArg Switches.allowRelativeURLs (view_sw h)
theorem view_data : p.allowDataAttributes = q.allowDataAttributes := congrArg Switches.allowDataAttributes (view_sw h)
theorem view_rewriter : p.srcRewriter = q.srcRewriter := congrArg Switches.srcRewriter (view_sw h)

theorem space_congr : p.space = q.space := by
  unfold Policy.space; rw [view_addSpaces h]

theorem validURL_congr (raw : Bytes) : p.validURL raw = q.validURL raw := by
  have hs : ∀ u, p.schemeOK u = q.schemeOK u := fun u => congrFun (congrArg View.schemeOK h) u
  have e : ∀ (p : Policy) (raw : Bytes), p.validURL raw =
      if p.requireParseableURLs then
        let raw := Css.trimSpace raw
        let pre : Option Bytes :=
          if raw.contains 32 || raw.contains 9 || raw.contains 10 then
            if !hasPrefix b!"data:" raw then none
            else
              let matched := dataBase64Prefix raw
              if !matched.isEmpty then some (matched ++ stripCRLF (raw.drop matched.length)) else some raw
          else some raw
        match pre with
        | none => none
        | some raw =>
          match Url.parse raw with
          | none => none
          | some u =>
            if !u.scheme.isEmpty then (if p.schemeOK u then some (Url.print u) else none)
            else if p.allowRelativeURLs && !(Url.print u).isEmpty then some (Url.print u)
            else none
      else some raw := by
    intro p raw
    unfold Policy.validURL Policy.schemeOK
    split
    · simp only
      split
      · next hpre => simp only [hpre]
      · next raw' hpre =>
        simp only [hpre]
        split
        · next hu => simp only [hu]
        · next u hu =>
          simp only [hu]
          split
          · split
            · next hg => simp only [hg]
            · next pol hp =>
              simp only [hp]
              cases hh : pol.isEmpty <;> simp
          · rfl
    · rfl
  rw [e p, e q, view_parseable h, view_relative h]
  simp only [hs]

theorem sanitizeStyles_congr (val el : Bytes) : p.sanitizeStyles val el = q.sanitizeStyles val el := by
  have hd : p.declAccepted (p.styleRulesFor el) = q.declAccepted (q.styleRulesFor el) :=
    funext fun dec => congrFun (congrFun (congrArg View.decl h) el) dec
  unfold Policy.sanitizeStyles
  rw [hd]

theorem filterAttr_congr (el : Bytes) (aps aps' : AttrRules) (ha : acceptBy aps = acceptBy aps') (hs : Bool)
    (a : Attr) : p.filterAttr el aps hs a = q.filterAttr el aps' hs a := by
  have e : ∀ (p : Policy) (aps : AttrRules), p.filterAttr el aps hs a =
      if p.allowDataAttributes && isDataAttribute a.key then some a
      else if a.key == b!"style" && hs then
        (let v := p.sanitizeStyles a.val el; if v.isEmpty then none else some ⟨a.key, v⟩)
      else if acceptBy aps a.key a.val then some a
      else if acceptBy p.globalAttrs a.key a.val then some a else none := fun _ _ => rfl
  have hg : acceptBy p.globalAttrs = acceptBy q.globalAttrs := congrArg View.gaccept h
  rw [e p, e q, view_data h, sanitizeStyles_congr h, ha, hg]

theorem urlPassAttr_congr (el : Bytes) (a : Attr) : p.urlPassAttr el a = q.urlPassAttr el a := by
  unfold Policy.urlPassAttr
  simp only [validURL_congr h, view_rewriter h]

theorem hardenLinks_congr (el : Bytes) (clean : List Attr) : p.hardenLinks el clean = q.hardenLinks el clean := by
  have hsw := view_sw h
  unfold Policy.hardenLinks
  rw [show p.requireNoFollow = q.requireNoFollow from congrArg Switches.requireNoFollow hsw,
    show p.requireNoFollowFullyQualifiedLinks = q.requireNoFollowFullyQualifiedLinks from
      congrArg Switches.requireNoFollowFullyQualifiedLinks hsw,
    show p.requireNoReferrer = q.requireNoReferrer from congrArg Switches.requireNoReferrer hsw,
    show p.requireNoReferrerFullyQualifiedLinks = q.requireNoReferrerFullyQualifiedLinks from
      congrArg Switches.requireNoReferrerFullyQualifiedLinks hsw,
    show p.addTargetBlankToFullyQualifiedLinks = q.addTargetBlankToFullyQualifiedLinks from
      congrArg Switches.addTargetBlankToFullyQualifiedLinks hsw]

theorem linkPasses_congr (el : Bytes) (clean : List Attr) : p.linkPasses el clean = q.linkPasses el clean := by
  have hsw := view_sw h
  have hu : p.urlPassAttr el = q.urlPassAttr el := funext (urlPassAttr_congr h el)
  have hh : p.hardenLinks el = q.hardenLinks el := funext (hardenLinks_congr h el)
  unfold Policy.linkPasses
  rw [show p.requireNoFollow = q.requireNoFollow from congrArg Switches.requireNoFollow hsw,
    show p.requireNoFollowFullyQualifiedLinks = q.requireNoFollowFullyQualifiedLinks from
      congrArg Switches.requireNoFollowFullyQualifiedLinks hsw,
    show p.requireNoReferrer = q.requireNoReferrer from congrArg Switches.requireNoReferrer hsw,
    show p.requireNoReferrerFullyQualifiedLinks = q.requireNoReferrerFullyQualifiedLinks from
      congrArg Switches.requireNoReferrerFullyQualifiedLinks hsw,
    show p.addTargetBlankToFullyQualifiedLinks = q.addTargetBlankToFullyQualifiedLinks from
      congrArg Switches.addTargetBlankToFullyQualifiedLinks hsw, view_parseable h, hu, hh]

theorem forceCrossOrigin_congr (el : Bytes) (clean : List Attr) :
    p.forceCrossOrigin el clean = q.forceCrossOrigin el clean := by
  unfold Policy.forceCrossOrigin
  rw [show p.requireCrossOriginAnonymous = q.requireCrossOriginAnonymous from
    congrArg Switches.requireCrossOriginAnonymous (view_sw h)]

theorem forceSandbox_congr (el : Bytes) (clean : List Attr) : p.forceSandbox el clean = q.forceSandbox el clean := by
  unfold Policy.forceSandbox
  rw [show p.requireSandboxOnIFrame = q.requireSandboxOnIFrame from
    congrArg Switches.requireSandboxOnIFrame (view_sw h)]

theorem sanitizeAttrs_congr (el : Bytes) (attrs : List Attr) (aps aps' : AttrRules)
    (ha : acceptBy aps = acceptBy aps') : p.sanitizeAttrs el attrs aps = q.sanitizeAttrs el attrs aps' := by
  have hf : p.filterAttr el aps (p.hasStylePolicies el) = q.filterAttr el aps' (q.hasStylePolicies el) := by
    rw [show p.hasStylePolicies el = q.hasStylePolicies el from congrFun (congrArg View.hasStyle h) el]
    exact funext (filterAttr_congr h el aps aps' ha _)
  unfold Policy.sanitizeAttrs
  rw [hf, show p.linkPasses el = q.linkPasses el from funext (linkPasses_congr h el),
    show p.forceSandbox el = q.forceSandbox el from funext (forceSandbox_congr h el),
    show p.forceCrossOrigin el = q.forceCrossOrigin el from funext (forceCrossOrigin_congr h el)]

theorem cleanAttrs_congr (t : Token) (aps aps' : AttrRules) (ha : acceptBy aps = acceptBy aps') :
    p.cleanAttrs t aps = q.cleanAttrs t aps' := by
  unfold Policy.cleanAttrs
  rw [sanitizeAttrs_congr h _ _ aps aps' ha]

/-- the two policies find rules for the same elements, and rules that accept the same pairs -/
theorem attrRulesFor_congr (el : Bytes) :
    (p.attrRulesFor el = none ∧ q.attrRulesFor el = none) ∨
    ∃ aps aps', p.attrRulesFor el = some aps ∧ q.attrRulesFor el = some aps' ∧ acceptBy aps = acceptBy aps' := by
  have h1 : (p.attrRulesFor el).isSome = (q.attrRulesFor el).isSome := congrFun (congrArg View.rulesSome h) el
  have h2 : ∀ k v, p.acceptFor el k v = q.acceptFor el k v :=
    fun k v => congrFun (congrFun (congrFun (congrArg View.accept h) el) k) v
  cases hp : p.attrRulesFor el with
  | none =>
    cases hq : q.attrRulesFor el with
    | none => exact .inl ⟨rfl, rfl⟩
    | some a => rw [hp, hq] at h1; simp at h1
  | some aps =>
    cases hq : q.attrRulesFor el with
    | none => rw [hp, hq] at h1; simp at h1
    | some aps' =>
      refine .inr ⟨aps, aps', rfl, rfl, ?_⟩
      funext k v
      have := h2 k v
      unfold Policy.acceptFor at this
      rw [hp, hq] at this
      exact this

theorem enterSkip_congr (st : LoopState) (el : Bytes) : p.enterSkip st el = q.enterSkip st el := by
  unfold Policy.enterSkip
  rw [show p.setOfElementsToSkipContent.contains el = q.setOfElementsToSkipContent.contains el from
    congrFun (congrArg View.skips h) el]

theorem stepStart_congr (st : LoopState) (t : Token) : p.stepStart st t = q.stepStart st t := by
  unfold Policy.stepStart
  simp only [view_allowUnsafe h, space_congr h, enterSkip_congr h,
    show p.allowNoAttrs t.data = q.allowNoAttrs t.data from congrFun (congrArg View.noAttrs h) t.data]
  split
  · rfl
  · rcases attrRulesFor_congr h t.data with ⟨hp, hq⟩ | ⟨aps, aps', hp, hq, ha⟩
    · simp only [hp, hq]
    · simp only [hp, hq, cleanAttrs_congr h t aps aps' ha]

theorem stepSelfClosing_congr (st : LoopState) (t : Token) : p.stepSelfClosing st t = q.stepSelfClosing st t := by
  unfold Policy.stepSelfClosing
  simp only [view_allowUnsafe h, space_congr h,
    show p.allowNoAttrs t.data = q.allowNoAttrs t.data from congrFun (congrArg View.noAttrs h) t.data]
  split
  · rfl
  · rcases attrRulesFor_congr h t.data with ⟨hp, hq⟩ | ⟨aps, aps', hp, hq, ha⟩
    · simp only [hp, hq]
    · simp only [hp, hq, cleanAttrs_congr h t aps aps' ha]

theorem leaveSkip_congr (st : LoopState) (el : Bytes) : p.leaveSkip st el = q.leaveSkip st el := by
  unfold Policy.leaveSkip
  rw [show p.setOfElementsToSkipContent.contains el = q.setOfElementsToSkipContent.contains el from
    congrFun (congrArg View.skips h) el,
    show p.explicitEl el = q.explicitEl el from congrFun (congrArg View.explicit h) el,
    show p.patternEl el = q.patternEl el from congrFun (congrArg View.pattern h) el]

theorem stepEnd_congr (st : LoopState) (t : Token) : p.stepEnd st t = q.stepEnd st t := by
  unfold Policy.stepEnd
  simp only [view_allowUnsafe h, space_congr h, leaveSkip_congr h,
    show p.explicitEl t.data = q.explicitEl t.data from congrFun (congrArg View.explicit h) t.data,
    show p.patternEl t.data = q.patternEl t.data from congrFun (congrArg View.pattern h) t.data]

theorem step_congr (st : LoopState) (t : Token) : p.step st t = q.step st t := by
  unfold Policy.step Policy.stepText
  simp only [view_allowUnsafe h, view_allowComments h, stepStart_congr h, stepEnd_congr h, stepSelfClosing_congr h]

theorem run_congr (st : LoopState) (ts : List Token) : p.run st ts = q.run st ts := by
  induction ts generalizing st with
  | nil => rfl
  | cons t ts ih =>
    unfold Policy.run
    rw [step_congr h]
    split
    · rfl
    · simp only [ih]

end congr

/-- **C17, congruence**: two policies with the same view — the same switches and the same answers
    to the questions the filter asks of the tables — return the same bytes for every input -/
theorem sanitize_congr (p q : Policy) (h : p.ensureInit.view = q.ensureInit.view) (input : Bytes) :
    p.sanitize input = q.sanitize input := by
  unfold Policy.sanitize Policy.sanitizeCore Policy.sanitizeTokens
  rw [run_congr h]

/-- … and panic on the same inputs -/
theorem panics_congr (p q : Policy) (h : p.ensureInit.view = q.ensureInit.view) (input : Bytes) :
    p.panics input = q.panics input := by
  unfold Policy.panics
  rw [run_congr h]

end BM
