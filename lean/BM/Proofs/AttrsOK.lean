import BM.Sanitize
import BM.Proofs.RtTag
/-
  `sanitizeAttrs` never invents an attribute name: every attribute it returns carries the key
  of an input attribute or one of the four fixed keys it adds (rel, target, crossorigin,
  sandbox).  Hence well-formed keys in, well-formed keys out (`AttrOK`), which is what the
  render/tokenize round trip needs of the tags the sanitiser writes.
-/
namespace BM
open Html

def AllOK (l : List Attr) : Prop := ∀ a ∈ l, AttrOK a

theorem attrOK_key {a b : Attr} (hk : a.key = b.key) (hb : AttrOK b) : AttrOK a := by
  obtain ⟨c, rest, h1, h2, h3⟩ := hb
  exact ⟨c, rest, by rw [hk]; exact h1, h2, h3⟩

theorem attrOK_rel (v : Bytes) : AttrOK ⟨b!"rel", v⟩ :=
  ⟨114, b!"el", rfl, by decide, by decide⟩
theorem attrOK_target (v : Bytes) : AttrOK ⟨b!"target", v⟩ :=
  ⟨116, b!"arget", rfl, by decide, by decide⟩
theorem attrOK_crossorigin (v : Bytes) : AttrOK ⟨b!"crossorigin", v⟩ :=
  ⟨99, b!"rossorigin", rfl, by decide, by decide⟩
theorem attrOK_sandbox (v : Bytes) : AttrOK ⟨b!"sandbox", v⟩ :=
  ⟨115, b!"andbox", rfl, by decide, by decide⟩

theorem allOK_nil : AllOK [] := by intro a h; simp at h

theorem allOK_append {l m : List Attr} (h1 : AllOK l) (h2 : AllOK m) : AllOK (l ++ m) := by
  intro a ha
  simp only [List.mem_append] at ha
  rcases ha with h | h
  · exact h1 a h
  · exact h2 a h

theorem allOK_single {a : Attr} (h : AttrOK a) : AllOK [a] := by
  intro b hb; simp at hb; subst hb; exact h

/-- a key-preserving map keeps well-formed keys -/
theorem allOK_map {l : List Attr} (f : Attr → Attr) (hf : ∀ a, (f a).key = a.key) (h : AllOK l) :
    AllOK (l.map f) := by
  intro b hb
  simp only [List.mem_map] at hb
  obtain ⟨a, ha, rfl⟩ := hb
  exact attrOK_key (hf a) (h a ha)

/-! ### the passes -/

theorem filterAttr_key (p : Policy) (el : Bytes) (aps : AttrRules) (hs : Bool) (a b : Attr)
    (h : p.filterAttr el aps hs a = some b) : b.key = a.key := by
  unfold Policy.filterAttr at h
  repeat' split at h
  all_goals (simp at h)
  all_goals (first | (subst h; rfl) | (obtain ⟨_, rfl⟩ := h; rfl))

theorem allOK_filterMap (p : Policy) (el : Bytes) (aps : AttrRules) (hs : Bool) {l : List Attr} (h : AllOK l) :
    AllOK (l.filterMap (p.filterAttr el aps hs)) := by
  intro b hb
  simp only [List.mem_filterMap] at hb
  obtain ⟨a, ha, hab⟩ := hb
  exact attrOK_key (filterAttr_key p el aps hs a b hab) (h a ha)

theorem urlPassAttr_key (p : Policy) (el : Bytes) (a b : Attr)
    (h : p.urlPassAttr el a = some (some b)) : b.key = a.key := by
  unfold Policy.urlPassAttr at h
  repeat' split at h
  all_goals (try (simp at h; done))
  all_goals (try (simp at h; subst h; rfl))
  all_goals (simp at h; obtain ⟨_, _, rfl⟩ := h; rfl)

theorem mapMOpt_mem {α β} (f : α → Option (Option β)) : ∀ (l : List α) (out : List β),
    mapMOpt f l = some out → ∀ y ∈ out, ∃ x ∈ l, f x = some (some y)
  | [], out, h => by simp [mapMOpt] at h; subst h; simp
  | x :: xs, out, h => by
    unfold mapMOpt at h
    split at h
    · rename_i y ys hfx hrec
      simp at h; subst h
      intro z hz
      simp only [List.mem_cons] at hz
      rcases hz with rfl | hz
      · exact ⟨x, by simp, hfx⟩
      · obtain ⟨w, hw, hfw⟩ := mapMOpt_mem f xs ys hrec z hz
        exact ⟨w, by simp [hw], hfw⟩
    · rename_i ys hfx hrec
      simp at h; subst h
      intro z hz
      obtain ⟨w, hw, hfw⟩ := mapMOpt_mem f xs _ hrec z hz
      exact ⟨w, by simp [hw], hfw⟩
    · simp at h

theorem allOK_urlPass (p : Policy) (el : Bytes) {l out : List Attr} (h : AllOK l)
    (hm : mapMOpt (p.urlPassAttr el) l = some out) : AllOK out := by
  intro b hb
  obtain ⟨a, ha, hab⟩ := mapMOpt_mem _ l out hm b hb
  exact attrOK_key (urlPassAttr_key p el a b hab) (h a ha)

theorem relFix_key' (nf nr : Bool) (a : Attr) : (relFix nf nr a).key = a.key := by
  unfold relFix; split <;> rfl

theorem allOK_fixFirstTarget : ∀ {l : List Attr}, AllOK l → AllOK (fixFirstTarget l)
  | [], _ => allOK_nil
  | a :: as, h => by
    unfold fixFirstTarget
    split
    · intro b hb
      simp only [List.mem_cons] at hb
      rcases hb with rfl | hb
      · split
        · exact h a (by simp)
        · exact attrOK_key rfl (h a (by simp))
      · exact h b (by simp [hb])
    · intro b hb
      simp only [List.mem_cons] at hb
      rcases hb with rfl | hb
      · exact h _ (by simp)
      · exact allOK_fixFirstTarget (fun x hx => h x (by simp [hx])) b hb

theorem allOK_addNoOpener {l : List Attr} (h : AllOK l) : AllOK (addNoOpener l) := by
  unfold addNoOpener
  split
  · exact allOK_map _ (fun a => by split <;> rfl) h
  · exact allOK_append h (allOK_single (attrOK_rel _))

theorem allOK_hardenLinks (p : Policy) (el : Bytes) {l : List Attr} (h : AllOK l) :
    AllOK (p.hardenLinks el l) := by
  unfold Policy.hardenLinks
  simp only
  split
  · exact h
  · repeat' (first
      | exact allOK_map _ (relFix_key' _ _) h
      | apply allOK_addNoOpener
      | apply allOK_fixFirstTarget
      | apply allOK_append _ (allOK_single (attrOK_rel _))
      | apply allOK_append _ (allOK_single (attrOK_target _))
      | split)

theorem allOK_forceCrossOrigin (p : Policy) (el : Bytes) {l : List Attr} (h : AllOK l) :
    AllOK (p.forceCrossOrigin el l) := by
  unfold Policy.forceCrossOrigin
  split
  · split
    · exact allOK_map _ (fun a => by unfold setVal; split <;> rfl) h
    · exact allOK_append h (allOK_single (attrOK_crossorigin _))
  · exact h

theorem allOK_forceSandbox (p : Policy) (el : Bytes) {l : List Attr} (h : AllOK l) :
    AllOK (p.forceSandbox el l) := by
  unfold Policy.forceSandbox
  split
  · split
    · split
      · exact allOK_map _ (fun a => by unfold setVal; split <;> rfl) h
      · exact allOK_append h (allOK_single (attrOK_sandbox _))
    · exact h
  · exact h

theorem allOK_linkPasses (p : Policy) (el : Bytes) {l out : List Attr} (h : AllOK l)
    (hl : p.linkPasses el l = some out) : AllOK out := by
  unfold Policy.linkPasses at hl
  split at hl
  · simp only [Option.map_eq_some_iff] at hl
    obtain ⟨mid, hmid, rfl⟩ := hl
    have hm : AllOK mid := by
      split at hmid
      · exact allOK_urlPass p el h hmid
      · simp at hmid; subst hmid; exact h
    split
    · exact allOK_hardenLinks p el hm
    · exact hm
  · simp at hl; subst hl; exact h

/-- **`sanitizeAttrs` keeps attribute keys well formed** -/
theorem allOK_sanitizeAttrs (p : Policy) (el : Bytes) (attrs : List Attr) (aps : AttrRules) (out : List Attr)
    (h : AllOK attrs) (hs : p.sanitizeAttrs el attrs aps = some out) : AllOK out := by
  unfold Policy.sanitizeAttrs at hs
  split at hs
  · simp at hs; subst hs; exact h
  · simp only at hs
    have hf := allOK_filterMap p el aps (p.hasStylePolicies el) h
    split at hs
    · simp at hs; subst hs; exact hf
    · simp only [Option.map_eq_some_iff] at hs
      obtain ⟨mid, hmid, rfl⟩ := hs
      exact allOK_forceSandbox p el (allOK_forceCrossOrigin p el (allOK_linkPasses p el hf hmid))

theorem allOK_cleanAttrs (p : Policy) (t : Token) (aps : AttrRules) (out : List Attr)
    (h : AllOK t.attrs) (hs : p.cleanAttrs t aps = some out) : AllOK out := by
  unfold Policy.cleanAttrs at hs
  split at hs
  · simp at hs; subst hs; exact h
  · exact allOK_sanitizeAttrs p t.data t.attrs aps out h hs

end BM
