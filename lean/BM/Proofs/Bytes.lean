import BM.Proofs.Step
import BM.Proofs.Escape
import BM.Proofs.RtDoc
import BM.Proofs.TokWF
import BM.Proofs.AttrsOK
/-
  From writes to bytes.  For a *plain* policy (no AllowUnsafe, no comments, no raw-text element
  allowed) the bytes the sanitiser returns are the serialisation of a plain token list, so the
  round trip theorem applies: what an HTML tokenizer reads from the output is exactly that
  token list (adjacent texts merged).
-/
namespace BM
open Html Spec

/-- the derived `BEq` on token types is the decidable equality (so that `simp` can compute it) -/
theorem tt_beq (a b : TT) : (a == b) = decide (a = b) := by
  cases a <;> cases b <;> rfl

/-- the class of policies the byte-level theorems cover -/
structure Plain (p : Policy) : Prop where
  noUnsafe : p.allowUnsafe = false
  noComments : p.allowComments = false
  noRaw : ∀ n, isRawTagName n = true → allowsElement p n = false

theorem attrRulesFor_allows' {p : Policy} {el : Bytes} {aps : AttrRules}
    (h : p.attrRulesFor el = some aps) : allowsElement p el = true := by
  unfold Policy.attrRulesFor at h
  unfold allowsElement
  split at h
  · rename_i a ha
    simp [Map.contains, ha]
  · unfold Policy.matchRegex at h
    simp only at h
    split at h
    · simp at h
    · rename_i hne
      simp only [Bool.or_eq_true]
      right
      simp only [List.isEmpty_iff] at hne
      obtain ⟨x, hx⟩ := List.exists_mem_of_ne_nil _ hne
      simp only [List.mem_filter] at hx
      exact List.any_eq_true.mpr ⟨x, hx.1, hx.2⟩

/-- what a written token is, relative to the input token of the iteration -/
def FromToken (p : Policy) (t k : Token) : Prop :=
  SegOK k ∧ ((k.tt = .text ∧ ((k.data = [32] ∧ p.addSpaces = true) ∨ (t.tt = .text ∧ k.data = t.data))) ∨
    (k.tt = t.tt ∧ k.data = t.data ∧ allowsElement p k.data = true ∧ isScriptOrStyle k.data = false))

theorem render_space : (⟨.text, [32], []⟩ : Token).render = [32] := by decide

/-- one iteration writes the serialisation of plain tokens -/
theorem emit_toks {p : Policy} (hp : Plain p) {st : LoopState} {t : Token} (hwf : TokWF t)
    {ws : List Write} (he : Emit p st t ws) :
    ∃ toks : List Token, ws.map (·.data) = toks.map Token.render ∧ ∀ k ∈ toks, FromToken p t k := by
  cases he with
  | nothing => exact ⟨[], rfl, by simp⟩
  | space hsp =>
    refine ⟨[⟨.text, [32], []⟩], by simp [render_space], ?_⟩
    intro k hk; simp at hk; subst hk
    exact ⟨by simp [SegOK], .inl ⟨rfl, .inl ⟨rfl, hsp⟩⟩⟩
  | comment _ hc => rw [hp.noComments] at hc; cases hc
  | openTag aps attrs htt haps hss hattrs _ _ =>
    have hall := attrRulesFor_allows' haps
    have hnr : isRawTagName t.data = false := by
      cases h : isRawTagName t.data with
      | false => rfl
      | true => rw [hp.noRaw _ h] at hall; cases hall
    have hnss : isScriptOrStyle t.data = false := by
      simpa [hp.noUnsafe] using hss
    refine ⟨[{ t with attrs := attrs }], by simp, ?_⟩
    intro k hk; simp at hk; subst hk
    rcases htt with h | h
    · have hw : NameOK' t.data ∧ ∀ a ∈ t.attrs, AttrOK a := by
        unfold TokWF at hwf; rw [h] at hwf; exact hwf
      refine ⟨?_, .inr ⟨rfl, rfl, hall, hnss⟩⟩
      unfold SegOK; simp only [h]
      exact ⟨hw.1, hnr, allOK_cleanAttrs p t aps attrs hw.2 hattrs⟩
    · have hw : NameOK' t.data ∧ ∀ a ∈ t.attrs, AttrOK a := by
        unfold TokWF at hwf; rw [h] at hwf; exact hwf
      refine ⟨?_, .inr ⟨rfl, rfl, hall, hnss⟩⟩
      unfold SegOK; simp only [h]
      exact ⟨hw.1, hnr, allOK_cleanAttrs p t aps attrs hw.2 hattrs⟩
  | closeTag htt hss hall =>
    have hw : NameOK' t.data ∧ t.attrs = [] := by
      unfold TokWF at hwf; rw [htt] at hwf; exact hwf
    have hnss : isScriptOrStyle t.data = false := by
      simpa [hp.noUnsafe] using hss
    refine ⟨[t], by simp, ?_⟩
    intro k hk; simp at hk; subst hk
    refine ⟨?_, .inr ⟨rfl, rfl, by simpa [allowsElement, Map.contains] using hall, hnss⟩⟩
    unfold SegOK; simp only [htt]; exact hw
  | text htt _ _ =>
    refine ⟨[⟨.text, t.data, []⟩], by simp [Token.render, htt], ?_⟩
    intro k hk; simp at hk; subst hk
    exact ⟨by simp [SegOK], .inl ⟨rfl, .inr ⟨htt, rfl⟩⟩⟩
  | rawText _ hun _ => rw [hp.noUnsafe] at hun; cases hun

/-- the whole run writes the serialisation of a plain token list, each written token coming
    from an input token -/
theorem run_toks {p : Policy} (hp : Plain p) (ts : List Token) (hwf : ∀ t ∈ ts, TokWF t) :
    ∀ st, ∃ toks : List Token, (p.run st ts).1.map (·.data) = toks.map Token.render ∧
      ∀ k ∈ toks, ∃ t ∈ ts, FromToken p t k := by
  induction ts with
  | nil => intro st; exact ⟨[], by simp [Policy.run], by simp⟩
  | cons t ts ih =>
    intro st
    unfold Policy.run
    split
    · exact ⟨[], by simp, by simp⟩
    · rename_i st' ws hs
      obtain ⟨k1, hk1, hf1⟩ := emit_toks hp (hwf t (by simp)) (step_emit p st t st' ws hs)
      obtain ⟨k2, hk2, hf2⟩ := ih (fun x hx => hwf x (by simp [hx])) st'
      refine ⟨k1 ++ k2, by simp [hk1, hk2], ?_⟩
      intro k hk
      simp only [List.mem_append] at hk
      rcases hk with h | h
      · exact ⟨t, by simp, hf1 k h⟩
      · obtain ⟨t', ht', hft⟩ := hf2 k h
        exact ⟨t', by simp [ht'], hft⟩

theorem flatten_map_render (toks : List Token) : (toks.map Token.render).flatten = renderAll toks := by
  induction toks with
  | nil => rfl
  | cons t ts ih => simp [renderAll, ih]

/-- **the output bytes of a plain policy are the serialisation of a plain token list** and the
    tokenizer reads exactly that list back -/
theorem sanitizeTokens_roundtrip {p : Policy} (hp : Plain p) (ts : List Token) (hwf : ∀ t ∈ ts, TokWF t) :
    ∃ toks : List Token, p.sanitizeTokens ts = renderAll toks ∧
      tokenize (p.sanitizeTokens ts) = coalesce [] toks ∧
      ∀ k ∈ toks, ∃ t ∈ ts, FromToken p t k := by
  obtain ⟨toks, hr, hf⟩ := run_toks hp ts hwf {}
  have hb : p.sanitizeTokens ts = renderAll toks := by
    unfold Policy.sanitizeTokens
    rw [hr, flatten_map_render]
  refine ⟨toks, hb, ?_, hf⟩
  rw [hb]
  exact tokenize_renderAll toks fun k hk => by
    obtain ⟨_, _, h, _⟩ := hf k hk; exact h

/-- a member of a coalesced list is a merged text or one of the original non-text tokens -/
theorem mem_coalesce : ∀ (ts : List Token) (d : Bytes) (k : Token), k ∈ coalesce d ts →
    (k.tt = .text ∧ k.attrs = []) ∨ (k ∈ ts ∧ k.tt ≠ .text)
  | [], d, k, h => by
    simp only [coalesce, flushText] at h
    split at h
    · simp at h
    · simp at h; subst h; exact .inl ⟨rfl, rfl⟩
  | t :: ts, d, k, h => by
    simp only [coalesce] at h
    split at h
    · rcases mem_coalesce ts _ k h with h' | h'
      · exact .inl h'
      · exact .inr ⟨by simp [h'.1], h'.2⟩
    · rename_i hne
      simp only [List.mem_append, List.mem_cons] at h
      rcases h with h | rfl | h
      · simp only [flushText] at h
        split at h
        · simp at h
        · simp at h; subst h; exact .inl ⟨rfl, rfl⟩
      · refine .inr ⟨by simp, ?_⟩
        intro heq; rw [heq] at hne; exact hne rfl
      · rcases mem_coalesce ts _ k h with h' | h'
        · exact .inl h'
        · exact .inr ⟨by simp [h'.1], h'.2⟩

/-! ### text preservation (C06) -/

theorem textOf_cons (t : Token) (ts : List Token) :
    textOf (t :: ts) = (if t.tt == .text then t.data else []) ++ textOf ts := by
  unfold textOf
  by_cases h : (t.tt == TT.text) = true <;> simp [h]

theorem textOf_append (a b : List Token) : textOf (a ++ b) = textOf a ++ textOf b := by
  simp [textOf]

theorem textOf_flushText (d : Bytes) : textOf (flushText d) = d := by
  unfold flushText
  split
  · rename_i h; simp [textOf, List.isEmpty_iff.mp h]
  · have : ((TT.text == TT.text) = true) := by decide
    simp [textOf, List.filter_cons, this]

/-- merging adjacent texts does not change the text -/
theorem textOf_coalesce : ∀ (ts : List Token) (d : Bytes), textOf (coalesce d ts) = d ++ textOf ts
  | [], d => by
    simp only [coalesce, textOf_flushText]
    simp [textOf]
  | t :: ts, d => by
    simp only [coalesce]
    split
    · rename_i h
      rw [textOf_coalesce ts, textOf_cons, h]; simp
    · rename_i h
      have h' : (t.tt == TT.text) = false := by simpa using h
      rw [textOf_append, textOf_flushText, textOf_cons, textOf_coalesce ts, textOf_cons, h']
      simp

/-- the loop is outside every skipped region and outside every script/style body -/
def Quiet (st : LoopState) : Prop :=
  st.skipElementContent = false ∧ isScriptOrStyle st.mostRecentlyStartedToken = false

/-- a token that cannot start skipping or a script/style body -/
def CalmTok (p : Policy) (t : Token) : Prop :=
  isTag t = true → isScriptOrStyle t.data = false ∧ p.setOfElementsToSkipContent.contains t.data = false

theorem quiet_recent {st : LoopState} (hq : Quiet st) (el : Bytes) (h : isScriptOrStyle el = false) :
    Quiet { st with mostRecentlyStartedToken := el } := ⟨hq.1, h⟩

theorem enterSkip_calm (p : Policy) (st : LoopState) (el : Bytes)
    (h : p.setOfElementsToSkipContent.contains el = false) : p.enterSkip st el = st := by
  unfold Policy.enterSkip
  rw [h]; rfl

theorem quiet_pushDropped {st : LoopState} (hq : Quiet st) (el : Bytes) : Quiet (pushDropped st el) := by
  unfold pushDropped; split <;> exact hq

theorem quiet_markKept {st : LoopState} (hq : Quiet st) (el : Bytes) : Quiet (markKept st el) := by
  unfold markKept; split <;> exact hq

theorem quiet_clearRecent {st : LoopState} (hq : Quiet st) (el : Bytes) : Quiet (clearRecent st el) := by
  unfold clearRecent; split
  · exact ⟨hq.1, rfl⟩
  · exact hq

theorem quiet_popDropped {st : LoopState} (hq : Quiet st) : Quiet (popDropped st) := hq

theorem quiet_popMarker {st : LoopState} (hq : Quiet st) (el : Bytes) : Quiet (popMarker st el) := by
  unfold popMarker; split <;> exact hq

theorem quiet_leaveSkip (p : Policy) {st : LoopState} (hq : Quiet st) (el : Bytes) : Quiet (p.leaveSkip st el) := by
  unfold Policy.leaveSkip; split
  · refine ⟨?_, hq.2⟩
    simp only
    split
    · rfl
    · exact hq.1
  · exact hq

theorem step_quiet (p : Policy) (st : LoopState) (t : Token) (st' : LoopState) (ws : List Write)
    (h : p.step st t = some (st', ws)) (hq : Quiet st) (hc : CalmTok p t) : Quiet st' := by
  unfold Policy.step at h
  split at h
  · simp at h; obtain ⟨rfl, _⟩ := h; exact hq
  · simp at h; obtain ⟨rfl, _⟩ := h; exact hq
  · rename_i htt
    obtain ⟨hss, hsk⟩ := hc (by unfold isTag; rw [htt]; rfl)
    have hq1 := quiet_recent hq t.data hss
    unfold Policy.stepStart at h
    simp only at h
    repeat' split at h
    all_goals (simp at h)
    all_goals (obtain ⟨rfl, _⟩ := h)
    · exact hq1
    · rw [enterSkip_calm p _ _ hsk]; exact hq1
    · exact quiet_pushDropped hq1 _
    · exact quiet_markKept hq1 _
  · rename_i htt
    unfold Policy.stepEnd at h
    have hq1 := quiet_clearRecent hq t.data
    generalize clearRecent st t.data = st1 at h hq1
    simp only at h
    repeat' split at h
    all_goals (simp at h)
    all_goals (obtain ⟨rfl, _⟩ := h)
    · exact hq1
    · exact quiet_popDropped hq1
    · exact quiet_leaveSkip p (quiet_popMarker hq1 _) _
    · exact quiet_leaveSkip p (quiet_popMarker hq1 _) _
  · rename_i htt
    obtain ⟨hss, _⟩ := hc (by unfold isTag; rw [htt]; rfl)
    have hq1 := quiet_recent hq t.data hss
    unfold Policy.stepSelfClosing at h
    simp only at h
    repeat' split at h
    all_goals (simp at h)
    all_goals (obtain ⟨rfl, _⟩ := h; exact hq1)
  · simp at h; obtain ⟨rfl, _⟩ := h; exact hq

end BM
