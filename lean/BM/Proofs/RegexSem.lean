import BM.Regex
/-
  What the executable matcher decides.  `Matches r p s p' s'` is the textbook meaning of a regular
  expression with anchors: `r` matches from the position (previous rune `p`, remaining input `s`) to
  the position (`p'`, `s'`).  `m_adequate`: the backtracking matcher `Re.m` — Perl priority order,
  greedy and lazy loops, loop iterations that must make progress, loop fuel — succeeds with a
  continuation `k` exactly when there is such a match after which `k` succeeds.  So `MatchString`
  (`Re.search`), `Re.fullMatch` and `Re.matchesAt` decide the declarative relation; priorities and
  greediness decide *which* match is found first, never *whether* one exists.
-/
namespace BM.Re

inductive Matches : Re → Option Rune → List Rune → Option Rune → List Rune → Prop where
  | empty (p s) : Matches .empty p s p s
  | cls (rs p c cs) : inRanges c rs = true → Matches (.cls rs) p (c :: cs) (some c) cs
  | anyNL (p c cs) : Matches .anyNL p (c :: cs) (some c) cs
  | any (p c cs) : (c != 10) = true → Matches .any p (c :: cs) (some c) cs
  | bot (p s) : p.isNone = true → Matches .bot p s p s
  | eot (p s) : s.isEmpty = true → Matches .eot p s p s
  | bol (p s) : (p.isNone || p == some 10) = true → Matches .bol p s p s
  | eolNil (p) : Matches .eol p [] p []
  | eolNL (p cs) : Matches .eol p (10 :: cs) p (10 :: cs)
  | cat (a b p s p1 s1 p2 s2) : Matches a p s p1 s1 → Matches b p1 s1 p2 s2 → Matches (.cat a b) p s p2 s2
  | altL (a b p s p' s') : Matches a p s p' s' → Matches (.alt a b) p s p' s'
  | altR (a b p s p' s') : Matches b p s p' s' → Matches (.alt a b) p s p' s'
  | star0 (a p s) : Matches (.star a) p s p s
  | starS (a p s p1 s1 p2 s2) : Matches a p s p1 s1 → s1.length < s.length → Matches (.star a) p1 s1 p2 s2 →
      Matches (.star a) p s p2 s2
  | plus (a p s p1 s1 p2 s2) : Matches a p s p1 s1 → Matches (.star a) p1 s1 p2 s2 → Matches (.plus a) p s p2 s2
  | quest0 (a p s) : Matches (.quest a) p s p s
  | questS (a p s p' s') : Matches a p s p' s' → Matches (.quest a) p s p' s'
  | starL0 (a p s) : Matches (.starL a) p s p s
  | starLS (a p s p1 s1 p2 s2) : Matches a p s p1 s1 → s1.length < s.length → Matches (.starL a) p1 s1 p2 s2 →
      Matches (.starL a) p s p2 s2
  | plusL (a p s p1 s1 p2 s2) : Matches a p s p1 s1 → Matches (.starL a) p1 s1 p2 s2 → Matches (.plusL a) p s p2 s2
  | questL0 (a p s) : Matches (.questL a) p s p s
  | questLS (a p s p' s') : Matches a p s p' s' → Matches (.questL a) p s p' s'

theorem orElse_isSome {α : Type} (x y : Option α) : (x <|> y).isSome = true ↔ x.isSome = true ∨ y.isSome = true := by
  cases x <;> cases y <;> simp

/-- a match never lengthens the remaining input -/
theorem Matches.length_le {r : Re} {p s p' s'} (h : Matches r p s p' s') : s'.length ≤ s.length := by
  induction h with
  | cat _ _ _ _ _ _ _ _ _ _ ih1 ih2 => omega
  | starS _ _ _ _ _ _ _ _ hlt _ _ ih2 => omega
  | plus _ _ _ _ _ _ _ _ _ ih1 ih2 => omega
  | starLS _ _ _ _ _ _ _ _ hlt _ _ ih2 => omega
  | plusL _ _ _ _ _ _ _ _ _ ih1 ih2 => omega
  | _ => first | exact Nat.le_refl _ | simp | assumption

section loops
variable {α : Type} (a : Re)
  (ha : ∀ (p : Option Rune) (s : List Rune) (k : Option Rune → List Rune → Option α),
    (m a p s k).isSome = true ↔ ∃ p' s', Matches a p s p' s' ∧ (k p' s').isSome = true)
include ha

/-- the greedy loop, with enough fuel, decides `star` -/
theorem starLoop_adequate : ∀ (fuel : Nat) (p : Option Rune) (s : List Rune) (k : Option Rune → List Rune → Option α),
    s.length < fuel →
    ((starLoop (m a) fuel p s k).isSome = true ↔ ∃ p' s', Matches (.star a) p s p' s' ∧ (k p' s').isSome = true) := by
  intro fuel
  induction fuel with
  | zero => intro p s k h; omega
  | succ fuel ih =>
    intro p s k hf
    unfold starLoop
    rw [orElse_isSome, ha]
    constructor
    · rintro (⟨p1, s1, hm, hk⟩ | hk)
      · split at hk
        · rename_i hlt
          obtain ⟨p2, s2, hs, hk2⟩ := (ih p1 s1 k (by omega)).mp hk
          exact ⟨p2, s2, .starS a p s p1 s1 p2 s2 hm hlt hs, hk2⟩
        · simp at hk
      · exact ⟨p, s, .star0 a p s, hk⟩
    · rintro ⟨p2, s2, hs, hk⟩
      cases hs with
      | star0 => exact .inr hk
      | starS _ _ _ p1 s1 _ _ hm hlt hrest =>
        refine .inl ⟨p1, s1, hm, ?_⟩
        simp only [hlt, ↓reduceIte]
        exact (ih p1 s1 k (by omega)).mpr ⟨p2, s2, hrest, hk⟩

/-- the lazy loop decides `starL` -/
theorem starLoopL_adequate : ∀ (fuel : Nat) (p : Option Rune) (s : List Rune) (k : Option Rune → List Rune → Option α),
    s.length < fuel →
    ((starLoopL (m a) fuel p s k).isSome = true ↔ ∃ p' s', Matches (.starL a) p s p' s' ∧ (k p' s').isSome = true) := by
  intro fuel
  induction fuel with
  | zero => intro p s k h; omega
  | succ fuel ih =>
    intro p s k hf
    unfold starLoopL
    rw [orElse_isSome, ha]
    constructor
    · rintro (hk | ⟨p1, s1, hm, hk⟩)
      · exact ⟨p, s, .starL0 a p s, hk⟩
      · split at hk
        · rename_i hlt
          obtain ⟨p2, s2, hs, hk2⟩ := (ih p1 s1 k (by omega)).mp hk
          exact ⟨p2, s2, .starLS a p s p1 s1 p2 s2 hm hlt hs, hk2⟩
        · simp at hk
    · rintro ⟨p2, s2, hs, hk⟩
      cases hs with
      | starL0 => exact .inl hk
      | starLS _ _ _ p1 s1 _ _ hm hlt hrest =>
        refine .inr ⟨p1, s1, hm, ?_⟩
        simp only [hlt, ↓reduceIte]
        exact (ih p1 s1 k (by omega)).mpr ⟨p2, s2, hrest, hk⟩

end loops

/-- **adequacy of the matcher**: `m r p s k` succeeds iff `r` matches from `(p, s)` to some position
    from which the continuation succeeds -/
theorem m_adequate {α : Type} : ∀ (r : Re) (p : Option Rune) (s : List Rune) (k : Option Rune → List Rune → Option α),
    (m r p s k).isSome = true ↔ ∃ p' s', Matches r p s p' s' ∧ (k p' s').isSome = true := by
  intro r
  induction r with
  | empty =>
    intro p s k
    simp only [m]
    exact ⟨fun h => ⟨p, s, .empty p s, h⟩, fun ⟨_, _, hm, hk⟩ => by cases hm; exact hk⟩
  | none =>
    intro p s k
    simp only [m, Option.isSome_none, Bool.false_eq_true, false_iff]
    rintro ⟨_, _, hm, _⟩; cases hm
  | cls rs =>
    intro p s k
    cases s with
    | nil =>
      simp only [m, Option.isSome_none, Bool.false_eq_true, false_iff]
      rintro ⟨_, _, hm, _⟩; cases hm
    | cons c cs =>
      simp only [m]
      split
      · rename_i hin
        exact ⟨fun h => ⟨some c, cs, .cls rs p c cs hin, h⟩, fun ⟨_, _, hm, hk⟩ => by cases hm; exact hk⟩
      · rename_i hin
        simp only [Option.isSome_none, Bool.false_eq_true, false_iff]
        rintro ⟨_, _, hm, _⟩; cases hm; contradiction
  | anyNL =>
    intro p s k
    cases s with
    | nil =>
      simp only [m, Option.isSome_none, Bool.false_eq_true, false_iff]
      rintro ⟨_, _, hm, _⟩; cases hm
    | cons c cs =>
      simp only [m]
      exact ⟨fun h => ⟨some c, cs, .anyNL p c cs, h⟩, fun ⟨_, _, hm, hk⟩ => by cases hm; exact hk⟩
  | any =>
    intro p s k
    cases s with
    | nil =>
      simp only [m, Option.isSome_none, Bool.false_eq_true, false_iff]
      rintro ⟨_, _, hm, _⟩; cases hm
    | cons c cs =>
      simp only [m]
      split
      · rename_i hne
        exact ⟨fun h => ⟨some c, cs, .any p c cs hne, h⟩, fun ⟨_, _, hm, hk⟩ => by cases hm; exact hk⟩
      · rename_i hne
        simp only [Option.isSome_none, Bool.false_eq_true, false_iff]
        rintro ⟨_, _, hm, _⟩; cases hm; contradiction
  | bot =>
    intro p s k
    simp only [m]
    split
    · rename_i hp
      exact ⟨fun h => ⟨p, s, .bot p s hp, h⟩, fun ⟨_, _, hm, hk⟩ => by cases hm; exact hk⟩
    · rename_i hp
      simp only [Option.isSome_none, Bool.false_eq_true, false_iff]
      rintro ⟨_, _, hm, _⟩; cases hm; contradiction
  | eot =>
    intro p s k
    simp only [m]
    split
    · rename_i hs
      exact ⟨fun h => ⟨p, s, .eot p s hs, h⟩, fun ⟨_, _, hm, hk⟩ => by cases hm; exact hk⟩
    · rename_i hs
      simp only [Option.isSome_none, Bool.false_eq_true, false_iff]
      rintro ⟨_, _, hm, _⟩; cases hm; contradiction
  | bol =>
    intro p s k
    simp only [m]
    split
    · rename_i hp
      exact ⟨fun h => ⟨p, s, .bol p s hp, h⟩, fun ⟨_, _, hm, hk⟩ => by cases hm; exact hk⟩
    · rename_i hp
      simp only [Option.isSome_none, Bool.false_eq_true, false_iff]
      rintro ⟨_, _, hm, _⟩; cases hm; contradiction
  | eol =>
    intro p s k
    cases s with
    | nil =>
      simp only [m]
      exact ⟨fun h => ⟨p, [], .eolNil p, h⟩, fun ⟨_, _, hm, hk⟩ => by cases hm; exact hk⟩
    | cons c cs =>
      simp only [m]
      split
      · rename_i hc
        have : c = 10 := by simpa using hc
        subst this
        exact ⟨fun h => ⟨p, 10 :: cs, .eolNL p cs, h⟩, fun ⟨_, _, hm, hk⟩ => by cases hm; exact hk⟩
      · rename_i hc
        simp only [Option.isSome_none, Bool.false_eq_true, false_iff]
        rintro ⟨_, _, hm, _⟩
        cases hm
        simp at hc
  | cat a b iha ihb =>
    intro p s k
    simp only [m]
    rw [iha]
    constructor
    · rintro ⟨p1, s1, h1, hk⟩
      obtain ⟨p2, s2, h2, hk2⟩ := (ihb p1 s1 k).mp hk
      exact ⟨p2, s2, .cat a b p s p1 s1 p2 s2 h1 h2, hk2⟩
    · rintro ⟨p2, s2, hm, hk⟩
      cases hm with
      | cat _ _ _ _ p1 s1 _ _ h1 h2 => exact ⟨p1, s1, h1, (ihb p1 s1 k).mpr ⟨p2, s2, h2, hk⟩⟩
  | alt a b iha ihb =>
    intro p s k
    simp only [m]
    rw [orElse_isSome, iha, ihb]
    constructor
    · rintro (⟨p', s', h, hk⟩ | ⟨p', s', h, hk⟩)
      · exact ⟨p', s', .altL a b p s p' s' h, hk⟩
      · exact ⟨p', s', .altR a b p s p' s' h, hk⟩
    · rintro ⟨p', s', hm, hk⟩
      cases hm with
      | altL _ _ _ _ _ _ h => exact .inl ⟨p', s', h, hk⟩
      | altR _ _ _ _ _ _ h => exact .inr ⟨p', s', h, hk⟩
  | star a iha =>
    intro p s k
    simp only [m]
    exact starLoop_adequate a iha (s.length + 1) p s k (by omega)
  | plus a iha =>
    intro p s k
    simp only [m]
    rw [iha]
    constructor
    · rintro ⟨p1, s1, h1, hk⟩
      obtain ⟨p2, s2, h2, hk2⟩ := (starLoop_adequate a iha (s.length + 1) p1 s1 k (by have := h1.length_le; omega)).mp hk
      exact ⟨p2, s2, .plus a p s p1 s1 p2 s2 h1 h2, hk2⟩
    · rintro ⟨p2, s2, hm, hk⟩
      cases hm with
      | plus _ _ _ p1 s1 _ _ h1 h2 =>
        exact ⟨p1, s1, h1, (starLoop_adequate a iha (s.length + 1) p1 s1 k (by have := h1.length_le; omega)).mpr ⟨p2, s2, h2, hk⟩⟩
  | quest a iha =>
    intro p s k
    simp only [m]
    rw [orElse_isSome, iha]
    constructor
    · rintro (⟨p', s', h, hk⟩ | hk)
      · exact ⟨p', s', .questS a p s p' s' h, hk⟩
      · exact ⟨p, s, .quest0 a p s, hk⟩
    · rintro ⟨p', s', hm, hk⟩
      cases hm with
      | quest0 => exact .inr hk
      | questS _ _ _ _ _ h => exact .inl ⟨p', s', h, hk⟩
  | starL a iha =>
    intro p s k
    simp only [m]
    exact starLoopL_adequate a iha (s.length + 1) p s k (by omega)
  | plusL a iha =>
    intro p s k
    simp only [m]
    rw [iha]
    constructor
    · rintro ⟨p1, s1, h1, hk⟩
      obtain ⟨p2, s2, h2, hk2⟩ := (starLoopL_adequate a iha (s.length + 1) p1 s1 k (by have := h1.length_le; omega)).mp hk
      exact ⟨p2, s2, .plusL a p s p1 s1 p2 s2 h1 h2, hk2⟩
    · rintro ⟨p2, s2, hm, hk⟩
      cases hm with
      | plusL _ _ _ p1 s1 _ _ h1 h2 =>
        exact ⟨p1, s1, h1, (starLoopL_adequate a iha (s.length + 1) p1 s1 k (by have := h1.length_le; omega)).mpr ⟨p2, s2, h2, hk⟩⟩
  | questL a iha =>
    intro p s k
    simp only [m]
    rw [orElse_isSome, iha]
    constructor
    · rintro (hk | ⟨p', s', h, hk⟩)
      · exact ⟨p, s, .questL0 a p s, hk⟩
      · exact ⟨p', s', .questLS a p s p' s' h, hk⟩
    · rintro ⟨p', s', hm, hk⟩
      cases hm with
      | questL0 => exact .inl hk
      | questLS _ _ _ _ _ h => exact .inr ⟨p', s', h, hk⟩

/-- `matchesAt`: some match starts at this position -/
theorem matchesAt_iff (r : Re) (p : Option Rune) (s : List Rune) :
    matchesAt r p s = true ↔ ∃ p' s', Matches r p s p' s' := by
  unfold matchesAt
  rw [m_adequate]
  simp

/-- `fullMatch`: the expression matches the whole string -/
theorem fullMatch_iff (r : Re) (s : List Rune) : fullMatch r s = true ↔ ∃ p', Matches r .none s p' [] := by
  unfold fullMatch
  rw [m_adequate]
  constructor
  · rintro ⟨p', s', hm, hk⟩
    split at hk
    · rename_i he
      have : s' = [] := by simpa using he
      subst this; exact ⟨p', hm⟩
    · simp at hk
  · rintro ⟨p', hm⟩
    exact ⟨p', [], hm, by simp⟩

/-- the rune before the `i`-th position of `s` -/
def prevAt (s : List Rune) (i : Nat) : Option Rune := if i = 0 then .none else s[i - 1]?

/-- **`MatchString`** (`Re.search` on the decoded runes): the expression matches somewhere — from
    some position of the string, with the rune before it as context, to a later position -/
theorem searchFrom_iff (r : Re) : ∀ (s : List Rune) (p : Option Rune),
    searchFrom r p s = true ↔
      ∃ (pre post : List Rune) (p0 p' : Option Rune) (s' : List Rune), s = pre ++ post ∧
        p0 = (if pre.isEmpty then p else pre.getLast?) ∧ Matches r p0 post p' s' := by
  intro s
  induction s with
  | nil =>
    intro p
    simp only [searchFrom, matchesAt_iff]
    constructor
    · rintro ⟨p', s', hm⟩
      exact ⟨[], [], p, p', s', rfl, rfl, hm⟩
    · rintro ⟨pre, post, p0, p', s', hs, hp, hm⟩
      have h1 : pre = [] := by
        cases pre with
        | nil => rfl
        | cons x xs => simp at hs
      have h2 : post = [] := by
        cases post with
        | nil => rfl
        | cons x xs => rw [h1] at hs; simp at hs
      subst h1 h2
      simp only [List.isEmpty_nil, ↓reduceIte] at hp
      subst hp
      exact ⟨p', s', hm⟩
  | cons c cs ih =>
    intro p
    simp only [searchFrom, Bool.or_eq_true, matchesAt_iff, ih]
    constructor
    · rintro (⟨p', s', hm⟩ | ⟨pre, post, p0, p', s', hs, hp, hm⟩)
      · exact ⟨[], c :: cs, p, p', s', rfl, rfl, hm⟩
      · refine ⟨c :: pre, post, p0, p', s', by rw [hs]; rfl, ?_, hm⟩
        rw [hp]
        cases pre with
        | nil => simp
        | cons x xs => simp [List.getLast?_cons_cons]
    · rintro ⟨pre, post, p0, p', s', hs, hp, hm⟩
      cases pre with
      | nil =>
        simp only [List.isEmpty_nil, ↓reduceIte] at hp
        subst hp
        simp only [List.nil_append] at hs
        subst hs
        exact .inl ⟨p', s', hm⟩
      | cons x xs =>
        simp only [List.cons_append, List.cons.injEq] at hs
        obtain ⟨rfl, rfl⟩ := hs
        refine .inr ⟨xs, post, p0, p', s', rfl, ?_, hm⟩
        rw [hp]
        cases xs with
        | nil => simp
        | cons y ys => simp [List.getLast?_cons_cons]

end BM.Re
