import BM.Proofs.ViewTables
/-
  `Policy.WF` is an invariant of the builder API: every history of builder calls whose element
  and scheme patterns have one `MatchString` per identity, applied to a well-formed policy (in
  particular to `NewPolicy()`), gives a well-formed policy (`wf_applyOps`).
-/
namespace BM

/-! ### Go-map updates keep keys unique and lists non-empty -/

def KeysNodup {ν : Type} (m : Map Bytes ν) : Prop := (m.map (·.1)).Nodup
def ListsNonempty {α : Type} (m : Map Bytes (List α)) : Prop := ∀ kv ∈ m, kv.2 ≠ []

theorem Map.mem_set {ν : Type} (m : Map Bytes ν) (k : Bytes) (v : ν) (e : Bytes × ν) (h : e ∈ m.set k v) :
    e = (k, v) ∨ e ∈ m := by
  induction m with
  | nil => simp only [Map.set, List.mem_singleton] at h; exact .inl h
  | cons a rest ih =>
    obtain ⟨a, b⟩ := a
    unfold Map.set at h
    by_cases hak : (a == k) = true
    · simp only [hak, ↓reduceIte, List.mem_cons] at h
      rcases h with h | h
      · exact .inl h
      · exact .inr (List.mem_cons_of_mem _ h)
    · simp only [hak, Bool.false_eq_true, ↓reduceIte, List.mem_cons] at h
      rcases h with h | h
      · exact .inr (h ▸ List.mem_cons_self)
      · rcases ih h with h | h
        · exact .inl h
        · exact .inr (List.mem_cons_of_mem _ h)

theorem Map.set_keysNodup {ν : Type} (m : Map Bytes ν) (k : Bytes) (v : ν) (h : KeysNodup m) : KeysNodup (m.set k v) := by
  unfold KeysNodup at *
  induction m with
  | nil => simp [Map.set]
  | cons a rest ih =>
    obtain ⟨a, b⟩ := a
    simp only [List.map_cons, List.nodup_cons] at h
    unfold Map.set
    by_cases hak : (a == k) = true
    · have : a = k := by simpa using hak
      subst this
      simp only [beq_self_eq_true, ↓reduceIte, List.map_cons, List.nodup_cons]
      exact h
    · simp only [hak, Bool.false_eq_true, ↓reduceIte, List.map_cons, List.nodup_cons]
      refine ⟨?_, ih h.2⟩
      intro hmem
      obtain ⟨e, he, hea⟩ := List.mem_map.mp hmem
      rcases Map.mem_set rest k v e he with h1 | h1
      · subst h1
        simp only at hea
        subst hea
        simp at hak
      · exact h.1 (List.mem_map.mpr ⟨e, h1, hea⟩)

theorem update_keysNodup {ν : Type} (m : Map Bytes ν) (k : Bytes) (dflt : ν) (f : ν → ν) (h : KeysNodup m) :
    KeysNodup (m.update k dflt f) := Map.set_keysNodup _ _ _ h

theorem append_listsNonempty {α : Type} (m : Map Bytes (List α)) (k : Bytes) (x : α) (h : ListsNonempty m) :
    ListsNonempty (m.update k [] (· ++ [x])) := by
  intro kv hkv
  rcases Map.mem_set _ _ _ _ hkv with h1 | h1
  · subst h1; simp
  · exact h kv h1

theorem keysNodup_nil {ν : Type} : KeysNodup ([] : Map Bytes ν) := List.nodup_nil
theorem listsNonempty_nil {α : Type} : ListsNonempty ([] : Map Bytes (List α)) := fun _ h => by simp at h

/-! ### tables keyed by pattern identity -/

theorem mem_patSet {ν : Type} (m : List (Pat × ν)) (r : Pat) (v : ν) (e : Pat × ν) (h : e ∈ patSet m r v) :
    e ∈ m ∨ (e.2 = v ∧ e.1.id = r.id ∧ (e.1 = r ∨ ∃ w, (e.1, w) ∈ m)) := by
  induction m with
  | nil =>
    simp only [patSet, List.mem_singleton] at h
    subst h
    exact .inr ⟨rfl, rfl, .inl rfl⟩
  | cons a rest ih =>
    obtain ⟨q, w⟩ := a
    unfold patSet at h
    by_cases hq : (q.id == r.id) = true
    · simp only [hq, ↓reduceIte, List.mem_cons] at h
      rcases h with h | h
      · subst h
        exact .inr ⟨rfl, by simpa using hq, .inr ⟨w, List.mem_cons_self⟩⟩
      · exact .inl (List.mem_cons_of_mem _ h)
    · simp only [hq, Bool.false_eq_true, ↓reduceIte, List.mem_cons] at h
      rcases h with h | h
      · exact .inl (h ▸ List.mem_cons_self)
      · rcases ih h with h1 | ⟨h1, h2, h3⟩
        · exact .inl (List.mem_cons_of_mem _ h1)
        · refine .inr ⟨h1, h2, ?_⟩
          rcases h3 with h3 | ⟨w', h3⟩
          · exact .inl h3
          · exact .inr ⟨w', List.mem_cons_of_mem _ h3⟩

theorem patSet_ids_nodup {ν : Type} (m : List (Pat × ν)) (r : Pat) (v : ν) (h : (m.map (·.1.id)).Nodup) :
    ((patSet m r v).map (·.1.id)).Nodup := by
  induction m with
  | nil => simp [patSet]
  | cons a rest ih =>
    obtain ⟨q, w⟩ := a
    simp only [List.map_cons, List.nodup_cons] at h
    unfold patSet
    by_cases hq : (q.id == r.id) = true
    · simp only [hq, ↓reduceIte, List.map_cons, List.nodup_cons]
      exact h
    · simp only [hq, Bool.false_eq_true, ↓reduceIte, List.map_cons, List.nodup_cons]
      refine ⟨?_, ih h.2⟩
      intro hmem
      obtain ⟨e, he, hid⟩ := List.mem_map.mp hmem
      rcases mem_patSet rest r v e he with h1 | ⟨_, h2, _⟩
      · exact h.1 (List.mem_map.mpr ⟨e, h1, hid⟩)
      · rw [h2] at hid
        simp [hid] at hq

/-- a table keyed by pattern identity whose keys are unique, whose patterns follow `T`, and whose
    values satisfy `P` -/
structure PatOK {β : Type} (T : Nat → Bytes → Bool) (P : β → Prop) (m : List (Pat × β)) : Prop where
  ids : (m.map (·.1.id)).Nodup
  test : ∀ e ∈ m, e.1.test = T e.1.id
  inner : ∀ e ∈ m, P e.2

theorem PatOK.nil {β : Type} (T : Nat → Bytes → Bool) (P : β → Prop) : PatOK T P ([] : List (Pat × β)) :=
  ⟨List.nodup_nil, fun _ h => by simp at h, fun _ h => by simp at h⟩

theorem PatOK.patSet {β : Type} {T : Nat → Bytes → Bool} {P : β → Prop} {m : List (Pat × β)} (h : PatOK T P m)
    (r : Pat) (v : β) (hr : r.test = T r.id) (hv : P v) : PatOK T P (patSet m r v) := by
  refine ⟨patSet_ids_nodup m r v h.ids, ?_, ?_⟩
  · intro e he
    rcases mem_patSet m r v e he with h1 | ⟨_, _, h3 | ⟨w, h3⟩⟩
    · exact h.test e h1
    · rw [h3]; exact hr
    · exact h.test (e.1, w) h3
  · intro e he
    rcases mem_patSet m r v e he with h1 | ⟨h1, _⟩
    · exact h.inner e h1
    · rw [h1]; exact hv

theorem PatOK.getD {β : Type} {T : Nat → Bytes → Bool} {P : β → Prop} {m : List (Pat × β)} (h : PatOK T P m)
    (r : Pat) (dflt : β) (hd : P dflt) : P ((patGet? m r).getD dflt) := by
  cases hg : patGet? m r with
  | none => exact hd
  | some v =>
    obtain ⟨e, he, _, hv⟩ := mem_of_patGet? m r v hg
    simp only [Option.getD_some]
    rw [← hv]; exact h.inner e he

/-! ### `WF` in grouped form -/

def StyleInner (m : StyleRules) : Prop := KeysNodup m ∧ ListsNonempty m

theorem wf_iff (T : Nat → Bytes → Bool) (p : Policy) :
    p.WF T ↔
      PatOK T (KeysNodup (ν := List AttrPolicy)) p.elsMatchingAndAttrs ∧ PatOK T StyleInner p.elsMatchingAndStyles ∧
      (∀ r ∈ p.setOfElementsMatchingAllowedWithoutAttrs, r.test = T r.id) ∧
      (∀ r ∈ p.allowURLSchemeRegexps, r.test = T r.id) ∧
      (∀ e ∈ p.elsAndStyles, ListsNonempty e.2) ∧ ListsNonempty p.globalStyles := by
  constructor
  · intro h
    exact ⟨⟨h.idsA, h.testA, h.keysA⟩, ⟨h.idsS, h.testS, fun e he => ⟨h.keysS e he, h.neMS e he⟩⟩, h.testB, h.testU,
      h.neES, h.neGS⟩
  · rintro ⟨a, s, b, u, es, gs⟩
    exact ⟨a.ids, s.ids, a.inner, fun e he => (s.inner e he).1, a.test, s.test, b, u, es, fun e he => (s.inner e he).2, gs⟩

/-- the six tables `WF` speaks about -/
def Policy.wfFields (p : Policy) :=
  (p.elsMatchingAndAttrs, p.elsMatchingAndStyles, p.setOfElementsMatchingAllowedWithoutAttrs,
   p.allowURLSchemeRegexps, p.elsAndStyles, p.globalStyles)

theorem wf_of_fields (T : Nat → Bytes → Bool) (p q : Policy) (h : q.wfFields = p.wfFields) (hw : p.WF T) : q.WF T := by
  simp only [Policy.wfFields, Prod.mk.injEq] at h
  obtain ⟨h1, h2, h3, h4, h5, h6⟩ := h
  rw [wf_iff] at hw ⊢
  rw [h1, h2, h3, h4, h5, h6]
  exact hw

theorem foldl_wfFields {α : Type} (f : Policy → α → Policy) (h : ∀ b a, (f b a).wfFields = b.wfFields)
    (l : List α) (b : Policy) : (l.foldl f b).wfFields = b.wfFields :=
  foldl_keeps f (fun p : Policy => p.wfFields) h l b

theorem foldl_inv {α β : Type} (f : β → α → β) (Inv : β → Prop) (h : ∀ b a, Inv b → Inv (f b a))
    (l : List α) (b : β) (hb : Inv b) : Inv (l.foldl f b) := by
  induction l generalizing b with
  | nil => exact hb
  | cons a as ih => exact ih _ (h b a hb)

theorem attrsOnElement_wfFields (p : Policy) (names : List Bytes) (re : AttrPolicy) (ae : Bool) (e : Bytes) :
    (attrsOnElement p names re ae e).wfFields = p.wfFields := by
  unfold attrsOnElement
  simp only
  split
  · refine Eq.trans (show _ = (List.foldl _ p names).wfFields from rfl) ?_
    rw [foldl_wfFields]; exact fun _ _ => rfl
  · rw [foldl_wfFields]; exact fun _ _ => rfl

/-- the element and scheme patterns of a call follow `T` (value patterns are not constrained) -/
def BuilderOp.patsOK (T : Nat → Bytes → Bool) : BuilderOp → Prop
  | .allowElementsMatching r => r.test = T r.id
  | .allowAttrs _ _ _ (.onElementsMatching r) => r.test = T r.id
  | .allowStyles _ _ (.onElementsMatching r) => r.test = T r.id
  | .allowURLSchemesMatching r => r.test = T r.id
  | _ => True

theorem wf_matchFold (T : Nat → Bytes → Bool) (r : Pat) (re : AttrPolicy) (hop : r.test = T r.id) (names : List Bytes)
    (p : Policy) (hw : p.WF T) :
    (names.foldl (fun p attr =>
        let cur := (patGet? p.elsMatchingAndAttrs r).getD []
        let m := patSet p.elsMatchingAndAttrs r (addAttrRule cur attr re)
        { p with elsMatchingAndAttrs := m }) p).WF T := by
  refine foldl_inv _ (Policy.WF T) ?_ _ _ hw
  intro b a hb
  rw [wf_iff] at hb ⊢
  obtain ⟨ha, rest⟩ := hb
  exact ⟨ha.patSet r _ hop (update_keysNodup _ _ _ _ (ha.getD r [] keysNodup_nil)), rest⟩

theorem wf_applyOpInit (T : Nat → Bytes → Bool) (d : Bytes → Bytes → Bool) (p : Policy) (hw : p.WF T) (op : BuilderOp)
    (hop : op.patsOK T) : (applyOpInit d p op).WF T := by
  cases op with
  | allowElements names =>
    refine wf_of_fields T p _ ?_ hw
    simp only [applyOpInit]; rw [foldl_wfFields]; exact fun _ _ => rfl
  | allowElementsMatching r =>
    simp only [applyOpInit]
    split
    · exact hw
    · rw [wf_iff] at hw ⊢
      obtain ⟨a, rest⟩ := hw
      exact ⟨a.patSet r [] hop keysNodup_nil, rest⟩
  | allowAttrs names re ae scope =>
    cases scope with
    | onElements els =>
      refine wf_of_fields T p _ ?_ hw
      simp only [applyOpInit]; rw [foldl_wfFields]; exact fun b a => attrsOnElement_wfFields b _ _ _ _
    | onElementsMatching r =>
      simp only [applyOpInit]
      have hfold := wf_matchFold T r re hop (names.map toLowerName) p hw
      split
      · rw [wf_iff] at hfold ⊢
        obtain ⟨ha, hs, hb, rest⟩ := hfold
        refine ⟨?_, hs, ?_, rest⟩
        · simp only
          split
          · exact ha
          · exact ha.patSet r [] hop keysNodup_nil
        · intro r' hr'
          simp only [List.mem_append, List.mem_singleton] at hr'
          rcases hr' with h1 | h1
          · exact hb r' h1
          · rw [h1]; exact hop
      · exact hfold
    | globally =>
      refine wf_of_fields T p _ ?_ hw
      simp only [applyOpInit]; rw [foldl_wfFields]; exact fun _ _ => rfl
  | allowStyles names m scope =>
    cases scope with
    | onElements els =>
      simp only [applyOpInit]
      refine foldl_inv _ (Policy.WF T) ?_ _ _ hw
      intro b e hb
      refine foldl_inv _ (Policy.WF T) ?_ _ _ hb
      intro b prop hb
      rw [wf_iff] at hb ⊢
      obtain ⟨ha, hs, hbb, hu, hes, hgs⟩ := hb
      refine ⟨ha, hs, hbb, hu, ?_, hgs⟩
      intro kv hkv
      rcases Map.mem_set _ _ _ _ hkv with h1 | h1
      · rw [h1]
        apply append_listsNonempty
        cases hg : b.elsAndStyles.get? (toLowerName e) with
        | none => exact listsNonempty_nil
        | some sps => exact hes _ (Map.mem_of_get? _ _ _ hg)
      · exact hes kv h1
    | onElementsMatching r =>
      simp only [applyOpInit]
      refine foldl_inv _ (Policy.WF T) ?_ _ _ hw
      intro b prop hb
      rw [wf_iff] at hb ⊢
      obtain ⟨ha, hs, rest⟩ := hb
      refine ⟨ha, hs.patSet r _ hop ?_, rest⟩
      have hcur := hs.getD r [] ⟨keysNodup_nil, listsNonempty_nil⟩
      exact ⟨update_keysNodup _ _ _ _ hcur.1, append_listsNonempty _ _ _ hcur.2⟩
    | globally =>
      simp only [applyOpInit]
      refine foldl_inv _ (Policy.WF T) ?_ _ _ hw
      intro b prop hb
      rw [wf_iff] at hb ⊢
      obtain ⟨ha, hs, hbb, hu, hes, hgs⟩ := hb
      exact ⟨ha, hs, hbb, hu, hes, append_listsNonempty _ _ _ hgs⟩
  | allowURLSchemesMatching r =>
    simp only [applyOpInit]
    rw [wf_iff] at hw ⊢
    obtain ⟨ha, hs, hbb, hu, rest⟩ := hw
    refine ⟨ha, hs, hbb, ?_, rest⟩
    intro r' hr'
    simp only [List.mem_append, List.mem_singleton] at hr'
    rcases hr' with h1 | h1
    · exact hu r' h1
    · rw [h1]; exact hop
  | allowURLSchemes schemes =>
    refine wf_of_fields T p _ ?_ hw
    simp only [applyOpInit]; rw [foldl_wfFields]
    · rfl
    · exact fun _ _ => rfl
  | skipElementsContent names =>
    refine wf_of_fields T p _ ?_ hw
    simp only [applyOpInit]; rw [foldl_wfFields]; exact fun _ _ => rfl
  | allowElementsContent names =>
    refine wf_of_fields T p _ ?_ hw
    simp only [applyOpInit]; rw [foldl_wfFields]; exact fun _ _ => rfl
  | _ => exact wf_of_fields T p _ rfl hw

/-- **`WF` is an invariant of every history of builder calls on an initialised policy** -/
theorem wf_applyOps (T : Nat → Bytes → Bool) (d : Bytes → Bytes → Bool) (p : Policy) (hi : p.initialized = true)
    (hw : p.WF T) (ops : List BuilderOp) (hops : ∀ op ∈ ops, op.patsOK T) : (applyOps d p ops).WF T := by
  unfold applyOps
  induction ops generalizing p with
  | nil => exact hw
  | cons op rest ih =>
    simp only [List.foldl_cons]
    apply ih
    · exact applyOp_initialized d p hi op
    · rw [applyOp_init_eq d p hi]
      exact wf_applyOpInit T d p hw op (hops op List.mem_cons_self)
    · exact fun o ho => hops o (List.mem_cons_of_mem _ ho)

/-- `NewPolicy()` is well formed -/
theorem wf_new (T : Nat → Bytes → Bool) : ({ initialized := true } : Policy).WF T := by
  rw [wf_iff]
  exact ⟨PatOK.nil T _, PatOK.nil T _, fun _ h => by simp at h, fun _ h => by simp at h, fun _ h => by simp at h,
    listsNonempty_nil⟩

end BM
