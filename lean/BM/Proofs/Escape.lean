import BM.Html
/- Facts about x/net/html `escape` (the serialiser's escaping of text and attribute values). -/
namespace BM.Html

/-- the bytes `escape` can emit for one input byte never include `< > " '` or CR -/
theorem escape_no_special (s : Bytes) :
    ∀ c ∈ escape s, c ≠ 60 ∧ c ≠ 62 ∧ c ≠ 34 ∧ c ≠ 39 ∧ c ≠ 13 := by
  induction s with
  | nil => intro c h; simp [escape] at h
  | cons x xs ih =>
    intro c h
    unfold escape at h
    split at h
    · simp only [List.mem_append] at h
      rcases h with h | h
      · simp at h; rcases h with h | h | h | h | h <;> subst h <;> decide
      · exact ih c h
    · split at h
      · simp only [List.mem_append] at h
        rcases h with h | h
        · simp at h; rcases h with h | h | h | h | h <;> subst h <;> decide
        · exact ih c h
      · split at h
        · simp only [List.mem_append] at h
          rcases h with h | h
          · simp at h; rcases h with h | h | h | h <;> subst h <;> decide
          · exact ih c h
        · split at h
          · simp only [List.mem_append] at h
            rcases h with h | h
            · simp at h; rcases h with h | h | h | h <;> subst h <;> decide
            · exact ih c h
          · split at h
            · simp only [List.mem_append] at h
              rcases h with h | h
              · simp at h; rcases h with h | h | h | h | h <;> subst h <;> decide
              · exact ih c h
            · split at h
              · simp only [List.mem_append] at h
                rcases h with h | h
                · simp at h; rcases h with h | h | h | h | h <;> subst h <;> decide
                · exact ih c h
              · simp only [List.mem_cons] at h
                rcases h with h | h
                · subst h
                  rename_i h1 h2 h3 h4 h5 h6
                  simp at h1 h2 h3 h4 h5 h6
                  exact ⟨h3, h4, h5, h2, h6⟩
                · exact ih c h

end BM.Html
