import BM.Golite
import BM.Unicode
import BM.Css
import BM.Proofs.RecCheck
import BM.Proofs.RegexLemmas
/-
  Bytes that matter to C18 and the string functions of css/handlers.go: the four *hostile* bytes
  (backslash, `<`, `>`, `@`, `;`, `{`, `}`) survive `strings.ToLower`, `strings.TrimSpace`, `strings.Split`,
  `multiSplit` and `splitValues` — so a list of pieces without hostile bytes comes from a value
  without hostile bytes — and show up as runes of their own when a string is decoded for a regexp.
-/
namespace BM

def hostile (c : UInt8) : Bool := c == 92 || c == 60 || c == 62 || c == 64 || c == 59 || c == 123 || c == 125

/-- no backslash, angle bracket, at-sign, semicolon or brace -/
def Clean (s : Bytes) : Prop := ∀ c ∈ s, hostile c = false
def CleanL (l : List Bytes) : Prop := ∀ s ∈ l, Clean s

theorem hostile_cases {c : UInt8} (h : hostile c = true) :
    c = 92 ∨ c = 60 ∨ c = 62 ∨ c = 64 ∨ c = 59 ∨ c = 123 ∨ c = 125 := by
  simp only [hostile, Bool.or_eq_true, beq_iff_eq] at h
  rcases h with (((((h | h) | h) | h) | h) | h) | h
  · exact .inl h
  · exact .inr (.inl h)
  · exact .inr (.inr (.inl h))
  · exact .inr (.inr (.inr (.inl h)))
  · exact .inr (.inr (.inr (.inr (.inl h))))
  · exact .inr (.inr (.inr (.inr (.inr (.inl h)))))
  · exact .inr (.inr (.inr (.inr (.inr (.inr h)))))

theorem hostile_ascii {c : UInt8} (h : hostile c = true) : c.toNat < 0x80 := by
  rcases hostile_cases h with h | h | h | h | h | h | h <;> subst h <;> decide

theorem clean_append {a b : Bytes} : Clean (a ++ b) ↔ Clean a ∧ Clean b := by
  unfold Clean
  constructor
  · intro h; exact ⟨fun c hc => h c (List.mem_append_left _ hc), fun c hc => h c (List.mem_append_right _ hc)⟩
  · rintro ⟨h1, h2⟩ c hc
    rcases List.mem_append.mp hc with h | h
    · exact h1 c h
    · exact h2 c h

theorem clean_nil : Clean [] := fun _ h => by simp at h

/-! ### UTF-8 decoding -/

theorem decodeRune_ascii (b0 : UInt8) (rest : Bytes) (h : b0.toNat < 0x80) :
    decodeRune (b0 :: rest) = (b0.toNat, 1) := by
  simp [decodeRune, h]

/-- a sequence that does not start with an ASCII byte consumes between one byte and the bytes that
    are there, none of them ASCII -/
theorem decodeRune_nonascii (b0 : UInt8) (rest : Bytes) (h : ¬ b0.toNat < 0x80) :
    1 ≤ (decodeRune (b0 :: rest)).2 ∧ (decodeRune (b0 :: rest)).2 ≤ (b0 :: rest).length ∧
    ∀ c ∈ (b0 :: rest).take (decodeRune (b0 :: rest)).2, 0x80 ≤ c.toNat := by
  have h0 : 0x80 ≤ b0.toNat := Nat.le_of_not_lt h
  unfold decodeRune
  simp only [h, ↓reduceIte]
  repeat' split
  all_goals simp only [List.length_cons, List.take_succ_cons, List.take_zero, List.mem_cons, List.not_mem_nil, or_false,
    forall_eq_or_imp, forall_eq, Bool.and_eq_true, decide_eq_true_eq, beq_iff_eq] at *
  all_goals (first | omega | (refine ⟨by omega, by omega, ?_⟩; omega) | skip)

/-- an ASCII byte of `s` is a rune of its own when `s` is decoded -/
theorem ascii_mem_decodeRunesAux : ∀ (n : Nat) (s : Bytes), s.length ≤ n → ∀ b ∈ s, b.toNat < 0x80 →
    b.toNat ∈ decodeRunesAux n s := by
  intro n
  induction n with
  | zero => intro s hs b hb; have : s = [] := List.eq_nil_of_length_eq_zero (by omega); subst this; simp at hb
  | succ n ih =>
    intro s hs b hb hasc
    cases s with
    | nil => simp at hb
    | cons b0 rest =>
      unfold decodeRunesAux
      by_cases h0 : b0.toNat < 0x80
      · rw [decodeRune_ascii b0 rest h0]
        simp only [List.drop_succ_cons, List.drop_zero, List.mem_cons]
        rcases List.mem_cons.mp hb with rfl | hb'
        · exact .inl rfl
        · exact .inr (ih rest (by simp at hs; omega) b hb' hasc)
      · obtain ⟨h1, h2, h3⟩ := decodeRune_nonascii b0 rest h0
        simp only [List.mem_cons]
        right
        apply ih
        · simp only [List.length_drop]; simp at hs ⊢; omega
        · have hsplit := List.take_append_drop (decodeRune (b0 :: rest)).2 (b0 :: rest)
          rw [← hsplit] at hb
          rcases List.mem_append.mp hb with hb' | hb'
          · have := h3 b hb'; omega
          · exact hb'
        · exact hasc

theorem ascii_mem_decodeRunes (s : Bytes) (b : UInt8) (hb : b ∈ s) (h : b.toNat < 0x80) : b.toNat ∈ decodeRunes s :=
  ascii_mem_decodeRunesAux s.length s (Nat.le_refl _) b hb h

/-! ### strings.ToLower -/

theorem hostile_not_upper {c : UInt8} (h : hostile c = true) : lowerByte c = c := by
  rcases hostile_cases h with h | h | h | h | h | h | h <;> subst h <;> decide

theorem runeToLower_hostile {c : UInt8} (h : hostile c = true) : runeToLower c.toNat = c.toNat := by
  rcases hostile_cases h with h | h | h | h | h | h | h <;> subst h <;> decide

theorem encodeRune_hostile {c : UInt8} (h : hostile c = true) : encodeRune c.toNat = [c] := by
  rcases hostile_cases h with h | h | h | h | h | h | h <;> subst h <;> decide

theorem toLowerGo_keeps (s : Bytes) (c : UInt8) (hc : c ∈ s) (h : hostile c = true) : c ∈ toLowerGo s := by
  unfold toLowerGo
  split
  · unfold lowerAscii
    exact List.mem_map.mpr ⟨c, hc, hostile_not_upper h⟩
  · unfold encodeRunes
    rw [List.mem_flatMap]
    refine ⟨c.toNat, ?_, by rw [encodeRune_hostile h]; simp⟩
    rw [List.mem_map]
    exact ⟨c.toNat, ascii_mem_decodeRunes s c hc (hostile_ascii h), runeToLower_hostile h⟩

/-! ### strings.TrimSpace -/

theorem hostile_not_space {c : UInt8} (h : hostile c = true) : Css.isUniSpace c.toNat = false := by
  have hn : c.toNat = 92 ∨ c.toNat = 60 ∨ c.toNat = 62 ∨ c.toNat = 64 ∨ c.toNat = 59 ∨ c.toNat = 123 ∨ c.toNat = 125 := by
    rcases hostile_cases h with h | h | h | h | h | h | h <;> subst h <;> simp
  rcases hn with h | h | h | h | h | h | h <;> rw [h] <;> simp [Css.isUniSpace]

/-- the bytes one decoding step consumes, when the rune is a space, hold no hostile byte -/
theorem space_step_clean (b0 : UInt8) (rest : Bytes) (hsp : Css.isUniSpace (decodeRune (b0 :: rest)).1 = true) :
    ∀ c ∈ (b0 :: rest).take (decodeRune (b0 :: rest)).2, hostile c = false := by
  intro c hc
  by_cases h0 : b0.toNat < 0x80
  · rw [decodeRune_ascii b0 rest h0] at hc hsp
    simp only [List.take_succ_cons, List.take_zero, List.mem_cons, List.not_mem_nil, or_false] at hc
    subst hc
    cases hh : hostile c with
    | false => rfl
    | true => rw [hostile_not_space hh] at hsp; cases hsp
  · obtain ⟨_, _, h3⟩ := decodeRune_nonascii b0 rest h0
    cases hh : hostile c with
    | false => rfl
    | true => have := h3 c hc; have := hostile_ascii hh; omega

theorem trimLeftSpace_cons (n : Nat) (b0 : UInt8) (rest : Bytes) :
    Css.trimLeftSpace (n + 1) (b0 :: rest) =
      if Css.isUniSpace (decodeRune (b0 :: rest)).1 then Css.trimLeftSpace n ((b0 :: rest).drop (decodeRune (b0 :: rest)).2)
      else b0 :: rest := rfl

theorem trimRightSpaceAux_cons (n : Nat) (b0 : UInt8) (rest : Bytes) :
    Css.trimRightSpaceAux (n + 1) (b0 :: rest) =
      if (Css.trimRightSpaceAux n ((b0 :: rest).drop (decodeRune (b0 :: rest)).2)).2 && Css.isUniSpace (decodeRune (b0 :: rest)).1
      then ([], true)
      else ((b0 :: rest).take (decodeRune (b0 :: rest)).2 ++ (Css.trimRightSpaceAux n ((b0 :: rest).drop (decodeRune (b0 :: rest)).2)).1, false) := rfl

theorem trimLeftSpace_keeps : ∀ (n : Nat) (s : Bytes) (c : UInt8), c ∈ s → hostile c = true → c ∈ Css.trimLeftSpace n s := by
  intro n
  induction n with
  | zero => intro s c hc _; exact hc
  | succ n ih =>
    intro s c hc hh
    cases s with
    | nil => simp at hc
    | cons b0 rest =>
      rw [trimLeftSpace_cons]
      split
      · rename_i hsp
        apply ih _ _ _ hh
        have hsplit := List.take_append_drop (decodeRune (b0 :: rest)).2 (b0 :: rest)
        rw [← hsplit] at hc
        rcases List.mem_append.mp hc with hc' | hc'
        · have := space_step_clean b0 rest hsp c hc'; rw [hh] at this; cases this
        · exact hc'
      · exact hc

theorem trimRightSpaceAux_keeps : ∀ (n : Nat) (s : Bytes),
    ((Css.trimRightSpaceAux n s).2 = true → ∀ c ∈ s, hostile c = false) ∧
    (∀ c ∈ s, hostile c = true → c ∈ (Css.trimRightSpaceAux n s).1) := by
  intro n
  induction n with
  | zero => intro s; exact ⟨fun h => (by cases h), fun c hc _ => hc⟩
  | succ n ih =>
    intro s
    cases s with
    | nil => exact ⟨fun _ c hc => (by simp at hc), fun c hc _ => (by simp at hc)⟩
    | cons b0 rest =>
      rw [trimRightSpaceAux_cons]
      obtain ⟨i1, i2⟩ := ih ((b0 :: rest).drop (decodeRune (b0 :: rest)).2)
      have hsplit := List.take_append_drop (decodeRune (b0 :: rest)).2 (b0 :: rest)
      split
      · rename_i hcond
        simp only [Bool.and_eq_true] at hcond
        have hclean : ∀ c ∈ b0 :: rest, hostile c = false := by
          intro c hc
          rw [← hsplit] at hc
          rcases List.mem_append.mp hc with hc' | hc'
          · exact space_step_clean b0 rest hcond.2 c hc'
          · exact i1 hcond.1 c hc'
        refine ⟨fun _ => hclean, ?_⟩
        intro c hc hh
        rw [hclean c hc] at hh; cases hh
      · refine ⟨fun h => (by cases h), ?_⟩
        intro c hc hh
        rw [← hsplit] at hc
        simp only [List.mem_append]
        rcases List.mem_append.mp hc with hc' | hc'
        · exact .inl hc'
        · exact .inr (i2 c hc' hh)

theorem trimSpace_keeps (s : Bytes) (c : UInt8) (hc : c ∈ s) (h : hostile c = true) : c ∈ Css.trimSpace s := by
  unfold Css.trimSpace
  exact (trimRightSpaceAux_keeps _ _).2 c (trimLeftSpace_keeps _ s c hc h) h

/-! ### strings.Split, multiSplit, splitValues -/

open Golite

theorem stripPrefix?_eq : ∀ (p s rest : Bytes), stripPrefix? p s = some rest → s = p ++ rest
  | [], s, rest, h => by simp [stripPrefix?] at h; simp [h]
  | _ :: _, [], rest, h => by simp [stripPrefix?] at h
  | p :: ps, c :: cs, rest, h => by
    unfold stripPrefix? at h
    split at h
    · rename_i hpc
      have : p = c := by simpa using hpc
      subst this
      rw [stripPrefix?_eq ps cs rest h]; rfl
    · cases h

theorem splitOnAux_cons_some (sep : Bytes) (fuel : Nat) (c : UInt8) (cs cur rest : Bytes)
    (h : stripPrefix? sep (c :: cs) = some rest) :
    splitOnAux sep (fuel + 1) (c :: cs) cur =
      if sep.isEmpty then [cur.reverse] else cur.reverse :: splitOnAux sep fuel rest [] := by
  rw [splitOnAux]; simp only [h]

theorem splitOnAux_cons_none (sep : Bytes) (fuel : Nat) (c : UInt8) (cs cur : Bytes)
    (h : stripPrefix? sep (c :: cs) = none) :
    splitOnAux sep (fuel + 1) (c :: cs) cur = splitOnAux sep fuel cs (c :: cur) := by
  rw [splitOnAux]; simp only [h]

/-- every byte of the string (and of the pending piece) is a byte of the separator or of a piece -/
theorem splitOnAux_covers (sep : Bytes) (hsep : sep ≠ []) : ∀ (fuel : Nat) (s cur : Bytes), s.length < fuel →
    ∀ c, (c ∈ cur ∨ c ∈ s) → c ∈ sep ∨ ∃ p ∈ splitOnAux sep fuel s cur, c ∈ p := by
  intro fuel
  induction fuel with
  | zero => intro s cur h; omega
  | succ fuel ih =>
    intro s cur hlen c hc
    cases s with
    | nil =>
      right
      refine ⟨cur.reverse, by simp [splitOnAux], ?_⟩
      rcases hc with h | h
      · simpa using h
      · simp at h
    | cons c0 cs =>
      cases hsp : stripPrefix? sep (c0 :: cs) with
      | some rest =>
        rw [splitOnAux_cons_some sep fuel c0 cs cur rest hsp]
        have hne : sep.isEmpty = false := by cases sep <;> simp_all
        simp only [hne, Bool.false_eq_true, ↓reduceIte]
        have heq := stripPrefix?_eq sep (c0 :: cs) rest hsp
        rcases hc with h | h
        · exact .inr ⟨cur.reverse, by simp, by simpa using h⟩
        · rw [heq] at h
          rcases List.mem_append.mp h with h | h
          · exact .inl h
          · have hl : rest.length < fuel := by
              have := congrArg List.length heq
              simp only [List.length_cons, List.length_append] at this hlen
              have : 0 < sep.length := List.length_pos_iff.mpr hsep
              omega
            rcases ih rest [] hl c (.inr h) with h' | ⟨p, hp, hcp⟩
            · exact .inl h'
            · exact .inr ⟨p, List.mem_cons_of_mem _ hp, hcp⟩
      | none =>
        rw [splitOnAux_cons_none sep fuel c0 cs cur hsp]
        apply ih cs (c0 :: cur) (by simp at hlen; omega)
        rcases hc with h | h
        · exact .inl (List.mem_cons_of_mem _ h)
        · rcases List.mem_cons.mp h with rfl | h
          · exact .inl List.mem_cons_self
          · exact .inr h

theorem splitOn_covers (s sep : Bytes) (hsep : sep ≠ []) (c : UInt8) (hc : c ∈ s) :
    c ∈ sep ∨ ∃ p ∈ splitOn s sep, c ∈ p :=
  splitOnAux_covers sep hsep (s.length + 1) s [] (by omega) c (.inr hc)

/-- pieces without hostile bytes, split on a separator without hostile bytes: a clean string -/
theorem clean_of_splitOn (s sep : Bytes) (hsep : sep ≠ []) (hcs : Clean sep) (h : CleanL (splitOn s sep)) : Clean s := by
  intro c hc
  rcases splitOn_covers s sep hsep c hc with h1 | ⟨p, hp, hcp⟩
  · exact hcs c h1
  · exact h p hp c hcp

theorem clean_of_multiSplit (value : Bytes) (seps : List Bytes) (hseps : ∀ sep ∈ seps, sep ≠ [] ∧ Clean sep)
    (h : CleanL (multiSplit value seps)) : Clean value := by
  unfold multiSplit at h
  have key : ∀ (seps : List Bytes) (cur : List Bytes), (∀ sep ∈ seps, sep ≠ [] ∧ Clean sep) →
      CleanL (seps.foldl (fun cur sep => cur.flatMap fun j => splitOn j sep) cur) → CleanL cur := by
    intro seps
    induction seps with
    | nil => intro cur _ h; exact h
    | cons sep rest ih =>
      intro cur hs h
      simp only [List.foldl_cons] at h
      have h1 := ih _ (fun x hx => hs x (List.mem_cons_of_mem _ hx)) h
      intro j hj
      apply clean_of_splitOn j sep (hs sep List.mem_cons_self).1 (hs sep List.mem_cons_self).2
      intro p hp
      exact h1 p (List.mem_flatMap.mpr ⟨j, hj, hp⟩)
  exact key seps [value] hseps h value (by simp)

theorem clean_of_splitValues (value : Bytes) (h : CleanL (splitValues toLowerGo value)) : Clean value := by
  unfold splitValues at h
  apply clean_of_splitOn value [44] (by simp) (by intro c hc; simp at hc; subst hc; decide)
  intro p hp c hc
  cases hh : hostile c with
  | false => rfl
  | true =>
    have h1 := trimSpace_keeps p c hc hh
    have h2 := toLowerGo_keeps _ c h1 hh
    have := h (toLowerGo (Css.trimSpace p)) (List.mem_map.mpr ⟨p, hp, rfl⟩) c h2
    rw [hh] at this; cases this

theorem clean_of_trimSpace (s : Bytes) (h : Clean (Css.trimSpace s)) : Clean s := by
  intro c hc
  cases hh : hostile c with
  | false => rfl
  | true => have := h c (trimSpace_keeps s c hc hh); rw [hh] at this; cases this

/-! ### `in`, regexps, recursiveCheck -/

theorem cleanL_of_inList (a b : List Bytes) (h : inList a b = true) (hb : CleanL b) : CleanL a := by
  unfold inList at h
  intro s hs
  have := List.all_eq_true.mp h s hs
  exact hb s (List.contains_iff_mem.mp this)

/-- a regexp whose matches are over an alphabet without the hostile bytes accepts clean strings only -/
theorem clean_of_match (r : Re) (A : List (Rune × Rune)) (hcl : ∀ s : Bytes, Re.matchBytes r s = true → ∀ c ∈ decodeRunes s, Re.inRanges c A = true)
    (hA : ∀ c ∈ [92, 60, 62, 64, 59, 123, 125], Re.inRanges c A = false) (s : Bytes) (h : Re.matchBytes r s = true) : Clean s := by
  intro c hc
  cases hh : hostile c with
  | false => rfl
  | true =>
    have h1 := hcl s h c.toNat (ascii_mem_decodeRunes s c hc (hostile_ascii hh))
    have h2 : Re.inRanges c.toNat A = false := by
      rcases hostile_cases hh with h | h | h | h | h | h | h <;> subst h
      · exact hA 92 (by simp)
      · exact hA 60 (by simp)
      · exact hA 62 (by simp)
      · exact hA 64 (by simp)
      · exact hA 59 (by simp)
      · exact hA 123 (by simp)
      · exact hA 125 (by simp)
    rw [h2] at h1; cases h1

theorem mem_joinBytes (sep : Bytes) : ∀ (g : List Bytes) (x : Bytes), x ∈ g → ∀ c ∈ x, c ∈ joinBytes sep g
  | [], x, h, _, _ => by simp at h
  | [y], x, h, c, hc => by simp at h; subst h; simpa [joinBytes] using hc
  | y :: z :: rest, x, h, c, hc => by
    simp only [joinBytes, List.mem_append]
    rcases List.mem_cons.mp h with rfl | h
    · exact .inl (.inl hc)
    · exact .inr (mem_joinBytes sep (z :: rest) x h c hc)

theorem cleanL_of_split (acc : Bytes → Bool) (hacc : ∀ g, acc g = true → Clean g) (vals : List Bytes)
    (h : Split acc vals) : CleanL vals := by
  induction h with
  | last g _ hg =>
    intro x hx c hc
    exact hacc _ hg c (mem_joinBytes [32] g x hx c hc)
  | cons g rest _ _ hg _ ih =>
    intro x hx
    rcases List.mem_append.mp hx with hx | hx
    · intro c hc; exact hacc _ hg c (mem_joinBytes [32] g x hx c hc)
    · exact ih x hx

theorem cleanL_of_recursiveCheck (fs : List (Bytes → Bool)) (hfs : ∀ f ∈ fs, ∀ g, f g = true → Clean g)
    (vals : List Bytes) (h : (recursiveCheck fs vals).1 = true) : CleanL vals := by
  apply cleanL_of_split (fun g => fs.any (· g)) _ vals ((recursiveCheck_iff fs vals).mp h)
  intro g hg
  simp only [List.any_eq_true] at hg
  obtain ⟨f, hf, hfg⟩ := hg
  exact hfs f hf g hfg

end BM
