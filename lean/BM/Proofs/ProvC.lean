import BM.Proofs.Prov
import BM.Proofs.BytesC
/-
  The provenance bridge for policies that may allow comments (`PlainC`): every start /
  self-closing tag re-read from the returned bytes carries an attribute list `sanitizeAttrs`
  returned for an input tag of that element.  `Plain.toC` makes every statement proved through it
  available for plain policies as before.
-/
namespace BM
open Html Spec

theorem prov_segOKOn {p : Policy} {t k : Token} (hraw : isRawTagName t.data = true → allowsElement p t.data = false)
    (hwf : TokWF t) (h : Prov p t k) : SegOKC k := by
  rcases h with ⟨rfl, _⟩ | ⟨rfl, htt⟩ | ⟨aps, attrs, hr, hc, rfl, htt⟩
  · exact .inl (by simp [SegOK])
  · rcases htt with h | h | ⟨h, _⟩
    · exact .inl (by unfold SegOK; rw [h]; trivial)
    · exact .inl (by unfold SegOK TokWF at *; rw [h] at hwf ⊢; exact hwf)
    · exact .inr h
  · have hall := attrRulesFor_allows' hr
    have hnr : isRawTagName t.data = false := by
      cases h : isRawTagName t.data with
      | false => rfl
      | true => rw [hraw h] at hall; cases hall
    refine .inl ?_
    rcases htt with h | h
    · have hw : NameOK' t.data ∧ ∀ a ∈ t.attrs, AttrOK a := by
        unfold TokWF at hwf; rw [h] at hwf; exact hwf
      unfold SegOK; simp only [h]
      exact ⟨hw.1, hnr, allOK_cleanAttrs p t aps attrs hw.2 hc⟩
    · have hw : NameOK' t.data ∧ ∀ a ∈ t.attrs, AttrOK a := by
        unfold TokWF at hwf; rw [h] at hwf; exact hwf
      unfold SegOK; simp only [h]
      exact ⟨hw.1, hnr, allOK_cleanAttrs p t aps attrs hw.2 hc⟩

theorem prov_segOKC {p : Policy} (hp : PlainC p) {t k : Token} (hwf : TokWF t) (h : Prov p t k) : SegOKC k :=
  prov_segOKOn (hp.noRaw t.data) hwf h

/-- **the bridge, comments allowed**: the bytes are the serialisation of tokens that come from the
    input's tokens, and the tokenizer reads them back, comment data re-read -/
theorem bytes_provOn (p : Policy) (input : Bytes) (hp : PlainOn p.ensureInit (tokenize input)) :
    ∃ toks : List Token, p.sanitizeCore input = renderAll toks ∧
      tokenize (p.sanitizeCore input) = coalesce [] (toks.map reread) ∧
      ∀ k ∈ toks, ∃ t ∈ tokenize input, Prov p.ensureInit t k := by
  obtain ⟨toks, hbytes, hprov⟩ := run_prov hp.noUnsafe (tokenize input) {}
  have hseg : ∀ k ∈ toks, SegOKC k := by
    intro k hk
    obtain ⟨t, ht, hpr⟩ := hprov k hk
    exact prov_segOKOn (hp.noRaw t ht) (tokenize_wf input t ht) hpr
  have hb : p.sanitizeCore input = renderAll toks := by
    unfold Policy.sanitizeCore Policy.sanitizeTokens
    unfold TokBytes at hbytes
    rw [hbytes, flatten_map_render]
  exact ⟨toks, hb, by rw [hb]; exact tokenize_renderAllC toks hseg, hprov⟩

theorem bytes_provC (p : Policy) (hp : PlainC p.ensureInit) (input : Bytes) :
    ∃ toks : List Token, p.sanitizeCore input = renderAll toks ∧
      tokenize (p.sanitizeCore input) = coalesce [] (toks.map reread) ∧
      ∀ k ∈ toks, ∃ t ∈ tokenize input, Prov p.ensureInit t k :=
  bytes_provOn p input (hp.on _)

/-- a non-comment token of a re-read list is a token of the written list -/
theorem mem_map_reread {toks : List Token} {k : Token} (hk : k ∈ toks.map reread) (hnc : k.tt ≠ .comment) : k ∈ toks := by
  obtain ⟨k', hk', rfl⟩ := List.mem_map.mp hk
  have : k'.tt ≠ .comment := by rw [← reread_tt]; exact hnc
  rw [reread_of_ne k' this]; exact hk'

theorem reread_open_tagOn (p : Policy) (input : Bytes) (hp : PlainOn p.ensureInit (tokenize input)) :
    ∀ k ∈ tokenize (p.sanitizeCore input), (k.tt = .start ∨ k.tt = .selfClosing) → k.attrs ≠ [] →
      ∃ t ∈ tokenize input, ∃ aps, t.data = k.data ∧ p.ensureInit.attrRulesFor k.data = some aps ∧
        p.ensureInit.sanitizeAttrs k.data t.attrs aps = some k.attrs := by
  intro k hk htt hne
  obtain ⟨toks, _, hrt, hprov⟩ := bytes_provOn p input hp
  rw [hrt] at hk
  rcases mem_coalesce (toks.map reread) [] k hk with ⟨h, _⟩ | ⟨hmem, _⟩
  · rcases htt with h' | h' <;> rw [h'] at h <;> cases h
  · have hnc : k.tt ≠ .comment := by rcases htt with h' | h' <;> rw [h'] <;> decide
    obtain ⟨t, ht, hpr⟩ := hprov k (mem_map_reread hmem hnc)
    rcases hpr with ⟨rfl, _⟩ | ⟨rfl, h⟩ | ⟨aps, attrs, hr, hc, rfl, _⟩
    · rcases htt with h' | h' <;> cases h'
    · rcases h with h | h | ⟨h, _⟩ <;> rcases htt with h' | h' <;> rw [h'] at h <;> cases h
    · refine ⟨t, ht, aps, rfl, hr, ?_⟩
      simp only at hne ⊢
      unfold Policy.cleanAttrs at hc
      split at hc
      · rename_i he
        simp at hc; subst hc
        exact absurd (List.isEmpty_iff.mp he) hne
      · exact hc

theorem reread_open_tagC (p : Policy) (hp : PlainC p.ensureInit) (input : Bytes) :
    ∀ k ∈ tokenize (p.sanitizeCore input), (k.tt = .start ∨ k.tt = .selfClosing) → k.attrs ≠ [] →
      ∃ t ∈ tokenize input, ∃ aps, t.data = k.data ∧ p.ensureInit.attrRulesFor k.data = some aps ∧
        p.ensureInit.sanitizeAttrs k.data t.attrs aps = some k.attrs :=
  reread_open_tagOn p input (hp.on _)

/-- re-reading comments changes neither the text … -/
theorem textOf_map_reread (ts : List Token) : textOf (ts.map reread) = textOf ts := by
  induction ts with
  | nil => rfl
  | cons t ts ih =>
    have h1 : textOf (t :: ts) = textOf [t] ++ textOf ts := by
      have : t :: ts = [t] ++ ts := rfl
      rw [this, textOf_append]
    have h2 : textOf ((t :: ts).map reread) = textOf [reread t] ++ textOf (ts.map reread) := by
      have : (t :: ts).map reread = [reread t] ++ ts.map reread := rfl
      rw [this, textOf_append]
    rw [h1, h2, ih]
    congr 1
    by_cases hc : t.tt = .comment
    · have h2' : (reread t).tt = .comment := by rw [reread_tt]; exact hc
      have e1 : ((reread t).tt == TT.text) = false := by rw [h2']; rfl
      have e2 : (t.tt == TT.text) = false := by rw [hc]; rfl
      simp only [textOf, List.filter_cons, e1, e2, Bool.false_eq_true, ↓reduceIte, List.filter_nil]
    · rw [reread_of_ne t hc]

/-- … nor the nesting of the tags -/
theorem wn_map_reread : ∀ (ts : List Token) (S : List Bytes), wellNestedAux S (ts.map reread) = wellNestedAux S ts
  | [], S => rfl
  | t :: ts, S => by
    by_cases hc : t.tt = .comment
    · have h2 : (reread t).tt = .comment := by rw [reread_tt]; exact hc
      simp only [List.map_cons, wellNestedAux, hc, h2]
      exact wn_map_reread ts S
    · simp only [List.map_cons, reread_of_ne t hc, wellNestedAux]
      cases t.tt <;> simp only [wn_map_reread ts]

end BM
