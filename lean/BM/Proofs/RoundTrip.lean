import BM.Html
import BM.Proofs.Escape
/-
  Round trip between the serialiser's `escape` and the tokenizer's `unescape`, and what the
  tokenizer reads back from an escaped text: the text half of RT (DESIGN §10).
-/
namespace BM.Html

theorem lk_amp : lookupEntity b!"amp;" = some (38, 0) := by decide
theorem lk_lt : lookupEntity b!"lt;" = some (60, 0) := by decide
theorem lk_gt : lookupEntity b!"gt;" = some (62, 0) := by decide

theorem ent_amp (a : Bool) (rest : Bytes) : unescapeEntity a (38 :: 97 :: 109 :: 112 :: 59 :: rest) = ([38], 5) := by
  simp [unescapeEntity, List.takeWhile, isAlnum, isAlpha, isUpper, isLowerA, isDigit]
  rw [lk_amp]; rfl

theorem ent_lt (a : Bool) (rest : Bytes) : unescapeEntity a (38 :: 108 :: 116 :: 59 :: rest) = ([60], 4) := by
  simp [unescapeEntity, List.takeWhile, isAlnum, isAlpha, isUpper, isLowerA, isDigit]
  rw [lk_lt]; rfl

theorem ent_gt (a : Bool) (rest : Bytes) : unescapeEntity a (38 :: 103 :: 116 :: 59 :: rest) = ([62], 4) := by
  simp [unescapeEntity, List.takeWhile, isAlnum, isAlpha, isUpper, isLowerA, isDigit]
  rw [lk_gt]; rfl

theorem ent_39 (a : Bool) (rest : Bytes) : unescapeEntity a (38 :: 35 :: 51 :: 57 :: 59 :: rest) = ([39], 5) := by
  simp [unescapeEntity, numLoop, isDigit, wrap32, numericRune, encodeRune, runeError]

theorem ent_34 (a : Bool) (rest : Bytes) : unescapeEntity a (38 :: 35 :: 51 :: 52 :: 59 :: rest) = ([34], 5) := by
  simp [unescapeEntity, numLoop, isDigit, wrap32, numericRune, encodeRune, runeError]

theorem ent_13 (a : Bool) (rest : Bytes) : unescapeEntity a (38 :: 35 :: 49 :: 51 :: 59 :: rest) = ([13], 5) := by
  simp [unescapeEntity, numLoop, isDigit, wrap32, numericRune, encodeRune, runeError]

theorem escape_length_pos (c : UInt8) (cs : Bytes) : (escape cs).length < (escape (c :: cs)).length := by
  simp only [escape]
  repeat' split
  all_goals (simp; try omega)

/-- decoding an escaped string gives the string back, in text and in attribute mode,
    given enough fuel -/
theorem unescapeAux_escape (a : Bool) (s : Bytes) :
    ∀ fuel, (escape s).length < fuel → unescapeAux a fuel (escape s) = s := by
  induction s with
  | nil => intro fuel _; cases fuel <;> simp [escape, unescapeAux]
  | cons c cs ih =>
    intro fuel hf
    cases fuel with
    | zero => simp at hf
    | succ n =>
      have hn : (escape cs).length < n := by
        have := escape_length_pos c cs; omega
      have hi := ih n hn
      simp only [escape]
      split
      · rename_i h; simp only [beq_iff_eq] at h; subst h
        simp only [List.cons_append, List.nil_append, unescapeAux, beq_self_eq_true, ↓reduceIte, ent_amp]
        simp [hi]
      · split
        · rename_i h; simp only [beq_iff_eq] at h; subst h
          simp only [List.cons_append, List.nil_append, unescapeAux, beq_self_eq_true, ↓reduceIte, ent_39]
          simp [hi]
        · split
          · rename_i h; simp only [beq_iff_eq] at h; subst h
            simp only [List.cons_append, List.nil_append, unescapeAux, beq_self_eq_true, ↓reduceIte, ent_lt]
            simp [hi]
          · split
            · rename_i h; simp only [beq_iff_eq] at h; subst h
              simp only [List.cons_append, List.nil_append, unescapeAux, beq_self_eq_true, ↓reduceIte, ent_gt]
              simp [hi]
            · split
              · rename_i h; simp only [beq_iff_eq] at h; subst h
                simp only [List.cons_append, List.nil_append, unescapeAux, beq_self_eq_true, ↓reduceIte, ent_34]
                simp [hi]
              · split
                · rename_i h; simp only [beq_iff_eq] at h; subst h
                  simp only [List.cons_append, List.nil_append, unescapeAux, beq_self_eq_true, ↓reduceIte, ent_13]
                  simp [hi]
                · rename_i h38 _ _ _ _ _
                  simp only [unescapeAux, h38, Bool.false_eq_true, ↓reduceIte, hi]

/-- **unescape ∘ escape = id** (both modes) -/
theorem unescape_escape (a : Bool) (s : Bytes) : unescape a (escape s) = s :=
  unescapeAux_escape a s _ (Nat.lt_succ_self _)

theorem escape_append (s t : Bytes) : escape (s ++ t) = escape s ++ escape t := by
  induction s with
  | nil => rfl
  | cons c cs ih =>
    simp only [List.cons_append, escape]
    repeat' split
    all_goals simp [ih]

theorem escape_nil_iff (s : Bytes) : escape s = [] ↔ s = [] := by
  constructor
  · intro h
    cases s with
    | nil => rfl
    | cons c cs =>
      exfalso
      have := escape_length_pos c cs
      rw [h] at this; simp at this
  · intro h; subst h; rfl

/-- no CR survives escaping, so newline conversion leaves an escaped string alone -/
theorem convertNewlines_noCR : ∀ (s : Bytes), (∀ c ∈ s, c ≠ 13) → convertNewlines s = s
  | [], _ => rfl
  | [c], h => by
    have : c ≠ 13 := h c (by simp)
    simp [convertNewlines, this]
  | c :: d :: cs, h => by
    have hc : c ≠ 13 := h c (by simp)
    have ih := convertNewlines_noCR (d :: cs) (fun x hx => h x (by simp [hx]))
    simp [convertNewlines, hc, ih]

theorem convertNewlines_escape (s : Bytes) : convertNewlines (escape s) = escape s :=
  convertNewlines_noCR _ fun c hc => (escape_no_special s c hc).2.2.2.2

/-- a string without `<` is scanned as one text -/
theorem scanText_noLt : ∀ (s : Bytes), (∀ c ∈ s, c ≠ 60) → scanText s = (s, [])
  | [], _ => rfl
  | c :: cs, h => by
    have hc : c ≠ 60 := h c (by simp)
    have ih := scanText_noLt cs (fun x hx => h x (by simp [hx]))
    have hm : isMarkupStart (c :: cs) = false := by
      cases cs with
      | nil => rfl
      | cons d ds => simp [isMarkupStart, hc]
    simp [scanText, hm, ih]

/-- **the tokenizer reads an escaped non-empty text back as exactly that text** -/
theorem tokenize_escape (d : Bytes) (hd : d ≠ []) : tokenize (escape d) = [⟨.text, d, []⟩] := by
  have hne : escape d ≠ [] := fun h => hd ((escape_nil_iff d).mp h)
  have hlt : ∀ c ∈ escape d, c ≠ 60 := fun c hc => (escape_no_special d c hc).1
  have hnext : next [] (escape d) = some (⟨.text, d, []⟩, [], []) := by
    unfold next
    have he : (escape d).isEmpty = false := by simpa [List.isEmpty_iff] using hne
    simp only [he, Bool.false_eq_true, ↓reduceIte, List.isEmpty_nil, scanText_noLt _ hlt]
    simp [he, textData, convertNewlines_escape, unescape_escape]
  unfold tokenize
  cases hl : (escape d).length with
  | zero => simp [List.length_eq_zero_iff] at hl; exact absurd hl hne
  | succ n =>
    simp only [tokenizeAux, hnext]
    cases n <;> simp [tokenizeAux, next]

end BM.Html
