import BM.Proofs.Rules
/-
  The switch-like options of a policy as a small state machine (C17).  `Switches` collects the
  fields a builder call sets rather than extends; `BuilderOp.setSwitches` is what one call does to
  them.  `switches_applyOps` is a refinement: for every history on an initialised policy the
  switches of the built policy are the switches of the start run through that machine — the rule
  tables never feed back into them.  "Each option reflects its most recent setting" is then read
  off the machine (`lastSetting`).
-/
namespace BM

structure Switches where
  addSpaces : Bool
  requireNoFollow : Bool
  requireNoFollowFullyQualifiedLinks : Bool
  requireNoReferrer : Bool
  requireNoReferrerFullyQualifiedLinks : Bool
  requireCrossOriginAnonymous : Bool
  addTargetBlankToFullyQualifiedLinks : Bool
  requireParseableURLs : Bool
  allowRelativeURLs : Bool
  allowDataAttributes : Bool
  allowComments : Bool
  allowUnsafe : Bool
  requireSandboxOnIFrame : Option (List Bytes)
  srcRewriter : Option UrlRewriter

def Policy.switches (p : Policy) : Switches :=
  { addSpaces := p.addSpaces, requireNoFollow := p.requireNoFollow,
    requireNoFollowFullyQualifiedLinks := p.requireNoFollowFullyQualifiedLinks,
    requireNoReferrer := p.requireNoReferrer,
    requireNoReferrerFullyQualifiedLinks := p.requireNoReferrerFullyQualifiedLinks,
    requireCrossOriginAnonymous := p.requireCrossOriginAnonymous,
    addTargetBlankToFullyQualifiedLinks := p.addTargetBlankToFullyQualifiedLinks,
    requireParseableURLs := p.requireParseableURLs, allowRelativeURLs := p.allowRelativeURLs,
    allowDataAttributes := p.allowDataAttributes, allowComments := p.allowComments,
    allowUnsafe := p.allowUnsafe, requireSandboxOnIFrame := p.requireSandboxOnIFrame,
    srcRewriter := p.srcRewriter }

/-- what one builder call does to the switches -/
def BuilderOp.setSwitches (op : BuilderOp) (s : Switches) : Switches :=
  match op with
  | .allowDataAttributes => { s with allowDataAttributes := true }
  | .allowComments => { s with allowComments := true }
  | .rewriteSrc f => { s with srcRewriter := some f }
  | .requireNoFollowOnLinks b => { s with requireNoFollow := b, requireParseableURLs := true }
  | .requireNoFollowOnFullyQualifiedLinks b =>
    { s with requireNoFollowFullyQualifiedLinks := b, requireParseableURLs := true }
  | .requireNoReferrerOnLinks b => { s with requireNoReferrer := b, requireParseableURLs := true }
  | .requireNoReferrerOnFullyQualifiedLinks b =>
    { s with requireNoReferrerFullyQualifiedLinks := b, requireParseableURLs := true }
  | .requireCrossOriginAnonymous b => { s with requireCrossOriginAnonymous := b }
  | .addTargetBlankToFullyQualifiedLinks b =>
    { s with addTargetBlankToFullyQualifiedLinks := b, requireParseableURLs := true }
  | .requireParseableURLs b => { s with requireParseableURLs := b }
  | .allowRelativeURLs b => { s with requireParseableURLs := true, allowRelativeURLs := b }
  | .allowURLSchemes _ => { s with requireParseableURLs := true }
  | .allowURLSchemeWithCustomPolicy _ _ => { s with requireParseableURLs := true }
  | .requireSandboxOnIFrame vals => { s with requireSandboxOnIFrame := some vals }
  | .addSpaceWhenStrippingTag b => { s with addSpaces := b }
  | .allowUnsafe b => { s with allowUnsafe := b }
  | _ => s

theorem foldl_switches {α : Type} (f : Policy → α → Policy) (h : ∀ b a, (f b a).switches = b.switches)
    (l : List α) (b : Policy) : (l.foldl f b).switches = b.switches :=
  foldl_keeps f (fun p : Policy => p.switches) h l b

theorem attrsOnElement_switches (p : Policy) (names : List Bytes) (re : AttrPolicy) (ae : Bool) (e : Bytes) :
    (attrsOnElement p names re ae e).switches = p.switches := by
  unfold attrsOnElement
  simp only
  split
  · refine Eq.trans (show _ = (List.foldl _ p names).switches from rfl) ?_
    rw [foldl_switches]; exact fun _ _ => rfl
  · rw [foldl_switches]; exact fun _ _ => rfl

/-- **one call**: the switches afterwards are `setSwitches` of the switches before — whatever the
    tables hold -/
theorem switches_applyOpInit (d : Bytes → Bytes → Bool) (p : Policy) (op : BuilderOp) :
    (applyOpInit d p op).switches = op.setSwitches p.switches := by
  cases op with
  | allowElements names =>
    simp only [applyOpInit, BuilderOp.setSwitches]; rw [foldl_switches]; exact fun _ _ => rfl
  | allowAttrs names re ae scope =>
    cases scope with
    | onElements els =>
      simp only [applyOpInit, BuilderOp.setSwitches]; rw [foldl_switches]
      exact fun b a => attrsOnElement_switches b _ _ _ _
    | onElementsMatching r =>
      simp only [applyOpInit, BuilderOp.setSwitches]
      split
      · refine Eq.trans (show _ = (List.foldl _ p (names.map toLowerName)).switches from rfl) ?_
        rw [foldl_switches]; exact fun _ _ => rfl
      · rw [foldl_switches]; exact fun _ _ => rfl
    | globally =>
      simp only [applyOpInit, BuilderOp.setSwitches]; rw [foldl_switches]; exact fun _ _ => rfl
  | allowStyles names m scope =>
    cases scope with
    | onElements els =>
      simp only [applyOpInit, BuilderOp.setSwitches]; rw [foldl_switches]
      intro b a
      rw [foldl_switches]; exact fun _ _ => rfl
    | onElementsMatching r =>
      simp only [applyOpInit, BuilderOp.setSwitches]; rw [foldl_switches]; exact fun _ _ => rfl
    | globally =>
      simp only [applyOpInit, BuilderOp.setSwitches]; rw [foldl_switches]; exact fun _ _ => rfl
  | allowURLSchemes schemes =>
    simp only [applyOpInit, BuilderOp.setSwitches]; rw [foldl_switches]
    · rfl
    · exact fun _ _ => rfl
  | skipElementsContent names =>
    simp only [applyOpInit, BuilderOp.setSwitches]; rw [foldl_switches]; exact fun _ _ => rfl
  | allowElementsContent names =>
    simp only [applyOpInit, BuilderOp.setSwitches]; rw [foldl_switches]; exact fun _ _ => rfl
  | allowElementsMatching r =>
    simp only [applyOpInit, BuilderOp.setSwitches]
    split <;> rfl
  | _ => rfl

theorem foldl_refine {α β γ : Type} (f : β → α → β) (g : β → γ) (step : α → γ → γ) (Inv : β → Prop)
    (hinv : ∀ b a, Inv b → Inv (f b a)) (h : ∀ b a, Inv b → g (f b a) = step a (g b))
    (l : List α) (b : β) (hb : Inv b) : g (l.foldl f b) = l.foldl (fun s a => step a s) (g b) := by
  induction l generalizing b with
  | nil => rfl
  | cons a as ih => simp only [List.foldl_cons]; rw [ih _ (hinv b a hb), h b a hb]

/-- **refinement**: the switches of a policy built by any history from an initialised policy are
    the start switches run through the switch machine -/
theorem switches_applyOps (d : Bytes → Bytes → Bool) (p : Policy) (hi : p.initialized = true) (ops : List BuilderOp) :
    (applyOps d p ops).switches = ops.foldl (fun s op => op.setSwitches s) p.switches :=
  foldl_refine (applyOp d) (fun p => p.switches) (fun op s => op.setSwitches s) (fun p => p.initialized = true)
    (fun b a hb => applyOp_initialized d b hb a)
    (fun b a hb => by rw [applyOp_init_eq d b hb]; exact switches_applyOpInit d b a) ops p hi

/-! ### most recent setting -/

theorem getD_or {α : Type} (a b : Option α) (d : α) : (a.or b).getD d = a.getD (b.getD d) := by
  cases a <;> rfl

/-- a field of the machine's state that every call either sets to a value of its own or leaves
    alone holds, after any history, the value of the last call that set it -/
theorem lastSetting {γ : Type} (get : Switches → γ) (eff : BuilderOp → Option γ)
    (h : ∀ op s, get (op.setSwitches s) = (eff op).getD (get s)) (ops : List BuilderOp) (s : Switches) :
    get (ops.foldl (fun s op => op.setSwitches s) s) = (ops.reverse.findSome? eff).getD (get s) := by
  induction ops generalizing s with
  | nil => rfl
  | cons a as ih =>
    simp only [List.foldl_cons, List.reverse_cons, List.findSome?_append, ih, h]
    rw [getD_or]
    simp [List.findSome?]
    cases eff a <;> rfl

theorem foldl_last {α β γ : Type} (f : β → α → β) (g : β → γ) (eff : α → Option γ) (Inv : β → Prop)
    (hinv : ∀ b a, Inv b → Inv (f b a)) (h : ∀ b a, Inv b → g (f b a) = (eff a).getD (g b))
    (l : List α) (b : β) (hb : Inv b) : g (l.foldl f b) = (l.reverse.findSome? eff).getD (g b) := by
  induction l generalizing b with
  | nil => rfl
  | cons a as ih =>
    simp only [List.foldl_cons, List.reverse_cons, List.findSome?_append, ih _ (hinv b a hb), h b a hb]
    rw [getD_or]
    simp [List.findSome?]
    cases eff a <;> rfl

/-! ### skip / keep content per element -/

def Policy.skips (p : Policy) (el : Bytes) : Bool := p.setOfElementsToSkipContent.contains el

/-- what a call says about the content of element `el` -/
def BuilderOp.setsSkip (el : Bytes) : BuilderOp → Option Bool
  | .skipElementsContent names => if (names.map toLowerName).contains el then some true else none
  | .allowElementsContent names => if (names.map toLowerName).contains el then some false else none
  | _ => none

theorem foldl_skipSet {α : Type} (f : Policy → α → Policy)
    (h : ∀ b a, (f b a).setOfElementsToSkipContent = b.setOfElementsToSkipContent)
    (l : List α) (b : Policy) : (l.foldl f b).setOfElementsToSkipContent = b.setOfElementsToSkipContent :=
  foldl_keeps f (fun p : Policy => p.setOfElementsToSkipContent) h l b

theorem attrsOnElement_skipSet (p : Policy) (names : List Bytes) (re : AttrPolicy) (ae : Bool) (e : Bytes) :
    (attrsOnElement p names re ae e).setOfElementsToSkipContent = p.setOfElementsToSkipContent := by
  unfold attrsOnElement
  simp only
  split
  · simp only; rw [foldl_skipSet]; exact fun _ _ => rfl
  · rw [foldl_skipSet]; exact fun _ _ => rfl

theorem mem_setInsert (s : List Bytes) (x el : Bytes) : el ∈ setInsert s x ↔ el ∈ s ∨ el = x := by
  unfold setInsert
  split
  · rename_i h
    have hx : x ∈ s := by simpa using h
    constructor
    · exact fun h => .inl h
    · rintro (h | rfl)
      · exact h
      · exact hx
  · simp [List.mem_append]

theorem skips_iff (p : Policy) (el : Bytes) : p.skips el = true ↔ el ∈ p.setOfElementsToSkipContent := by
  simp [Policy.skips]

theorem skips_skipFold_iff (names : List Bytes) (p : Policy) (el : Bytes) :
    (names.foldl (fun (p : Policy) e =>
      { p with setOfElementsToSkipContent := setInsert p.setOfElementsToSkipContent (toLowerName e) }) p).skips el = true ↔
    (p.skips el = true ∨ el ∈ names.map toLowerName) := by
  induction names generalizing p with
  | nil => simp
  | cons n ns ih =>
    simp only [List.foldl_cons, ih, List.map_cons, List.mem_cons, skips_iff, mem_setInsert]
    constructor
    · rintro ((h | h) | h)
      · exact .inl h
      · exact .inr (.inl h)
      · exact .inr (.inr h)
    · rintro (h | h | h)
      · exact .inl (.inl h)
      · exact .inl (.inr h)
      · exact .inr h

theorem skips_allowFold_iff (names : List Bytes) (p : Policy) (el : Bytes) :
    (names.foldl (fun (p : Policy) e =>
      { p with setOfElementsToSkipContent := p.setOfElementsToSkipContent.filter (· != toLowerName e) }) p).skips el = true ↔
    (p.skips el = true ∧ ¬ el ∈ names.map toLowerName) := by
  induction names generalizing p with
  | nil => simp
  | cons n ns ih =>
    simp only [List.foldl_cons, ih, List.map_cons, List.mem_cons, skips_iff, List.mem_filter, bne_iff_ne, ne_eq,
      not_or]
    constructor
    · rintro ⟨⟨h1, h2⟩, h3⟩; exact ⟨h1, h2, h3⟩
    · rintro ⟨h1, h2, h3⟩; exact ⟨⟨h1, h2⟩, h3⟩

theorem skips_skipFold (names : List Bytes) (p : Policy) (el : Bytes) :
    (names.foldl (fun (p : Policy) e =>
      { p with setOfElementsToSkipContent := setInsert p.setOfElementsToSkipContent (toLowerName e) }) p).skips el =
    (p.skips el || (names.map toLowerName).contains el) := by
  rw [Bool.eq_iff_iff, skips_skipFold_iff]
  simp

theorem skips_allowFold (names : List Bytes) (p : Policy) (el : Bytes) :
    (names.foldl (fun (p : Policy) e =>
      { p with setOfElementsToSkipContent := p.setOfElementsToSkipContent.filter (· != toLowerName e) }) p).skips el =
    (p.skips el && !(names.map toLowerName).contains el) := by
  rw [Bool.eq_iff_iff, skips_allowFold_iff]
  simp

theorem skips_applyOpInit (d : Bytes → Bytes → Bool) (p : Policy) (op : BuilderOp) (el : Bytes) :
    (applyOpInit d p op).skips el = (op.setsSkip el).getD (p.skips el) := by
  cases op with
  | skipElementsContent names =>
    simp only [applyOpInit, BuilderOp.setsSkip, skips_skipFold]
    cases h : (names.map toLowerName).contains el <;> simp
  | allowElementsContent names =>
    simp only [applyOpInit, BuilderOp.setsSkip, skips_allowFold]
    cases h : (names.map toLowerName).contains el <;> simp
  | allowElements names =>
    simp only [applyOpInit, BuilderOp.setsSkip, Option.getD_none, Policy.skips]
    rw [foldl_skipSet]; exact fun _ _ => rfl
  | allowAttrs names re ae scope =>
    cases scope with
    | onElements els =>
      simp only [applyOpInit, BuilderOp.setsSkip, Option.getD_none, Policy.skips]
      rw [foldl_skipSet]; exact fun b a => attrsOnElement_skipSet b _ _ _ _
    | onElementsMatching r =>
      simp only [applyOpInit, BuilderOp.setsSkip, Option.getD_none]
      split <;> simp only [Policy.skips] <;> (rw [foldl_skipSet]; exact fun _ _ => rfl)
    | globally =>
      simp only [applyOpInit, BuilderOp.setsSkip, Option.getD_none, Policy.skips]
      rw [foldl_skipSet]; exact fun _ _ => rfl
  | allowStyles names m scope =>
    cases scope with
    | onElements els =>
      simp only [applyOpInit, BuilderOp.setsSkip, Option.getD_none, Policy.skips]
      rw [foldl_skipSet]
      intro b a
      rw [foldl_skipSet]; exact fun _ _ => rfl
    | onElementsMatching r =>
      simp only [applyOpInit, BuilderOp.setsSkip, Option.getD_none, Policy.skips]
      rw [foldl_skipSet]; exact fun _ _ => rfl
    | globally =>
      simp only [applyOpInit, BuilderOp.setsSkip, Option.getD_none, Policy.skips]
      rw [foldl_skipSet]; exact fun _ _ => rfl
  | allowURLSchemes schemes =>
    simp only [applyOpInit, BuilderOp.setsSkip, Option.getD_none, Policy.skips]
    rw [foldl_skipSet]; exact fun _ _ => rfl
  | allowElementsMatching r =>
    simp only [applyOpInit, BuilderOp.setsSkip, Option.getD_none]
    split <;> rfl
  | _ => rfl

/-- **skip / keep content reflects the most recent call naming the element** -/
theorem skips_applyOps (d : Bytes → Bytes → Bool) (p : Policy) (hi : p.initialized = true) (ops : List BuilderOp) (el : Bytes) :
    (applyOps d p ops).skips el = (ops.reverse.findSome? (BuilderOp.setsSkip el)).getD (p.skips el) :=
  foldl_last (applyOp d) (fun p => p.skips el) (BuilderOp.setsSkip el) (fun p => p.initialized = true)
    (fun b a hb => applyOp_initialized d b hb a)
    (fun b a hb => by rw [applyOp_init_eq d b hb]; exact skips_applyOpInit d b a el) ops p hi

/-! ### scheme registrations -/

/-- what one call does to the registration of scheme `s`: a plain registration replaces it by
    "allowed, no custom check", a custom policy is added to what is there -/
def BuilderOp.setsScheme (s : Bytes) (op : BuilderOp) (st : Option (List UrlPolicy)) : Option (List UrlPolicy) :=
  match op with
  | .allowURLSchemes names => if (names.map toLowerName).contains s then some [] else st
  | .allowURLSchemeWithCustomPolicy scheme f => if toLowerName scheme = s then some (st.getD [] ++ [f]) else st
  | _ => st

theorem foldl_schemes {α : Type} (f : Policy → α → Policy) (h : ∀ b a, (f b a).allowURLSchemes = b.allowURLSchemes)
    (l : List α) (b : Policy) : (l.foldl f b).allowURLSchemes = b.allowURLSchemes :=
  foldl_keeps f (fun p : Policy => p.allowURLSchemes) h l b

theorem attrsOnElement_schemes (p : Policy) (names : List Bytes) (re : AttrPolicy) (ae : Bool) (e : Bytes) :
    (attrsOnElement p names re ae e).allowURLSchemes = p.allowURLSchemes := by
  unfold attrsOnElement
  simp only
  split
  · simp only; rw [foldl_schemes]; exact fun _ _ => rfl
  · rw [foldl_schemes]; exact fun _ _ => rfl

theorem schemes_plainFold (names : List Bytes) (p : Policy) (s : Bytes) :
    (names.foldl (fun (p : Policy) n => { p with allowURLSchemes := p.allowURLSchemes.set (toLowerName n) [] }) p).allowURLSchemes.get? s =
    if (names.map toLowerName).contains s then some [] else p.allowURLSchemes.get? s := by
  induction names generalizing p with
  | nil => simp
  | cons n ns ih =>
    simp only [List.foldl_cons, ih, List.map_cons, List.contains_cons, Map.get?_set]
    by_cases h : toLowerName n = s
    · subst h; simp
    · have : ¬ s = toLowerName n := fun h' => h h'.symm
      simp [h, this]

theorem scheme_applyOpInit (d : Bytes → Bytes → Bool) (p : Policy) (op : BuilderOp) (s : Bytes) :
    (applyOpInit d p op).allowURLSchemes.get? s = op.setsScheme s (p.allowURLSchemes.get? s) := by
  cases op with
  | allowURLSchemes names =>
    simp only [applyOpInit, BuilderOp.setsScheme, schemes_plainFold]
  | allowURLSchemeWithCustomPolicy scheme f =>
    simp only [applyOpInit, BuilderOp.setsScheme, Map.get?_update]
    by_cases h : toLowerName scheme = s
    · subst h; simp
    · simp [h]
  | skipElementsContent names =>
    simp only [applyOpInit, BuilderOp.setsScheme]; rw [foldl_schemes]; exact fun _ _ => rfl
  | allowElementsContent names =>
    simp only [applyOpInit, BuilderOp.setsScheme]; rw [foldl_schemes]; exact fun _ _ => rfl
  | allowElements names =>
    simp only [applyOpInit, BuilderOp.setsScheme]; rw [foldl_schemes]; exact fun _ _ => rfl
  | allowAttrs names re ae scope =>
    cases scope with
    | onElements els =>
      simp only [applyOpInit, BuilderOp.setsScheme]
      rw [foldl_schemes]; exact fun b a => attrsOnElement_schemes b _ _ _ _
    | onElementsMatching r =>
      simp only [applyOpInit, BuilderOp.setsScheme]
      split <;> (try simp only) <;> (rw [foldl_schemes]; exact fun _ _ => rfl)
    | globally =>
      simp only [applyOpInit, BuilderOp.setsScheme]; rw [foldl_schemes]; exact fun _ _ => rfl
  | allowStyles names m scope =>
    cases scope with
    | onElements els =>
      simp only [applyOpInit, BuilderOp.setsScheme]
      rw [foldl_schemes]
      intro b a
      rw [foldl_schemes]; exact fun _ _ => rfl
    | onElementsMatching r =>
      simp only [applyOpInit, BuilderOp.setsScheme]; rw [foldl_schemes]; exact fun _ _ => rfl
    | globally =>
      simp only [applyOpInit, BuilderOp.setsScheme]; rw [foldl_schemes]; exact fun _ _ => rfl
  | allowElementsMatching r =>
    simp only [applyOpInit, BuilderOp.setsScheme]
    split <;> rfl
  | _ => rfl

/-- **refinement, per scheme**: the registration of scheme `s` after any history is the start
    registration run through `setsScheme s` -/
theorem scheme_applyOps (d : Bytes → Bytes → Bool) (p : Policy) (hi : p.initialized = true) (ops : List BuilderOp) (s : Bytes) :
    (applyOps d p ops).allowURLSchemes.get? s =
      ops.foldl (fun st op => op.setsScheme s st) (p.allowURLSchemes.get? s) :=
  foldl_refine (applyOp d) (fun p => p.allowURLSchemes.get? s) (fun op st => op.setsScheme s st)
    (fun p => p.initialized = true) (fun b a hb => applyOp_initialized d b hb a)
    (fun b a hb => by rw [applyOp_init_eq d b hb]; exact scheme_applyOpInit d b a s) ops p hi

end BM
