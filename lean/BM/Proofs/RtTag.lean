import BM.Html
import BM.Proofs.Escape
import BM.Proofs.RoundTrip
/-
  Render/tokenize round trip, tag half: what the tokenizer reads back from the serialisation
  of a well-formed tag.
-/
namespace BM.Html

/-- a byte that may occur inside a tag name as the tokenizer produces it -/
def nameByte (c : UInt8) : Bool := !(isWs c) && c != 47 && c != 62 && !(isUpper c)

/-- a byte that may occur inside an attribute key (after index 0) -/
def keyByte (c : UInt8) : Bool := !(keyStop c) && !(isUpper c)

/-- well-formed attribute as the tokenizer produces it: non-empty lower-case key, `=` only at
    index 0, nothing that ends a key -/
def AttrOK (a : Attr) : Prop :=
  ∃ c rest, a.key = c :: rest ∧ (c == 61 || keyByte c) = true ∧ (∀ x ∈ rest, keyByte x = true)

/-- well-formed tag name: starts with a lower-case letter, no whitespace, `/`, `>`, upper case -/
def NameOK' (n : Bytes) : Prop :=
  ∃ c rest, n = c :: rest ∧ isLowerA c = true ∧ (∀ x ∈ rest, nameByte x = true)

theorem lowerAscii_id (s : Bytes) (h : ∀ x ∈ s, isUpper x = false) : lowerAscii s = s := by
  induction s with
  | nil => rfl
  | cons c cs ih =>
    have hc := h c (by simp)
    simp only [lowerAscii, List.map_cons, lowerByte, hc, Bool.false_eq_true, ↓reduceIte]
    congr 1
    exact ih (fun x hx => h x (by simp [hx]))

/-! ### re-reading a name -/

theorem readTagNameAux_append (n : Bytes) (hn : ∀ x ∈ n, nameByte x = true) (sep : UInt8) (rest : Bytes)
    (hsep : sep = 62 ∨ sep = 47) :
    readTagNameAux (n ++ sep :: rest) = some (n, sep :: rest) := by
  induction n with
  | nil =>
    simp only [List.nil_append, readTagNameAux]
    rcases hsep with h | h <;> subst h <;> simp [isWs]
  | cons c cs ih =>
    have hc := hn c (by simp)
    simp only [nameByte, Bool.and_eq_true, Bool.not_eq_true', bne_iff_ne, ne_eq] at hc
    simp only [List.cons_append, readTagNameAux, hc.1.1.1, Bool.false_eq_true, ↓reduceIte]
    have h47 : (c == 47) = false := by simpa using hc.1.1.2
    have h62 : (c == 62) = false := by simpa using hc.1.2
    simp only [h47, h62, Bool.or_self, Bool.false_eq_true, ↓reduceIte]
    rw [ih (fun x hx => hn x (by simp [hx]))]
    rfl

theorem readTagNameAux_space (n : Bytes) (hn : ∀ x ∈ n, nameByte x = true) (rest : Bytes) :
    readTagNameAux (n ++ 32 :: rest) = some (n, rest) := by
  induction n with
  | nil => simp [readTagNameAux, isWs]
  | cons c cs ih =>
    have hc := hn c (by simp)
    simp only [nameByte, Bool.and_eq_true, Bool.not_eq_true', bne_iff_ne, ne_eq] at hc
    have h47 : (c == 47) = false := by simpa using hc.1.1.2
    have h62 : (c == 62) = false := by simpa using hc.1.2
    simp only [List.cons_append, readTagNameAux, hc.1.1.1, Bool.false_eq_true, ↓reduceIte, h47, h62, Bool.or_self]
    rw [ih (fun x hx => hn x (by simp [hx]))]
    rfl

/-! ### re-reading attributes -/

theorem keyBody_append (k : Bytes) (hk : ∀ x ∈ k, keyByte x = true) (rest : Bytes) :
    keyBody (k ++ 61 :: rest) = some (k, 61 :: rest) := by
  induction k with
  | nil => simp [keyBody, keyStop]
  | cons c cs ih =>
    have hc := hk c (by simp)
    simp only [keyByte, Bool.and_eq_true, Bool.not_eq_true'] at hc
    simp only [List.cons_append, keyBody, hc.1, Bool.false_eq_true, ↓reduceIte]
    rw [ih (fun x hx => hk x (by simp [hx]))]
    rfl

theorem readKey_append (a : Attr) (ha : AttrOK a) (rest : Bytes) :
    readKey (a.key ++ 61 :: rest) = some (a.key, 61 :: rest) := by
  obtain ⟨c, cs, hkey, hc, hcs⟩ := ha
  rw [hkey]
  simp only [List.cons_append, readKey]
  by_cases h61 : c = 61
  · subst h61
    simp only [beq_self_eq_true, ↓reduceIte]
    rw [keyBody_append cs hcs]; rfl
  · have : (c == 61) = false := by simpa using h61
    simp only [this, Bool.false_eq_true, ↓reduceIte]
    have hkb : keyByte c = true := by simpa [this] using hc
    have := keyBody_append (c :: cs) (by
      intro x hx
      simp only [List.mem_cons] at hx
      rcases hx with rfl | hx
      · exact hkb
      · exact hcs x hx) rest
    simpa using this

theorem readQuoted_escape (v rest : Bytes) : readQuoted 34 (escape v ++ 34 :: rest) = some (escape v, rest) := by
  have hno : ∀ c ∈ escape v, c ≠ 34 := fun c hc => (escape_no_special v c hc).2.2.1
  generalize escape v = e at hno
  induction e with
  | nil => simp [readQuoted]
  | cons c cs ih =>
    have hc : (c == 34) = false := by simpa using hno c (by simp)
    simp only [List.cons_append, readQuoted, hc, Bool.false_eq_true, ↓reduceIte]
    rw [ih (fun x hx => hno x (by simp [hx]))]
    rfl

/-- the value part `="escaped"` is read back as the escaped bytes -/
theorem readVal_rendered (v rest : Bytes) :
    readVal (61 :: 34 :: (escape v ++ 34 :: rest)) = some (escape v, rest) := by
  have h1 : skipWs (61 :: 34 :: (escape v ++ 34 :: rest)) = 61 :: 34 :: (escape v ++ 34 :: rest) := by
    simp [skipWs, isWs]
  have h2 : skipWs (34 :: (escape v ++ 34 :: rest)) = 34 :: (escape v ++ 34 :: rest) := by
    simp [skipWs, isWs]
  simp only [readVal, h1, h2]
  simp [readQuoted_escape]

end BM.Html

namespace BM.Html

theorem attrOK_head_not_ws (a : Attr) (ha : AttrOK a) :
    ∃ c rest, a.key = c :: rest ∧ isWs c = false ∧ c ≠ 62 ∧ c ≠ 47 := by
  obtain ⟨c, cs, hkey, hc, _⟩ := ha
  refine ⟨c, cs, hkey, ?_⟩
  by_cases h61 : c = 61
  · subst h61; decide
  · have : (c == 61) = false := by simpa using h61
    have hkb : keyByte c = true := by simpa [this] using hc
    simp only [keyByte, keyStop, Bool.and_eq_true, Bool.not_eq_true', Bool.or_eq_false_iff,
      beq_eq_false_iff_ne, ne_eq] at hkb
    exact ⟨hkb.1.1.1.2, hkb.1.2, hkb.1.1.2⟩

/-- raw form of a rendered attribute: key as is, value escaped -/
def rawAttr (a : Attr) : Attr := ⟨a.key, escape a.val⟩

theorem skipWs_of_not_ws (c : UInt8) (cs : Bytes) (h : isWs c = false) : skipWs (c :: cs) = c :: cs := by
  simp [skipWs, h]

theorem skipWs_space_then (c : UInt8) (cs : Bytes) (h : isWs c = false) : skipWs (32 :: c :: cs) = c :: cs := by
  have h32 : isWs 32 = true := by decide
  simp only [skipWs, h32, ↓reduceIte, h, Bool.false_eq_true]

/-- what may follow the attributes of a rendered tag: `>` (start / end tag) or `/>` -/
def Term (term rest : Bytes) : Prop := term = 62 :: rest ∨ term = 47 :: 62 :: rest

theorem Term.head {term rest : Bytes} (h : Term term rest) :
    ∃ d ds, term = d :: ds ∧ isWs d = false ∧ (d = 62 ∨ d = 47) := by
  rcases h with h | h <;> subst h
  · exact ⟨62, rest, rfl, by decide, .inl rfl⟩
  · exact ⟨47, 62 :: rest, rfl, by decide, .inr rfl⟩

theorem skipWs_renderAttrs_ne (as : List Attr) (hok : ∀ a ∈ as, AttrOK a) {term rest : Bytes}
    (ht : Term term rest) : skipWs (renderAttrs as ++ term) ≠ [] := by
  cases as with
  | nil =>
    obtain ⟨d, ds, rfl, hws, _⟩ := ht.head
    simp [renderAttrs, skipWs, hws]
  | cons b bs =>
    obtain ⟨c', cs', hkey', hws', _, _⟩ := attrOK_head_not_ws b (hok b (by simp))
    have : renderAttrs (b :: bs) ++ term =
        32 :: c' :: (cs' ++ 61 :: 34 :: (escape b.val ++ 34 :: (renderAttrs bs ++ term))) := by
      simp [renderAttrs, hkey', List.append_assoc]
    rw [this, skipWs_space_then _ _ hws']
    simp

/-- the attribute loop on the bare terminator -/
theorem readAttrs_term {term rest : Bytes} (ht : Term term rest) (acc : List Attr) (fuel : Nat)
    (hf : 1 < fuel) : readAttrs fuel term acc = some (acc.reverse, rest) := by
  rcases ht with h | h <;> subst h
  · cases fuel with
    | zero => simp at hf
    | succ n => simp [readAttrs]
  · cases fuel with
    | zero => simp at hf
    | succ n =>
      cases n with
      | zero => simp at hf
      | succ m =>
        have h47 : isWs 47 = false := by decide
        have h62 : isWs 62 = false := by decide
        simp [readAttrs, readKey, keyBody, keyStop, readVal, skipWs, h47, h62]

/-- reading the attributes of a rendered tag -/
theorem readAttrs_rendered (as : List Attr) (hok : ∀ a ∈ as, AttrOK a) {term rest : Bytes}
    (ht : Term term rest) :
    ∀ (acc : List Attr) (fuel : Nat), as.length + 1 < fuel →
      readAttrs fuel (skipWs (renderAttrs as ++ term)) acc = some (acc.reverse ++ as.map rawAttr, rest) := by
  induction as with
  | nil =>
    intro acc fuel hf
    obtain ⟨d, ds, hd, hws, _⟩ := ht.head
    have : skipWs (renderAttrs [] ++ term) = term := by
      rw [hd]; simp [renderAttrs, skipWs, hws]
    rw [this, readAttrs_term ht acc fuel (by simpa using hf)]
    simp
  | cons a as ih =>
    intro acc fuel hf
    cases fuel with
    | zero => simp at hf
    | succ n =>
      have ha := hok a (by simp)
      obtain ⟨c, cs, hkey, hws, h62, h47⟩ := attrOK_head_not_ws a ha
      have hrender : renderAttrs (a :: as) ++ term =
          32 :: (a.key ++ 61 :: 34 :: (escape a.val ++ 34 :: (renderAttrs as ++ term))) := by
        simp [renderAttrs, List.append_assoc]
      rw [hrender]
      have hsk : skipWs (32 :: (a.key ++ 61 :: 34 :: (escape a.val ++ 34 :: (renderAttrs as ++ term)))) =
          a.key ++ 61 :: 34 :: (escape a.val ++ 34 :: (renderAttrs as ++ term)) := by
        rw [hkey]
        exact skipWs_space_then c _ hws
      rw [hsk]
      -- one iteration of the attribute loop
      have hstart : a.key ++ 61 :: 34 :: (escape a.val ++ 34 :: (renderAttrs as ++ term)) =
          c :: (cs ++ 61 :: 34 :: (escape a.val ++ 34 :: (renderAttrs as ++ term))) := by
        rw [hkey]; rfl
      have hc62 : (c == 62) = false := by simpa using h62
      rw [hstart]
      simp only [readAttrs, hc62, Bool.false_eq_true, ↓reduceIte]
      rw [← hstart, readKey_append a ha]
      simp only [readVal_rendered]
      have hkne : a.key.isEmpty = false := by rw [hkey]; rfl
      simp only [hkne, Bool.false_eq_true, ↓reduceIte]
      -- what follows: either the next attribute (after a space) or the terminator
      have hnext := ih (fun x hx => hok x (by simp [hx])) (⟨a.key, escape a.val⟩ :: acc) n (by simp at hf; omega)
      cases hsw : skipWs (renderAttrs as ++ term) with
      | nil => exact absurd hsw (skipWs_renderAttrs_ne as (fun x hx => hok x (by simp [hx])) ht)
      | cons d ds =>
        rw [hsw] at hnext
        simp only [hnext]
        simp [rawAttr, List.append_assoc]

end BM.Html

namespace BM.Html

theorem renderAttrs_length (as : List Attr) : as.length ≤ (renderAttrs as).length := by
  induction as with
  | nil => simp [renderAttrs]
  | cons a as ih => simp [renderAttrs]; omega

theorem skipWs_rendered_length (as : List Attr) (hok : ∀ a ∈ as, AttrOK a) {term rest : Bytes}
    (ht : Term term rest) : as.length + 1 ≤ (skipWs (renderAttrs as ++ term)).length := by
  cases as with
  | nil =>
    obtain ⟨d, ds, rfl, hws, _⟩ := ht.head
    simp [renderAttrs, skipWs, hws]
  | cons b bs =>
    obtain ⟨c', cs', hkey', hws', _, _⟩ := attrOK_head_not_ws b (hok b (by simp))
    have : renderAttrs (b :: bs) ++ term =
        32 :: c' :: (cs' ++ 61 :: 34 :: (escape b.val ++ 34 :: (renderAttrs bs ++ term))) := by
      simp [renderAttrs, hkey', List.append_assoc]
    rw [this, skipWs_space_then _ _ hws']
    have := renderAttrs_length bs
    simp; omega

/-- **re-reading a rendered tag**: name and raw attributes come back, the rest follows -/
theorem readTag_rendered (n : Bytes) (hn : NameOK' n) (as : List Attr) (hok : ∀ a ∈ as, AttrOK a)
    {term rest : Bytes} (ht : Term term rest) :
    readTag (n ++ (renderAttrs as ++ term)) = some (n, as.map rawAttr, rest) := by
  obtain ⟨c, cs, rfl, _, hcs⟩ := hn
  have hname : ∃ r1, readTagName ((c :: cs) ++ (renderAttrs as ++ term)) = some (c :: cs, r1) ∧
      skipWs r1 = skipWs (renderAttrs as ++ term) := by
    cases as with
    | nil =>
      obtain ⟨d, ds, hd, _, hsep⟩ := ht.head
      refine ⟨term, ?_, rfl⟩
      simp only [renderAttrs, List.nil_append, List.cons_append, readTagName]
      rw [hd, readTagNameAux_append cs hcs d ds hsep]; rfl
    | cons a as' =>
      have hr : renderAttrs (a :: as') ++ term =
          32 :: (a.key ++ 61 :: 34 :: (escape a.val ++ 34 :: (renderAttrs as' ++ term))) := by
        simp [renderAttrs, List.append_assoc]
      refine ⟨a.key ++ 61 :: 34 :: (escape a.val ++ 34 :: (renderAttrs as' ++ term)), ?_, ?_⟩
      · rw [hr]
        simp only [List.cons_append, readTagName]
        rw [readTagNameAux_space cs hcs]; rfl
      · rw [hr]
        have h32 : isWs 32 = true := by decide
        simp [skipWs, h32]
  obtain ⟨r1, hrn, hsk⟩ := hname
  unfold readTag
  simp only [hrn, hsk]
  have hne := skipWs_renderAttrs_ne as hok ht
  cases hs : skipWs (renderAttrs as ++ term) with
  | nil => exact absurd hs hne
  | cons d ds =>
    have := readAttrs_rendered as hok ht [] ((d :: ds).length + 1) (by
      have := skipWs_rendered_length as hok ht
      rw [hs] at this; omega)
    rw [hs] at this
    simp only [List.length_cons, List.reverse_nil, List.nil_append] at this
    simp [this]

/-- decoding the raw attributes gives the original ones back -/
theorem decodeAttrs_raw (as : List Attr) (hok : ∀ a ∈ as, AttrOK a) :
    decodeAttrs (as.map rawAttr) = as := by
  induction as with
  | nil => rfl
  | cons a as ih =>
    have ha := hok a (by simp)
    obtain ⟨c, cs, hkey, hc, hcs⟩ := ha
    have hlow : lowerAscii a.key = a.key := by
      apply lowerAscii_id
      intro x hx
      rw [hkey] at hx
      simp only [List.mem_cons] at hx
      rcases hx with rfl | hx
      · by_cases h61 : x = 61
        · subst h61; decide
        · have : (x == 61) = false := by simpa using h61
          have hkb : keyByte x = true := by simpa [this] using hc
          simp only [keyByte, Bool.and_eq_true, Bool.not_eq_true'] at hkb
          exact hkb.2
      · have hkb := hcs x hx
        simp only [keyByte, Bool.and_eq_true, Bool.not_eq_true'] at hkb
        exact hkb.2
    simp only [List.map_cons, decodeAttrs, rawAttr, hlow, convertNewlines_escape, unescape_escape]
    have := ih (fun x hx => hok x (by simp [hx]))
    simp only [decodeAttrs] at this
    rw [this]

end BM.Html
