import BM.Html
import BM.Proofs.RtTag
/-
  Well-formedness of what the tokenizer produces: tag names start with a lower-case letter and
  contain no whitespace, `/`, `>` or upper-case letter; attribute keys are non-empty, lower
  case, and contain nothing that ends a key; end tags carry no attributes.  These are exactly
  the hypotheses (`NameOK'`, `AttrOK`) of the render/tokenize round trip.
-/
namespace BM.Html

/-- well-formed token, as far as the round trip needs it -/
def TokWF (t : Token) : Prop :=
  match t.tt with
  | .start => NameOK' t.data ∧ ∀ a ∈ t.attrs, AttrOK a
  | .selfClosing => NameOK' t.data ∧ ∀ a ∈ t.attrs, AttrOK a
  | .end_ => NameOK' t.data ∧ t.attrs = []
  | _ => True

/-! ### byte facts, by exhaustion over the 256 bytes -/

set_option maxRecDepth 8192 in
theorem lowerByte_alpha_fin : ∀ n : Fin 256, isAlpha (UInt8.ofNat n.val) = true →
    isLowerA (lowerByte (UInt8.ofNat n.val)) = true := by decide

theorem lowerByte_alpha (c : UInt8) (h : isAlpha c = true) : isLowerA (lowerByte c) = true := by
  have := lowerByte_alpha_fin ⟨c.toNat, c.toNat_lt⟩
  simp only [UInt8.ofNat_toNat] at this
  exact this h

set_option maxRecDepth 8192 in
theorem lowerByte_name_fin : ∀ n : Fin 256,
    (isWs (UInt8.ofNat n.val) = false ∧ UInt8.ofNat n.val ≠ 47 ∧ UInt8.ofNat n.val ≠ 62) →
    nameByte (lowerByte (UInt8.ofNat n.val)) = true := by decide

theorem lowerByte_name (c : UInt8) (h1 : isWs c = false) (h2 : c ≠ 47) (h3 : c ≠ 62) :
    nameByte (lowerByte c) = true := by
  have := lowerByte_name_fin ⟨c.toNat, c.toNat_lt⟩
  simp only [UInt8.ofNat_toNat] at this
  exact this ⟨h1, h2, h3⟩

set_option maxRecDepth 8192 in
theorem lowerByte_key_fin : ∀ n : Fin 256, keyStop (UInt8.ofNat n.val) = false →
    keyByte (lowerByte (UInt8.ofNat n.val)) = true := by decide

theorem lowerByte_key (c : UInt8) (h : keyStop c = false) : keyByte (lowerByte c) = true := by
  have := lowerByte_key_fin ⟨c.toNat, c.toNat_lt⟩
  simp only [UInt8.ofNat_toNat] at this
  exact this h

theorem readMarkupDeclaration_tt' (s : Bytes) :
    (readMarkupDeclaration s).1 = .comment ∨ (readMarkupDeclaration s).1 = .doctype := by
  unfold readMarkupDeclaration
  repeat' split
  all_goals simp

/-! ### names -/

theorem readTagNameAux_bytes : ∀ (s n r : Bytes), readTagNameAux s = some (n, r) →
    ∀ x ∈ n, isWs x = false ∧ x ≠ 47 ∧ x ≠ 62
  | [], n, r, h => by simp [readTagNameAux] at h
  | c :: cs, n, r, h => by
    unfold readTagNameAux at h
    split at h
    · simp at h; obtain ⟨rfl, _⟩ := h; simp
    · rename_i hws
      split at h
      · simp at h; obtain ⟨rfl, _⟩ := h; simp
      · rename_i hsep
        cases hr : readTagNameAux cs with
        | none => simp [hr] at h
        | some y =>
          obtain ⟨n', r'⟩ := y
          simp [hr] at h
          obtain ⟨rfl, _⟩ := h
          intro x hx
          simp only [List.mem_cons] at hx
          rcases hx with rfl | hx
          · simp only [Bool.or_eq_true, beq_iff_eq, not_or] at hsep
            exact ⟨by simpa using hws, hsep.1, hsep.2⟩
          · exact readTagNameAux_bytes cs n' r' hr x hx

/-- a name read after an ASCII letter is a well-formed name once lower-cased -/
theorem readTagName_nameOK (c : UInt8) (r n rest : Bytes) (hc : isAlpha c = true)
    (h : readTagName (c :: r) = some (n, rest)) : NameOK' (lowerAscii n) := by
  unfold readTagName at h
  cases hr : readTagNameAux r with
  | none => simp [hr] at h
  | some y =>
    obtain ⟨n', r'⟩ := y
    simp [hr] at h
    obtain ⟨rfl, _⟩ := h
    refine ⟨lowerByte c, lowerAscii n', by simp [lowerAscii], lowerByte_alpha c hc, ?_⟩
    intro x hx
    simp only [lowerAscii, List.mem_map] at hx
    obtain ⟨y, hy, rfl⟩ := hx
    obtain ⟨h1, h2, h3⟩ := readTagNameAux_bytes r n' r' hr y hy
    exact lowerByte_name y h1 h2 h3

/-! ### attribute keys -/

theorem keyBody_bytes : ∀ (s k r : Bytes), keyBody s = some (k, r) → ∀ x ∈ k, keyStop x = false
  | [], k, r, h => by simp [keyBody] at h
  | c :: cs, k, r, h => by
    unfold keyBody at h
    split at h
    · simp at h; obtain ⟨rfl, _⟩ := h; simp
    · rename_i hstop
      cases hr : keyBody cs with
      | none => simp [hr] at h
      | some y =>
        obtain ⟨k', r'⟩ := y
        simp [hr] at h
        obtain ⟨rfl, _⟩ := h
        intro x hx
        simp only [List.mem_cons] at hx
        rcases hx with rfl | hx
        · simpa using hstop
        · exact keyBody_bytes cs k' r' hr x hx

/-- a non-empty key as `readTagAttrKey` returns it, lower-cased, is a well-formed key -/
theorem readKey_attrOK (s k r : Bytes) (v : Bytes) (h : readKey s = some (k, r)) (hne : k.isEmpty = false) :
    AttrOK ⟨lowerAscii k, v⟩ := by
  unfold readKey at h
  split at h
  · simp at h
  · rename_i c cs
    split at h
    · rename_i h61
      simp only [beq_iff_eq] at h61; subst h61
      cases hr : keyBody cs with
      | none => simp [hr] at h
      | some y =>
        obtain ⟨k', r'⟩ := y
        simp [hr] at h
        obtain ⟨rfl, _⟩ := h
        refine ⟨61, lowerAscii k', by simp [lowerAscii, lowerByte, isUpper], by simp, ?_⟩
        intro x hx
        simp only [lowerAscii, List.mem_map] at hx
        obtain ⟨y, hy, rfl⟩ := hx
        exact lowerByte_key y (keyBody_bytes cs k' r' hr y hy)
    · have hb := keyBody_bytes (c :: cs) k r h
      cases k with
      | nil => simp at hne
      | cons d ds =>
        refine ⟨lowerByte d, lowerAscii ds, by simp [lowerAscii], ?_, ?_⟩
        · simp [lowerByte_key d (hb d (by simp))]
        · intro x hx
          simp only [lowerAscii, List.mem_map] at hx
          obtain ⟨y, hy, rfl⟩ := hx
          exact lowerByte_key y (hb y (by simp [hy]))

/-- every attribute collected by the attribute loop has a well-formed key (lower-cased) -/
theorem readAttrs_keys : ∀ (fuel : Nat) (s : Bytes) (acc as : List Attr) (rest : Bytes),
    readAttrs fuel s acc = some (as, rest) →
    (∀ a ∈ acc, AttrOK ⟨lowerAscii a.key, a.val⟩) → ∀ a ∈ as, AttrOK ⟨lowerAscii a.key, a.val⟩
  | 0, _, _, _, _, h, _ => by simp [readAttrs] at h
  | _ + 1, [], _, _, _, h, _ => by simp [readAttrs] at h
  | fuel + 1, c :: cs, acc, as, rest, h, hacc => by
    unfold readAttrs at h
    split at h
    · simp at h; obtain ⟨rfl, _⟩ := h
      intro a ha; exact hacc a (by simpa using ha)
    · split at h
      · simp at h
      · rename_i k r1 hk
        split at h
        · simp at h
        · rename_i v r2 hv
          simp only at h
          cases hs : skipWs r2 with
          | nil => simp [hs] at h
          | cons d ds =>
            simp only [hs] at h
            refine readAttrs_keys fuel _ _ as rest h ?_
            intro a ha
            split at ha
            · exact hacc a ha
            · rename_i hke
              simp only [List.mem_cons] at ha
              rcases ha with rfl | ha
              · exact readKey_attrOK _ k r1 v hk (by simpa using hke)
              · exact hacc a ha

theorem attrOK_val (k v w : Bytes) (h : AttrOK ⟨k, v⟩) : AttrOK ⟨k, w⟩ := h

/-- what `readTag` returns after an ASCII letter: well-formed name and attribute keys -/
theorem readTag_wf (c : UInt8) (r n : Bytes) (as : List Attr) (rest : Bytes) (hc : isAlpha c = true)
    (h : readTag (c :: r) = some (n, as, rest)) :
    NameOK' (lowerAscii n) ∧ ∀ a ∈ decodeAttrs as, AttrOK a := by
  unfold readTag at h
  cases hn : readTagName (c :: r) with
  | none => simp [hn] at h
  | some y =>
    obtain ⟨name, r1⟩ := y
    simp only [hn] at h
    cases hs : skipWs r1 with
    | nil => simp [hs] at h
    | cons d ds =>
      simp only [hs, Option.map_eq_some_iff] at h
      obtain ⟨⟨as', rest'⟩, hr, heq⟩ := h
      simp only [Prod.mk.injEq] at heq
      obtain ⟨rfl, rfl, rfl⟩ := heq
      · refine ⟨readTagName_nameOK c r _ r1 hc hn, ?_⟩
        intro a ha
        simp only [decodeAttrs, List.mem_map] at ha
        obtain ⟨b, hb, rfl⟩ := ha
        exact attrOK_val _ b.val _ (readAttrs_keys _ _ [] _ _ hr (by simp) b hb)

theorem tokWF_open (c : UInt8) (r n : Bytes) (as : List Attr) (rest : Bytes) (hc : isAlpha c = true)
    (h : readTag (c :: r) = some (n, as, rest)) (b : Bool) :
    TokWF ⟨if b then TT.selfClosing else TT.start, lowerAscii n, decodeAttrs as⟩ := by
  have := readTag_wf c r n as rest hc h
  cases b <;> exact this

theorem tokWF_end (c : UInt8) (r n : Bytes) (as : List Attr) (rest : Bytes) (hc : isAlpha c = true)
    (h : readTag (c :: r) = some (n, as, rest)) : TokWF ⟨.end_, lowerAscii n, []⟩ :=
  ⟨(readTag_wf c r n as rest hc h).1, rfl⟩

/-- the raw-text half of `next`, as a function of its own -/
def rawStep (rawTag s : Bytes) : Option (Token × Bytes × Bytes) × Bytes :=
  if rawTag.isEmpty then (none, rawTag)
  else
    let (t, rest) := readRaw rawTag s
    let rawTag' := if rawTag == b!"plaintext" then rawTag else []
    if t.isEmpty then (none, rawTag')
    else
      let isRaw := rawTag == b!"plaintext" || rawTag == b!"script" ||
        (rawTag != b!"textarea" && rawTag != b!"title")
      (some (⟨.text, textData t true isRaw, []⟩, rawTag', rest), rawTag')

/-- the data-state half of `next` -/
def dataStep (rawTag s : Bytes) : Option (Token × Bytes × Bytes) :=
  let (t, rest) := scanText s
  if !t.isEmpty then some (⟨.text, textData t false false, []⟩, rawTag, rest)
  else match rest with
  | _ :: c :: r =>
    if isAlpha c then
      match readTag (c :: r) with
      | none => none
      | some (name, as, rest') =>
        let consumed := (c :: r).take ((c :: r).length - rest'.length)
        let lname := lowerAscii name
        let rawTag' := if isRawTagName lname then lname else rawTag
        let tt := if endsSelfClosing consumed then TT.selfClosing else TT.start
        some (⟨tt, lname, decodeAttrs as⟩, rawTag', rest')
    else if c == 47 then
      match r with
      | [] => some (⟨.text, textData s false false, []⟩, rawTag, [])
      | d :: r' =>
        if d == 62 then some (⟨.comment, [], []⟩, rawTag, r')
        else if isAlpha d then
          match readTag (d :: r') with
          | none => none
          | some (name, _, rest') => some (⟨.end_, lowerAscii name, []⟩, rawTag, rest')
        else
          let (dd, rest') := readUntilCloseAngle (d :: r')
          some (⟨.comment, textData dd true false, []⟩, rawTag, rest')
    else if c == 33 then
      let (tt, dd, rest') := readMarkupDeclaration r
      some (⟨tt, textData dd (tt == .comment) false, []⟩, rawTag, rest')
    else
      let (dd, rest') := readUntilCloseAngle (c :: r)
      some (⟨.comment, textData dd true false, []⟩, rawTag, rest')
  | _ => none

/-- `next` is the composition of its two halves (definitional) -/
theorem next_eq (rawTag s : Bytes) :
    next rawTag s = if s.isEmpty then none else
      match rawStep rawTag s with
      | (some r, _) => some r
      | (none, rt) => dataStep rt s := rfl

theorem rawStep_wf (rawTag s : Bytes) (t : Token) (rt rest x : Bytes)
    (h : rawStep rawTag s = (some (t, rt, rest), x)) : TokWF t := by
  unfold rawStep at h
  simp only at h
  repeat' split at h
  all_goals (simp at h)
  all_goals (obtain ⟨⟨rfl, _⟩, _⟩ := h; simp [TokWF])

theorem dataStep_wf (rawTag s : Bytes) (t : Token) (rt rest : Bytes)
    (h : dataStep rawTag s = some (t, rt, rest)) : TokWF t := by
  unfold dataStep at h
  simp only at h
  repeat' split at h
  all_goals (try (simp at h; done))
  all_goals (try (simp at h; obtain ⟨rfl, _, _⟩ := h; simp [TokWF]; done))
  all_goals (try (simp at h; obtain ⟨rfl, _, _⟩ := h
                  exact tokWF_open _ _ _ _ _ ‹isAlpha _ = true› ‹readTag _ = _› _))
  all_goals (try (simp at h; obtain ⟨rfl, _, _⟩ := h
                  exact tokWF_end _ _ _ _ _ ‹isAlpha _ = true› ‹readTag _ = _›))
  all_goals (try (simp at h; obtain ⟨rfl, _, _⟩ := h
                  exact tokWF_open _ _ _ _ _ ‹isAlpha _ = true› ‹readTag _ = _› true))
  all_goals (try (simp at h; obtain ⟨rfl, _, _⟩ := h
                  exact tokWF_open _ _ _ _ _ ‹isAlpha _ = true› ‹readTag _ = _› false))
  all_goals (simp at h; obtain ⟨rfl, _, _⟩ := h
             rename_i r _ _ _ _ _ _
             rcases readMarkupDeclaration_tt' r with h' | h' <;> simp [TokWF, h'])

/-- every token the tokenizer returns is well formed -/
theorem next_wf (rawTag s : Bytes) (t : Token) (rt rest : Bytes)
    (h : next rawTag s = some (t, rt, rest)) : TokWF t := by
  rw [next_eq] at h
  split at h
  · simp at h
  · split at h
    · rename_i r x heq
      simp at h; subst h
      exact rawStep_wf rawTag s t rt rest x heq
    · exact dataStep_wf _ s t rt rest h

theorem tokenizeAux_wf (fuel : Nat) (rawTag s : Bytes) : ∀ t ∈ tokenizeAux fuel rawTag s, TokWF t := by
  induction fuel generalizing rawTag s with
  | zero => intro t ht; simp [tokenizeAux] at ht
  | succ n ih =>
    intro t ht
    unfold tokenizeAux at ht
    split at ht
    · simp at ht
    · rename_i t0 rt rest hnext
      simp only [List.mem_cons] at ht
      rcases ht with rfl | ht
      · exact next_wf rawTag s _ rt rest hnext
      · exact ih rt rest t ht

/-- **every token of every input is well formed** -/
theorem tokenize_wf (s : Bytes) : ∀ t ∈ tokenize s, TokWF t := tokenizeAux_wf _ _ _

end BM.Html
