import BM.RecCheck
/-
  The cost of `recursiveCheck` (C14, "time bounded by a low-degree polynomial"): for every list of
  handler functions, whatever they accept, and every list of `n` values, the memoised algorithm
  of css/handlers.go invokes a handler at most `len(funcs) · n(n+1)/2` times
  (`recursiveCheck_calls_le`).  The potential: every suffix length `l` not yet marked failed
  holds a budget of `c l` invocations (the length of the double loop for `l` values); an
  expansion that fails pays for its own loop with the budget its mark releases, and for its
  recursive calls with theirs.
-/
namespace BM.Golite

/-- the budget still held by the unmarked suffix lengths `1 … L` -/
def weight (c : Nat → Nat) (st : RC) : Nat → Nat
  | 0 => 0
  | L + 1 => weight c st L + (if st.isFailed (L + 1) then 0 else c (L + 1))

/-- `st'` extends `st` at lengths `≤ L`: same table size, marks only added, nothing touched above `L` -/
structure Ext (L : Nat) (st st' : RC) : Prop where
  len : st'.failed.length = st.failed.length
  mono : ∀ l, st.isFailed l = true → st'.isFailed l = true
  above : ∀ l, L < l → st'.isFailed l = st.isFailed l

theorem Ext.refl (L : Nat) (st : RC) : Ext L st st := ⟨rfl, fun _ h => h, fun _ _ => rfl⟩

theorem Ext.trans {L : Nat} {a b c : RC} (h1 : Ext L a b) (h2 : Ext L b c) : Ext L a c :=
  ⟨h2.len.trans h1.len, fun l h => h2.mono l (h1.mono l h), fun l hl => (h2.above l hl).trans (h1.above l hl)⟩

theorem Ext.lift {L M : Nat} {a b : RC} (h : Ext L a b) (hLM : L ≤ M) : Ext M a b :=
  ⟨h.len, h.mono, fun l hl => h.above l (by omega)⟩

theorem Ext.tick (L : Nat) (st : RC) : Ext L st st.tick := ⟨rfl, fun _ h => h, fun _ _ => rfl⟩

theorem weight_tick (c : Nat → Nat) (st : RC) (M : Nat) : weight c st.tick M = weight c st M := by
  induction M with
  | zero => rfl
  | succ M ih => simp only [weight, ih]; rfl

theorem weight_le_succ (c : Nat → Nat) (st : RC) (M : Nat) : weight c st M ≤ weight c st (M + 1) := by
  simp only [weight]; omega

theorem weight_le_of_le (c : Nat → Nat) (st : RC) (L M : Nat) (h : L ≤ M) : weight c st L ≤ weight c st M := by
  induction M with
  | zero => have : L = 0 := by omega
            subst this; exact Nat.le_refl _
  | succ M ih =>
    by_cases hL : L = M + 1
    · subst hL; exact Nat.le_refl _
    · exact Nat.le_trans (ih (by omega)) (weight_le_succ c st M)

/-- marks above `L` untouched: the budget between `L` and `M` is the same in both states -/
theorem weight_above (c : Nat → Nat) {L : Nat} {st st' : RC} (h : Ext L st st') (M : Nat) (hLM : L ≤ M) :
    weight c st' M + weight c st L = weight c st M + weight c st' L := by
  induction M with
  | zero => have : L = 0 := by omega
            subst this; omega
  | succ M ih =>
    by_cases hL : L = M + 1
    · subst hL; omega
    · have := ih (by omega)
      simp only [weight, h.above (M + 1) (by omega)]
      omega

theorem weight_mono (c : Nat → Nat) {L : Nat} {st st' : RC} (h : Ext L st st') (M : Nat) :
    weight c st' M ≤ weight c st M := by
  induction M with
  | zero => exact Nat.le_refl _
  | succ M ih =>
    simp only [weight]
    cases hf : st.isFailed (M + 1) with
    | true => simp only [h.mono _ hf, ↓reduceIte]; omega
    | false =>
      cases st'.isFailed (M + 1) <;> simp <;> omega

/-- what a call on `v` may do to the state and what it may cost -/
def CallSpec (c : Nat → Nat) (rec : List Bytes → RC → Bool × RC) (v : List Bytes) (st : RC) : Prop :=
  Ext v.length st (rec v st).2 ∧
  ((rec v st).1 = false → (rec v st).2.calls + weight c (rec v st).2 v.length ≤ st.calls + weight c st v.length) ∧
  ((rec v st).1 = true → (rec v st).2.calls ≤ st.calls + weight c st v.length)

theorem isFailed_markFailed (st : RC) (n l : Nat) (hn : n < st.failed.length) :
    (st.markFailed n).isFailed l = if l = n then true else st.isFailed l := by
  unfold RC.markFailed RC.isFailed
  simp only [List.getD_eq_getElem?_getD, List.getElem?_set]
  by_cases h : n = l
  · subst h; simp [hn]
  · have h' : ¬ l = n := fun e => h e.symm
    simp [h, h']

/-- the double loop for `value`, given recursive calls that meet their specification on every
    shorter list -/
theorem rcScan_spec (c : Nat → Nat) (rec : List Bytes → RC → Bool × RC) (value : List Bytes)
    (hrec : ∀ v st, v.length < value.length → v.length < st.failed.length → CallSpec c rec v st)
    (ps : List (Nat × (Bytes → Bool))) (st : RC) (hlen : value.length ≤ st.failed.length) :
    Ext (value.length - 1) st (rcScan rec value ps st).2 ∧
    ((rcScan rec value ps st).1 = false →
      (rcScan rec value ps st).2.calls + weight c (rcScan rec value ps st).2 (value.length - 1) ≤
        st.calls + ps.length + weight c st (value.length - 1)) ∧
    ((rcScan rec value ps st).1 = true →
      (rcScan rec value ps st).2.calls ≤ st.calls + ps.length + weight c st (value.length - 1)) := by
  induction ps generalizing st with
  | nil => exact ⟨Ext.refl _ _, fun _ => by simp [rcScan], fun h => by simp [rcScan] at h⟩
  | cons p rest ih =>
    obtain ⟨i, j⟩ := p
    unfold rcScan
    simp only
    have htk : Ext (value.length - 1) st st.tick := Ext.tick _ _
    have hcalls : st.tick.calls = st.calls + 1 := rfl
    have hwt := weight_tick c st (value.length - 1)
    split
    · split
      · -- accepted, nothing left: true
        refine ⟨htk, fun h => by simp at h, fun _ => ?_⟩
        simp only [List.length_cons, hcalls]; omega
      · -- accepted, recurse on the rest
        rename_i hne
        have hvl : (value.drop (i + 1)).length < value.length := by
          simp only [List.length_drop]
          have : (value.drop (i + 1)).length ≠ 0 := by simpa using hne
          simp only [List.length_drop] at this
          omega
        have hvs : (value.drop (i + 1)).length < st.tick.failed.length := by
          have : st.tick.failed.length = st.failed.length := rfl
          omega
        obtain ⟨hext, hfalse, htrue⟩ := hrec (value.drop (i + 1)) st.tick hvl hvs
        have hextM : Ext (value.length - 1) st.tick (rec (value.drop (i + 1)) st.tick).2 := hext.lift (by omega)
        have hab := weight_above c hext (value.length - 1) (by omega)
        have hle := weight_le_of_le c st.tick (value.drop (i + 1)).length (value.length - 1) (by omega)
        cases hr : (rec (value.drop (i + 1)) st.tick).1 with
        | true =>
          simp only [↓reduceIte]
          refine ⟨htk.trans hextM, fun h => by simp at h, fun _ => ?_⟩
          have := htrue hr
          simp only [List.length_cons]
          omega
        | false =>
          simp only [Bool.false_eq_true, ↓reduceIte]
          have hlen' : value.length ≤ (rec (value.drop (i + 1)) st.tick).2.failed.length := by
            rw [hext.len]; exact hlen
          obtain ⟨e1, f1, t1⟩ := ih (rec (value.drop (i + 1)) st.tick).2 hlen'
          have hf := hfalse hr
          refine ⟨(htk.trans hextM).trans e1, fun h => ?_, fun h => ?_⟩
          · have := f1 h
            simp only [List.length_cons]
            omega
          · have := t1 h
            simp only [List.length_cons]
            omega
    · -- rejected: next pair
      obtain ⟨e1, f1, t1⟩ := ih st.tick hlen
      refine ⟨htk.trans e1, fun h => ?_, fun h => ?_⟩
      · have := f1 h
        simp only [List.length_cons]
        omega
      · have := t1 h
        simp only [List.length_cons]
        omega

/-- the length of the double loop for `l` values -/
def loopLen (fs : List (Bytes → Bool)) (l : Nat) : Nat := (rcPairs l fs).length

/-- **`recursiveCheckFrom` meets its specification**: with enough fuel and a table that has an
    entry for the length of `value`, a call only adds marks at lengths up to `len(value)`, a
    failing call pays every invocation it makes with budget it releases, and a succeeding call
    costs no more than the budget available below it -/
theorem recFrom_spec (fs : List (Bytes → Bool)) (fuel : Nat) (value : List Bytes) (st : RC)
    (hfuel : value.length < fuel) (hlen : value.length < st.failed.length) :
    CallSpec (loopLen fs) (recFrom fs fuel) value st := by
  induction fuel generalizing value st with
  | zero => omega
  | succ fuel ih =>
    unfold CallSpec
    unfold recFrom
    cases hfl : st.isFailed value.length with
    | true => simp only [↓reduceIte]; exact ⟨Ext.refl _ _, fun _ => Nat.le_refl _, fun h => by simp at h⟩
    | false =>
      simp only [Bool.false_eq_true, ↓reduceIte]
      have hrec : ∀ v s, v.length < value.length → v.length < s.failed.length →
          CallSpec (loopLen fs) (recFrom fs fuel) v s := fun v s hv hs => ih v s (by omega) hs
      obtain ⟨e1, f1, t1⟩ := rcScan_spec (loopLen fs) (recFrom fs fuel) value hrec (rcPairs value.length fs) st (by omega)
      have hW : weight (loopLen fs) st value.length =
          weight (loopLen fs) st (value.length - 1) + (rcPairs value.length fs).length := by
        cases hL : value.length with
        | zero => simp [weight, rcPairs]
        | succ L =>
          have : st.isFailed (L + 1) = false := by rw [← hL]; exact hfl
          simp only [weight, this, Bool.false_eq_true, ↓reduceIte, Nat.add_sub_cancel, loopLen]
      generalize rcScan (recFrom fs fuel) value (rcPairs value.length fs) st = R at e1 f1 t1 ⊢
      generalize (rcPairs value.length fs).length = P at f1 t1 hW
      cases hr : R.1 with
      | true =>
        simp only [↓reduceIte]
        refine ⟨e1.lift (by omega), fun h => by rw [hr] at h; simp at h, fun _ => ?_⟩
        have := t1 hr
        omega
      | false =>
        simp only [Bool.false_eq_true, ↓reduceIte]
        have hl2 : value.length < R.2.failed.length := by rw [e1.len]; exact hlen
        refine ⟨⟨?_, ?_, ?_⟩, fun _ => ?_, fun h => by simp at h⟩
        · simp only [RC.markFailed, List.length_set]; exact e1.len
        · intro l hl
          rw [isFailed_markFailed _ _ _ hl2]
          split
          · rfl
          · exact e1.mono l hl
        · intro l hl
          rw [isFailed_markFailed _ _ _ hl2]
          have : ¬ l = value.length := by omega
          simp only [this, ↓reduceIte]
          exact e1.above l (by omega)
        · -- the mark releases the budget of this length
          have hcalls : (R.2.markFailed value.length).calls = R.2.calls := rfl
          have hwm : weight (loopLen fs) (R.2.markFailed value.length) value.length =
              weight (loopLen fs) R.2 (value.length - 1) := by
            have hbelow : ∀ M, M < value.length →
                weight (loopLen fs) (R.2.markFailed value.length) M = weight (loopLen fs) R.2 M := by
              intro M hM
              induction M with
              | zero => rfl
              | succ M ihM =>
                simp only [weight, ihM (by omega), isFailed_markFailed _ _ _ hl2]
                have : ¬ M + 1 = value.length := by omega
                simp only [this, ↓reduceIte]
            generalize hL : value.length = n at hbelow hl2 ⊢
            cases n with
            | zero => rfl
            | succ L =>
              simp only [weight, Nat.add_sub_cancel, hbelow L (by omega), isFailed_markFailed _ _ _ hl2, ↓reduceIte,
                Nat.add_zero]
          have := f1 hr
          rw [hcalls, hwm]
          omega

/-! ### the closed form -/

theorem isFailed_fresh (n l : Nat) : (RC.fresh n).isFailed l = false := by
  unfold RC.fresh RC.isFailed
  simp only [List.getD_eq_getElem?_getD, List.getElem?_replicate]
  split <;> rfl

theorem loopLen_eq (fs : List (Bytes → Bool)) (l : Nat) : loopLen fs l = l * fs.length := by
  unfold loopLen rcPairs
  induction l with
  | zero => simp
  | succ l ih =>
    rw [List.range_succ, List.flatMap_append, List.length_append, ih]
    simp only [List.flatMap_cons, List.flatMap_nil, List.append_nil, List.length_map]
    rw [Nat.succ_mul]

theorem weight_fresh (fs : List (Bytes → Bool)) (n L : Nat) :
    2 * weight (loopLen fs) (RC.fresh n) L = fs.length * (L * (L + 1)) := by
  induction L with
  | zero => simp [weight]
  | succ L ih =>
    have e0 : (L + 1) * (L + 1 + 1) = L * (L + 1) + 2 * (L + 1) := by
      rw [Nat.mul_succ, Nat.mul_succ, Nat.mul_comm (L + 1) L]; omega
    simp only [weight, isFailed_fresh, Bool.false_eq_true, ↓reduceIte, loopLen_eq]
    rw [Nat.mul_add 2, ih, e0, Nat.mul_add fs.length, Nat.mul_left_comm fs.length 2, Nat.mul_comm fs.length (L + 1)]

/-- **C14, the cost of `recursiveCheck`**: for every list of handler functions — whatever they
    accept — and every list of `n` values, the memoised search invokes a handler at most
    `len(funcs) · n(n+1)/2` times -/
theorem recursiveCheck_calls_le (fs : List (Bytes → Bool)) (value : List Bytes) :
    2 * (recursiveCheck fs value).2 ≤ fs.length * (value.length * (value.length + 1)) := by
  unfold recursiveCheck
  simp only
  have hfresh : value.length < (RC.fresh value.length).failed.length := by simp [RC.fresh]
  obtain ⟨_, hf, ht⟩ := recFrom_spec fs (value.length + 1) value (RC.fresh value.length) (by omega) hfresh
  have hw := weight_fresh fs value.length value.length
  have hc : (RC.fresh value.length).calls = 0 := rfl
  cases hr : (recFrom fs (value.length + 1) value (RC.fresh value.length)).1 with
  | true => have := ht hr; omega
  | false => have := hf hr; omega

/-- non-vacuity and a worst case: two handlers that accept every group except those holding the
    last value — 5 values make the search fail after exactly 2·(5+4+3+2+1) = 30 invocations
    (without the `failed` table it would take 2·(2·3⁴) − … many more) -/
example :
    let acc : Bytes → Bool := fun g => !(g.contains 122)
    recursiveCheck [acc, acc] [b!"a", b!"b", b!"c", b!"d", b!"z"] = (false, 30) := by decide

/-! ### what the search decides -/

/-- `value` can be cut into consecutive non-empty groups each of which, joined by a space, is
    accepted -/
inductive Split (acc : Bytes → Bool) : List Bytes → Prop
  | last (g : List Bytes) (hg : g ≠ []) (h : acc (joinBytes [32] g) = true) : Split acc g
  | cons (g rest : List Bytes) (hg : g ≠ []) (hr : rest ≠ []) (h : acc (joinBytes [32] g) = true)
      (hs : Split acc rest) : Split acc (g ++ rest)

/-- every mark in the table is true of the suffix of `orig` of that length -/
def Truthful (acc : Bytes → Bool) (orig : List Bytes) (st : RC) : Prop :=
  ∀ s, s <:+ orig → st.isFailed s.length = true → ¬ Split acc s

theorem mem_rcPairs (n : Nat) (fs : List (Bytes → Bool)) (i : Nat) (j : Bytes → Bool) :
    (i, j) ∈ rcPairs n fs ↔ i < n ∧ j ∈ fs := by
  unfold rcPairs
  simp only [List.mem_flatMap, List.mem_range, List.mem_map, Prod.mk.injEq]
  constructor
  · rintro ⟨a, ha, b, hb, rfl, rfl⟩; exact ⟨ha, hb⟩
  · rintro ⟨h1, h2⟩; exact ⟨i, h1, j, h2, rfl, rfl⟩

theorem rcScan_decides (acc : Bytes → Bool) (orig : List Bytes) (rec : List Bytes → RC → Bool × RC)
    (value : List Bytes) (hv : value <:+ orig)
    (hrec : ∀ v st, v <:+ orig → v.length < value.length → Truthful acc orig st →
      Truthful acc orig (rec v st).2 ∧ ((rec v st).1 = true → Split acc v) ∧ ((rec v st).1 = false → ¬ Split acc v))
    (ps : List (Nat × (Bytes → Bool))) (hps : ∀ p ∈ ps, ∀ g, p.2 g = true → acc g = true)
    (hpi : ∀ p ∈ ps, p.1 < value.length) (st : RC) (hst : Truthful acc orig st) :
    Truthful acc orig (rcScan rec value ps st).2 ∧
    ((rcScan rec value ps st).1 = true → Split acc value) ∧
    ((rcScan rec value ps st).1 = false → ∀ p ∈ ps, p.2 (joinBytes [32] (value.take (p.1 + 1))) = true →
        (value.drop (p.1 + 1)).length ≠ 0 ∧ ¬ Split acc (value.drop (p.1 + 1))) := by
  induction ps generalizing st with
  | nil => exact ⟨hst, fun h => by simp [rcScan] at h, fun _ p hp => by simp at hp⟩
  | cons p rest ih =>
    obtain ⟨i, j⟩ := p
    have hps' : ∀ p ∈ rest, ∀ g, p.2 g = true → acc g = true := fun p hp => hps p (List.mem_cons_of_mem _ hp)
    have hpi' : ∀ p ∈ rest, p.1 < value.length := fun p hp => hpi p (List.mem_cons_of_mem _ hp)
    have hi : i < value.length := hpi (i, j) List.mem_cons_self
    have htake : value.take (i + 1) ≠ [] := by
      intro hnil
      have := congrArg List.length hnil
      simp only [List.length_take, List.length_nil] at this
      omega
    have htick : Truthful acc orig st.tick := hst
    unfold rcScan
    simp only
    split
    · rename_i hacc
      have haccg : acc (joinBytes [32] (value.take (i + 1))) = true := hps (i, j) List.mem_cons_self _ hacc
      split
      · -- nothing left: the whole of `value` is the last group
        rename_i hz
        refine ⟨htick, fun _ => ?_, fun h => by simp at h⟩
        have hd : value.drop (i + 1) = [] := List.eq_nil_of_length_eq_zero (eq_of_beq hz)
        have ht : value.take (i + 1) = value := by
          have := List.take_append_drop (i + 1) value
          rw [hd, List.append_nil] at this; exact this
        rw [ht] at haccg htake
        exact Split.last value htake haccg
      · rename_i hnz
        have hdl : (value.drop (i + 1)).length < value.length := by
          have : (value.drop (i + 1)).length ≠ 0 := by simpa using hnz
          simp only [List.length_drop] at this ⊢
          omega
        have hds : value.drop (i + 1) <:+ orig := List.IsSuffix.trans (List.drop_suffix _ _) hv
        obtain ⟨ht, hT, hF⟩ := hrec (value.drop (i + 1)) st.tick hds hdl htick
        cases hr : (rec (value.drop (i + 1)) st.tick).1 with
        | true =>
          simp only [↓reduceIte]
          refine ⟨ht, fun _ => ?_, fun h => by simp at h⟩
          have hsp := hT hr
          have hcat := List.take_append_drop (i + 1) value
          rw [← hcat]
          refine Split.cons _ _ htake ?_ haccg hsp
          intro hnil; rw [hnil] at hnz; simp at hnz
        | false =>
          simp only [Bool.false_eq_true, ↓reduceIte]
          obtain ⟨t2, T2, F2⟩ := ih hps' hpi' (rec (value.drop (i + 1)) st.tick).2 ht
          refine ⟨t2, T2, fun h p hp hpa => ?_⟩
          rcases List.mem_cons.mp hp with rfl | hp
          · exact ⟨by simpa using hnz, hF hr⟩
          · exact F2 h p hp hpa
    · rename_i hrej
      obtain ⟨t2, T2, F2⟩ := ih hps' hpi' st.tick htick
      refine ⟨t2, T2, fun h p hp hpa => ?_⟩
      rcases List.mem_cons.mp hp with rfl | hp
      · exact absurd hpa hrej
      · exact F2 h p hp hpa

theorem isFailed_markFailed_imp (st : RC) (n l : Nat) (h : (st.markFailed n).isFailed l = true) :
    l = n ∨ st.isFailed l = true := by
  unfold RC.markFailed RC.isFailed at *
  simp only [List.getD_eq_getElem?_getD, List.getElem?_set] at h ⊢
  by_cases hnl : n = l
  · exact .inl hnl.symm
  · simp only [hnl, ↓reduceIte] at h
    exact .inr h

theorem suffix_unique {α : Type} (orig s t : List α) (hs : s <:+ orig) (ht : t <:+ orig) (hl : s.length = t.length) :
    s = t := by
  obtain ⟨a, ha⟩ := hs
  obtain ⟨b, hb⟩ := ht
  exact (List.append_inj' (ha.trans hb.symm) hl).2

/-- **`recursiveCheckFrom` decides `Split`** on every suffix of the original list, and keeps the
    table truthful -/
theorem recFrom_decides (fs : List (Bytes → Bool)) (orig : List Bytes) (fuel : Nat) (value : List Bytes) (st : RC)
    (hv : value <:+ orig) (hfuel : value.length < fuel) (hst : Truthful (fun g => fs.any (· g)) orig st) :
    Truthful (fun g => fs.any (· g)) orig (recFrom fs fuel value st).2 ∧
    ((recFrom fs fuel value st).1 = true → Split (fun g => fs.any (· g)) value) ∧
    ((recFrom fs fuel value st).1 = false → ¬ Split (fun g => fs.any (· g)) value) := by
  induction fuel generalizing value st with
  | zero => omega
  | succ fuel ih =>
    unfold recFrom
    cases hfl : st.isFailed value.length with
    | true =>
      simp only [↓reduceIte]
      exact ⟨hst, fun h => by simp at h, fun _ => hst value hv hfl⟩
    | false =>
      simp only [Bool.false_eq_true, ↓reduceIte]
      have hrec : ∀ v s, v <:+ orig → v.length < value.length → Truthful (fun g => fs.any (· g)) orig s →
          Truthful (fun g => fs.any (· g)) orig (recFrom fs fuel v s).2 ∧
          ((recFrom fs fuel v s).1 = true → Split (fun g => fs.any (· g)) v) ∧
          ((recFrom fs fuel v s).1 = false → ¬ Split (fun g => fs.any (· g)) v) :=
        fun v s hvs hvl hs => ih v s hvs (by omega) hs
      have hps : ∀ p ∈ rcPairs value.length fs, ∀ g, p.2 g = true → (fun g => fs.any (· g)) g = true := by
        rintro ⟨i, j⟩ hp g hg
        have := ((mem_rcPairs _ _ _ _).mp hp).2
        simp only [List.any_eq_true]
        exact ⟨j, this, hg⟩
      have hpi : ∀ p ∈ rcPairs value.length fs, p.1 < value.length := by
        rintro ⟨i, j⟩ hp
        exact ((mem_rcPairs _ _ _ _).mp hp).1
      obtain ⟨t1, T1, F1⟩ := rcScan_decides _ orig (recFrom fs fuel) value hv hrec _ hps hpi st hst
      generalize rcScan (recFrom fs fuel) value (rcPairs value.length fs) st = R at t1 T1 F1 ⊢
      cases hr : R.1 with
      | true =>
        simp only [↓reduceIte]
        exact ⟨t1, fun _ => T1 hr, fun h => by rw [hr] at h; simp at h⟩
      | false =>
        simp only [Bool.false_eq_true, ↓reduceIte]
        have hno : ¬ Split (fun g => fs.any (· g)) value := by
          intro hsp
          have hF := F1 hr
          cases hsp with
          | last g hg h =>
            simp only [List.any_eq_true] at h
            obtain ⟨j, hj, hjg⟩ := h
            have hpos : 0 < value.length := List.length_pos_iff.mpr hg
            have hmem : (value.length - 1, j) ∈ rcPairs value.length fs := (mem_rcPairs _ _ _ _).mpr ⟨by omega, hj⟩
            have hidx : value.length - 1 + 1 = value.length := by omega
            have := hF _ hmem (by simp only [hidx, List.take_length]; exact hjg)
            simp only [hidx, List.drop_length, List.length_nil, ne_eq, not_true_eq_false, false_and] at this
          | cons g rest hg hrne h hs =>
            simp only [List.any_eq_true] at h
            obtain ⟨j, hj, hjg⟩ := h
            have hpos : 0 < g.length := List.length_pos_iff.mpr hg
            have hmem : (g.length - 1, j) ∈ rcPairs (g ++ rest).length fs :=
              (mem_rcPairs _ _ _ _).mpr ⟨by simp only [List.length_append]; omega, hj⟩
            have hidx : g.length - 1 + 1 = g.length := by omega
            have := hF _ hmem (by simp only [hidx, List.take_left']; exact hjg)
            simp only [hidx, List.drop_left'] at this
            exact this.2 hs
        refine ⟨?_, fun h => by simp at h, fun _ => hno⟩
        intro s hs hmark
        rcases isFailed_markFailed_imp _ _ _ hmark with hl | hold
        · rw [suffix_unique orig s value hs hv hl]; exact hno
        · exact t1 s hs hold

/-- **what `recursiveCheck` decides**: it returns true exactly when the values can be cut into
    consecutive non-empty groups each accepted (joined by a space) by one of the handlers — the
    `failed` table changes the cost, never the verdict -/
theorem recursiveCheck_iff (fs : List (Bytes → Bool)) (value : List Bytes) :
    (recursiveCheck fs value).1 = true ↔ Split (fun g => fs.any (· g)) value := by
  unfold recursiveCheck
  simp only
  have hfresh : Truthful (fun g => fs.any (· g)) value (RC.fresh value.length) := by
    intro s _ h
    rw [isFailed_fresh] at h; cases h
  obtain ⟨_, hT, hF⟩ := recFrom_decides fs value (value.length + 1) value (RC.fresh value.length)
    (List.suffix_refl _) (by omega) hfresh
  constructor
  · exact hT
  · intro hs
    cases hr : (recFrom fs (value.length + 1) value (RC.fresh value.length)).1 with
    | true => rfl
    | false => exact absurd hs (hF hr)

end BM.Golite
