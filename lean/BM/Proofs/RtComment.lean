import BM.Html
import BM.Proofs.RtDoc
/-
  Re-reading a rendered comment.  `Token.String` writes a comment as `<!--` + escapeComment(data) +
  `-->`; `escapeComment` turns every `>` that could end a comment early — the first byte, or one
  preceded by `-` or `!` — into `&gt;`.  `readComment_rendered`: the tokenizer's comment state
  machine, started on such a rendering, runs through the escaped data without stopping and ends
  exactly at the final `-->`, whatever follows.  `next_comment` lifts this to one call of
  `Tokenizer.Next`.  The data that comes back is `rereadComment d` (entities decoded again, CR
  turned into LF, NUL replaced): a comment token, not necessarily the same bytes — an exact round
  trip does not hold for comments (`<!--&#13;-->` is read as LF).
-/
namespace BM.Html

/-- no `>` of `s` could end a comment: each one has a byte before it (`q` before the first byte of
    `s`) that is neither `!` nor `-` -/
def NoTerm : Option UInt8 → Bytes → Prop
  | _, [] => True
  | q, c :: cs => (c = 62 → ∃ qb, q = some qb ∧ qb ≠ 33 ∧ qb ≠ 45) ∧ NoTerm (some c) cs

/-- `p` the last input byte `escapeCommentAux` has seen, `q` the last byte it has written -/
def EscRel : Option UInt8 → Option UInt8 → Prop
  | none, none => True
  | some pb, some qb => (qb = 33 ∨ qb = 45) → pb = qb
  | _, _ => False

theorem escapeComment_noTerm (s : Bytes) : ∀ p q, EscRel p q → NoTerm q (escapeCommentAux p s) := by
  induction s with
  | nil => intro p q _; simp [escapeCommentAux, NoTerm]
  | cons c cs ih =>
    intro p q hr
    unfold escapeCommentAux
    have hsemi : ∀ x : UInt8, EscRel (some x) (some 59) := by
      intro x h; rcases h with h | h <;> cases h
    by_cases h38 : c = 38
    · subst h38
      simp only [beq_self_eq_true, ↓reduceIte]
      show NoTerm q (38 :: 97 :: 109 :: 112 :: 59 :: escapeCommentAux (some 38) cs)
      simp only [NoTerm]
      refine ⟨fun h => absurd h (by decide), fun h => absurd h (by decide), fun h => absurd h (by decide), fun h => absurd h (by decide), fun h => absurd h (by decide), ih _ _ (hsemi 38)⟩
    · have h38' : (c == 38) = false := by simpa using h38
      simp only [h38', Bool.false_eq_true, ↓reduceIte]
      by_cases h62 : c = 62
      · subst h62
        simp only [beq_self_eq_true, ↓reduceIte]
        have hesc : NoTerm q (b!"&gt;" ++ escapeCommentAux (some 62) cs) := by
          show NoTerm q (38 :: 103 :: 116 :: 59 :: escapeCommentAux (some 62) cs)
          simp only [NoTerm]
          exact ⟨fun h => absurd h (by decide), fun h => absurd h (by decide), fun h => absurd h (by decide), fun h => absurd h (by decide), ih _ _ (hsemi 62)⟩
        cases p with
        | none => exact hesc
        | some pb =>
          simp only
          split
          · rename_i hpb
            simp only [Bool.and_eq_true, bne_iff_ne, ne_eq] at hpb
            cases q with
            | none => exact hr.elim
            | some qb =>
              have hq : qb ≠ 33 ∧ qb ≠ 45 := by
                constructor
                · intro h; have := hr (.inl h); rw [h] at this; exact hpb.1 this
                · intro h; have := hr (.inr h); rw [h] at this; exact hpb.2 this
              refine ⟨fun _ => ⟨qb, rfl, hq.1, hq.2⟩, ih _ _ ?_⟩
              intro h; rcases h with h | h <;> cases h
          · exact hesc
      · have h62' : (c == 62) = false := by simpa using h62
        simp only [h62', Bool.false_eq_true, ↓reduceIte]
        refine ⟨fun h => absurd h h62, ih _ _ ?_⟩
        intro _; rfl

theorem readComment_terminator (all rest : Bytes) (pos dash : Nat) (beg : Bool) (fuel : Nat) (hf : 3 ≤ fuel) :
    readCommentAux all fuel (45 :: 45 :: 62 :: rest) pos dash beg = (all.take pos, rest) := by
  match fuel, hf with
  | f + 3, _ =>
    simp [readCommentAux]

/-- **the comment state machine on a rendered comment**: it consumes exactly the escaped data and
    the final `-->` -/
theorem readComment_rendered : ∀ (n : Nat) (s : Bytes), s.length ≤ n →
    ∀ (pre rest : Bytes) (q : Option UInt8) (dash : Nat) (beg : Bool) (fuel : Nat),
      NoTerm q s → (0 < dash → q = some 45) → (beg = true → q = none ∨ q = some 45) →
      s.length + 4 ≤ fuel →
      readCommentAux (pre ++ (s ++ (45 :: 45 :: 62 :: rest))) fuel (s ++ (45 :: 45 :: 62 :: rest)) pre.length dash beg =
        (pre ++ s, rest) := by
  intro n
  induction n using Nat.strongRecOn with
  | _ n ih =>
    intro s hn pre rest q dash beg fuel hnt hd hb hf
    cases s with
    | nil =>
      simp only [List.nil_append, List.append_nil]
      rw [readComment_terminator _ _ _ _ _ _ (by simp at hf; omega)]
      simp
    | cons c cs =>
      have hfuel : ∃ f, fuel = f + 1 := ⟨fuel - 1, by simp at hf; omega⟩
      obtain ⟨f, rfl⟩ := hfuel
      have hassoc : ∀ (x : Bytes) (t : Bytes), pre ++ (x ++ t) = (pre ++ x) ++ t := fun x t => (List.append_assoc _ _ _).symm
      simp only [List.cons_append]
      unfold readCommentAux
      obtain ⟨hc62, hnt'⟩ := hnt
      by_cases h45 : c = 45
      · subst h45
        simp only [beq_self_eq_true, ↓reduceIte]
        have := ih cs.length (by simp at hn; omega) cs (Nat.le_refl _) (pre ++ [45]) rest (some 45) (dash + 1) beg f hnt'
          (fun _ => rfl) (fun _ => .inr rfl) (by simp at hf; omega)
        simp only [List.length_append, List.length_singleton, List.append_assoc, List.singleton_append] at this
        exact this
      · have h45' : (c == 45) = false := by simpa using h45
        simp only [h45', Bool.false_eq_true, ↓reduceIte]
        -- the continuation shared by "an ordinary byte": dash 0, no longer at the beginning
        have hcont : readCommentAux (pre ++ c :: (cs ++ 45 :: 45 :: 62 :: rest)) f (cs ++ 45 :: 45 :: 62 :: rest)
            (pre.length + 1) 0 false = (pre ++ c :: cs, rest) := by
          have := ih cs.length (by simp at hn; omega) cs (Nat.le_refl _) (pre ++ [c]) rest (some c) 0 false f hnt'
            (fun h => absurd h (Nat.lt_irrefl 0)) (fun h => by cases h) (by simp at hf; omega)
          simp only [List.length_append, List.length_singleton, List.append_assoc, List.singleton_append] at this
          exact this
        by_cases h62 : c = 62
        · subst h62
          obtain ⟨qb, hq, hq33, hq45⟩ := hc62 rfl
          have hdash : dash = 0 := by
            cases dash with
            | zero => rfl
            | succ d => have := hd (Nat.succ_pos d); rw [hq] at this; cases this; exact absurd rfl hq45
          have hbeg : beg = false := by
            cases beg with
            | false => rfl
            | true =>
              rcases hb rfl with h | h
              · rw [hq] at h; cases h
              · rw [hq] at h; cases h; exact absurd rfl hq45
          subst hdash; subst hbeg
          simp only [beq_self_eq_true, ↓reduceIte, ge_iff_le, Nat.not_succ_le_zero, decide_false, Bool.or_self,
            Bool.false_eq_true]
          exact hcont
        · have h62' : (c == 62) = false := by simpa using h62
          simp only [h62', Bool.false_eq_true, ↓reduceIte]
          by_cases hbang : c = 33 ∧ 2 ≤ dash
          · obtain ⟨h33, hd2⟩ := hbang
            subst h33
            simp only [beq_self_eq_true, ge_iff_le, hd2, decide_true, Bool.and_self, ↓reduceIte]
            cases cs with
            | nil =>
              -- the `!` is the last byte of the data: the look-ahead takes the first `-` of the terminator
              simp only [List.nil_append]
              have hf3 : ∃ g, f = g + 2 := ⟨f - 2, by simp at hf; omega⟩
              obtain ⟨g, rfl⟩ := hf3
              simp [readCommentAux, List.take_append]
              exact List.take_of_length_le (by omega)
            | cons c2 cs2 =>
              simp only [List.cons_append]
              obtain ⟨hc2, hnt2⟩ := hnt'
              have hc2ne : c2 ≠ 62 := by
                intro h
                obtain ⟨qb, hqb, hne, _⟩ := hc2 h
                cases hqb; exact hne rfl
              have hc2' : (c2 == 62) = false := by simpa using hc2ne
              simp only [hc2', Bool.false_eq_true, ↓reduceIte]
              by_cases hc245 : c2 = 45
              · subst hc245
                simp only [beq_self_eq_true, ↓reduceIte]
                have := ih cs2.length (by simp at hn; omega) cs2 (Nat.le_refl _) (pre ++ [33, 45]) rest (some 45) 1 false f hnt2
                  (fun _ => rfl) (fun h => by cases h) (by simp at hf; omega)
                simp only [List.length_append, List.length_cons, List.length_nil, List.append_assoc, List.cons_append,
                  List.nil_append] at this
                exact this
              · have hc245' : (c2 == 45) = false := by simpa using hc245
                simp only [hc245', Bool.false_eq_true, ↓reduceIte]
                have := ih cs2.length (by simp at hn; omega) cs2 (Nat.le_refl _) (pre ++ [33, c2]) rest (some c2) 0 false f hnt2
                  (fun h => absurd h (Nat.lt_irrefl 0)) (fun h => by cases h) (by simp at hf; omega)
                simp only [List.length_append, List.length_cons, List.length_nil, List.append_assoc, List.cons_append,
                  List.nil_append] at this
                exact this
          · have hb' : (c == 33 && decide (dash ≥ 2)) = false := by
              cases hc : (c == 33) with
              | false => rfl
              | true =>
                have : c = 33 := by simpa using hc
                have hlt : ¬ 2 ≤ dash := fun h => hbang ⟨this, h⟩
                simp [hlt]
            simp only [hb', Bool.false_eq_true, ↓reduceIte]
            exact hcont

/-- the data of a comment as the tokenizer hands it back after a render / tokenize round trip -/
def rereadComment (d : Bytes) : Bytes := textData (escapeComment d) true false

/-- **one call of `Tokenizer.Next` on a rendered comment** -/
theorem next_comment (d rest : Bytes) :
    next [] (b!"<!--" ++ escapeComment d ++ b!"-->" ++ rest) = some (⟨.comment, rereadComment d, []⟩, [], rest) ∧
    isMarkupStart (b!"<!--" ++ escapeComment d ++ b!"-->" ++ rest) = true := by
  have hshape : b!"<!--" ++ escapeComment d ++ b!"-->" ++ rest =
      60 :: 33 :: 45 :: 45 :: (escapeComment d ++ (45 :: 45 :: 62 :: rest)) := by
    simp [List.append_assoc]
  rw [hshape]
  refine ⟨?_, by simp [isMarkupStart]⟩
  have hrc : readComment (escapeComment d ++ (45 :: 45 :: 62 :: rest)) = (escapeComment d, rest) := by
    unfold readComment
    have := readComment_rendered (escapeComment d).length (escapeComment d) (Nat.le_refl _) [] rest none 0 true
      ((escapeComment d ++ (45 :: 45 :: 62 :: rest)).length + 1)
      (escapeComment_noTerm d none none trivial) (fun h => absurd h (Nat.lt_irrefl 0)) (fun _ => .inl rfl)
      (by simp only [List.length_append, List.length_cons]; omega)
    simpa using this
  have hst : scanText (60 :: 33 :: 45 :: 45 :: (escapeComment d ++ (45 :: 45 :: 62 :: rest))) =
      ([], 60 :: 33 :: 45 :: 45 :: (escapeComment d ++ (45 :: 45 :: 62 :: rest))) := by
    simp [scanText, isMarkupStart]
  unfold next
  simp only [List.isEmpty_cons, Bool.false_eq_true, ↓reduceIte, List.isEmpty_nil, hst, Bool.not_true]
  have hal : isAlpha 33 = false := by decide
  simp only [hal, Bool.false_eq_true, ↓reduceIte]
  have h1 : ((33 : UInt8) == 47) = false := by decide
  simp only [h1, Bool.false_eq_true, ↓reduceIte, beq_self_eq_true]
  simp only [readMarkupDeclaration, beq_self_eq_true, Bool.and_self, ↓reduceIte, hrc, rereadComment]
  rfl

/-! ### the document-level round trip with comments -/

/-- a token the round trip with comments covers: what `SegOK` covers, and comments -/
def SegOKC (t : Token) : Prop := SegOK t ∨ t.tt = .comment

/-- a token as it is read back: comments get their data re-read, everything else is unchanged -/
def reread (t : Token) : Token :=
  if t.tt == .comment then ⟨.comment, rereadComment t.data, []⟩ else t

theorem reread_tt (t : Token) : (reread t).tt = t.tt := by
  obtain ⟨tt, d, a⟩ := t
  cases tt <;> rfl

theorem reread_of_ne (t : Token) (h : t.tt ≠ .comment) : reread t = t := by
  unfold reread
  have : (t.tt == TT.comment) = false := by
    revert h; cases t.tt <;> intro h <;> first | rfl | exact absurd rfl h
  simp [this]

theorem next_tagC (t : Token) (hk : t.tt ≠ .text) (hok : SegOKC t) (rest : Bytes) :
    next [] (t.render ++ rest) = some (reread t, [], rest) ∧ isMarkupStart (t.render ++ rest) = true := by
  by_cases hc : t.tt = .comment
  · have hr : t.render = b!"<!--" ++ escapeComment t.data ++ b!"-->" := by simp [Token.render, hc]
    have hrr : reread t = ⟨.comment, rereadComment t.data, []⟩ := by
      unfold reread; rw [hc]; rfl
    rw [hr, hrr]
    exact next_comment t.data rest
  · rcases hok with h | h
    · rw [reread_of_ne t hc]; exact next_tag t hk h rest
    · exact absurd h hc

/-- **RT with comments**: the tokenizer reads the serialisation of a token list of texts, plain tags
    and comments back token by token, adjacent texts merged, comment data re-read -/
theorem tokenizeAux_renderedC (ts : List Token) (hok : ∀ t ∈ ts, SegOKC t) :
    ∀ (d : Bytes) (fuel : Nat), (escape d ++ renderAll ts).length < fuel →
      tokenizeAux fuel [] (escape d ++ renderAll ts) = coalesce d (ts.map reread) := by
  induction ts with
  | nil =>
    intro d fuel hf
    have := tokenizeAux_rendered [] (fun _ h => by simp at h) d fuel hf
    simpa using this
  | cons t ts ih =>
    intro d fuel hf
    have hts : ∀ x ∈ ts, SegOKC x := fun x hx => hok x (by simp [hx])
    by_cases hk : t.tt = .text
    · have hr : t.render = escape t.data := by simp [Token.render, hk]
      have he : escape d ++ renderAll (t :: ts) = escape (d ++ t.data) ++ renderAll ts := by
        simp [renderAll, hr, escape_append, List.append_assoc]
      rw [he] at hf ⊢
      have hrt : reread t = t := reread_of_ne t (by rw [hk]; decide)
      simp only [List.map_cons, hrt, coalesce, hk]
      exact ih hts _ _ hf
    · obtain ⟨hnext, hms⟩ := next_tagC t hk (hok t (by simp)) (renderAll ts)
      have hpos := render_tag_length_pos t hk
      have hne : ((reread t).tt == TT.text) = false := by
        rw [reread_tt]
        revert hk; cases t.tt <;> intro hk <;> first | rfl | exact absurd rfl hk
      have htag : ∀ k, (t.render ++ renderAll ts).length < k + 1 →
          tokenizeAux (k + 1) [] (t.render ++ renderAll ts) = reread t :: coalesce [] (ts.map reread) := by
        intro k hk'
        simp only [tokenizeAux, hnext]
        have := ih hts [] k (by simp [escape] at hk' ⊢; omega)
        simpa [escape] using this
      simp only [List.map_cons, coalesce, hne, Bool.false_eq_true, ↓reduceIte, renderAll]
      cases fuel with
      | zero => simp at hf
      | succ k =>
        by_cases hd : d = []
        · subst hd
          simp only [escape, List.nil_append, flushText, List.isEmpty_nil, ↓reduceIte]
          exact htag k (by simpa [escape, renderAll] using hf)
        · have hnt := next_text d (t.render ++ renderAll ts) hd (.inr hms)
          simp only [tokenizeAux, hnt, flushText]
          have hdn : d.isEmpty = false := by cases d <;> simp_all
          simp only [hdn, Bool.false_eq_true, ↓reduceIte, List.cons_append, List.nil_append]
          have hel : 0 < (escape d).length := by
            cases h : escape d with
            | nil => exact absurd ((escape_nil_iff d).mp h) hd
            | cons c cs => simp
          have hf' : (escape d).length + ((t.render).length + (renderAll ts).length) < k + 1 := by
            simpa [renderAll, List.length_append] using hf
          cases k with
          | zero => omega
          | succ k' =>
            rw [htag k' (by simp only [List.length_append]; omega)]

theorem tokenize_renderAllC (ts : List Token) (hok : ∀ t ∈ ts, SegOKC t) :
    tokenize (renderAll ts) = coalesce [] (ts.map reread) := by
  have := tokenizeAux_renderedC ts hok [] ((renderAll ts).length + 1) (by simp [escape])
  simpa [tokenize, escape] using this

end BM.Html
