import BM.Proofs.CssClean
import BM.Proofs.RegexLemmas
import BM.Golite
/-
  The two regexp methods of css/handlers.go that look inside a value — `FindString` and
  `ReplaceAll(value, "")` — and hostile bytes: when every rune a regexp can consume lies in an
  alphabet without hostile characters, what `FindString` returns is clean, and a value is clean as
  soon as what is left of it after deleting the matches is clean.
-/
namespace BM
open BM.Golite

/-- a rune that is not a hostile ASCII character -/
def RuneOK (c : Rune) : Prop := ∀ b : UInt8, hostile b = true → c ≠ b.toNat

theorem decodeRune_width_pos (b0 : UInt8) (rest : Bytes) : 1 ≤ (decodeRune (b0 :: rest)).2 := by
  by_cases h : b0.toNat < 0x80
  · rw [decodeRune_ascii b0 rest h]; exact Nat.le_refl 1
  · exact (decodeRune_nonascii b0 rest h).1

theorem decodeRune_width_le (b0 : UInt8) (rest : Bytes) : (decodeRune (b0 :: rest)).2 ≤ (b0 :: rest).length := by
  by_cases h : b0.toNat < 0x80
  · rw [decodeRune_ascii b0 rest h]; simp
  · exact (decodeRune_nonascii b0 rest h).2.1

theorem decodeRunesAux_succ_cons (n : Nat) (b0 : UInt8) (rest : Bytes) :
    decodeRunesAux (n + 1) (b0 :: rest) =
      (decodeRune (b0 :: rest)).1 :: decodeRunesAux n ((b0 :: rest).drop (decodeRune (b0 :: rest)).2) := rfl

theorem runesByteLen_succ_cons (n : Nat) (b0 : UInt8) (rest : Bytes) :
    Css.runesByteLen (n + 1) (b0 :: rest) =
      (decodeRune (b0 :: rest)).2 + Css.runesByteLen n ((b0 :: rest).drop (decodeRune (b0 :: rest)).2) := rfl

theorem runesByteLen_nil (n : Nat) : Css.runesByteLen n [] = 0 := by
  cases n <;> rfl

/-- the fuel of `decodeRunesAux` does not matter once it covers the string -/
theorem decodeRunesAux_fuel : ∀ (n m : Nat) (s : Bytes), s.length ≤ n → s.length ≤ m →
    decodeRunesAux n s = decodeRunesAux m s := by
  intro n
  induction n with
  | zero =>
    intro m s hn _
    have : s = [] := List.eq_nil_of_length_eq_zero (by omega)
    subst this
    cases m <;> simp [decodeRunesAux]
  | succ n ih =>
    intro m s hn hm
    cases s with
    | nil => cases m <;> simp [decodeRunesAux]
    | cons b0 rest =>
      cases m with
      | zero => simp at hm
      | succ m =>
        rw [decodeRunesAux_succ_cons, decodeRunesAux_succ_cons]
        have hw := decodeRune_width_pos b0 rest
        have hlen : ((b0 :: rest).drop (decodeRune (b0 :: rest)).2).length ≤ rest.length := by
          simp only [List.length_drop, List.length_cons]; omega
        simp only [List.length_cons] at hn hm
        rw [ih m _ (by omega) (by omega)]

theorem decodeRunes_cons (b0 : UInt8) (rest : Bytes) :
    decodeRunes (b0 :: rest) =
      (decodeRune (b0 :: rest)).1 :: decodeRunes ((b0 :: rest).drop (decodeRune (b0 :: rest)).2) := by
  unfold decodeRunes
  have hw := decodeRune_width_pos b0 rest
  simp only [List.length_cons]
  rw [decodeRunesAux_succ_cons]
  congr 1
  apply decodeRunesAux_fuel
  · simp only [List.length_drop, List.length_cons]; omega
  · exact Nat.le_refl _

theorem decodeRunes_nil : decodeRunes [] = [] := by simp [decodeRunes, decodeRunesAux]

/-- the bytes of the first `n` runes hold no hostile byte when those runes are none -/
theorem clean_take_runes : ∀ (n : Nat) (s : Bytes), (∀ c ∈ (decodeRunes s).take n, RuneOK c) →
    Clean (s.take (Css.runesByteLen n s)) := by
  intro n
  induction n with
  | zero => intro s _; simp [Css.runesByteLen, clean_nil]
  | succ n ih =>
    intro s h
    cases s with
    | nil => simp [runesByteLen_nil, clean_nil]
    | cons b0 rest =>
      rw [decodeRunes_cons] at h
      simp only [List.take_succ_cons, List.mem_cons, forall_eq_or_imp] at h
      obtain ⟨h0, hrest⟩ := h
      have hih := ih _ hrest
      rw [runesByteLen_succ_cons, List.take_add]
      apply clean_append.mpr
      refine ⟨?_, hih⟩
      -- the bytes of the first rune
      by_cases hasc : b0.toNat < 0x80
      · rw [decodeRune_ascii b0 rest hasc] at h0 ⊢
        simp only [List.take_succ_cons, List.take_zero]
        intro c hc
        simp only [List.mem_singleton] at hc
        subst hc
        cases hh : hostile c with
        | false => rfl
        | true => exact absurd rfl (h0 c hh)
      · obtain ⟨_, _, h3⟩ := decodeRune_nonascii b0 rest hasc
        intro c hc
        cases hh : hostile c with
        | false => rfl
        | true =>
          have := h3 c hc
          have := hostile_ascii hh
          omega

theorem runesByteLen_le : ∀ (n : Nat) (s : Bytes), Css.runesByteLen n s ≤ s.length := by
  intro n
  induction n with
  | zero => intro s; simp [Css.runesByteLen]
  | succ n ih =>
    intro s
    cases s with
    | nil => simp [runesByteLen_nil]
    | cons b0 rest =>
      rw [runesByteLen_succ_cons]
      have h1 := decodeRune_width_le b0 rest
      have h2 := ih ((b0 :: rest).drop (decodeRune (b0 :: rest)).2)
      simp only [List.length_drop] at h2
      omega

theorem runesByteLen_pos (n : Nat) (b0 : UInt8) (rest : Bytes) : 1 ≤ Css.runesByteLen (n + 1) (b0 :: rest) := by
  rw [runesByteLen_succ_cons]
  have := decodeRune_width_pos b0 rest
  omega

/-- decoding what follows the first `i` runes -/
theorem decodeRunes_drop : ∀ (i : Nat) (s : Bytes),
    decodeRunes (s.drop (Css.runesByteLen i s)) = (decodeRunes s).drop i := by
  intro i
  induction i with
  | zero => intro s; simp [Css.runesByteLen]
  | succ i ih =>
    intro s
    cases s with
    | nil => simp [runesByteLen_nil, decodeRunes_nil]
    | cons b0 rest =>
      rw [decodeRunes_cons, runesByteLen_succ_cons, List.drop_succ_cons, ← ih, List.drop_drop]

theorem runesByteLen_add : ∀ (i n : Nat) (s : Bytes),
    Css.runesByteLen (i + n) s = Css.runesByteLen i s + Css.runesByteLen n (s.drop (Css.runesByteLen i s)) := by
  intro i
  induction i with
  | zero => intro n s; simp [Css.runesByteLen]
  | succ i ih =>
    intro n s
    cases s with
    | nil => simp [runesByteLen_nil]
    | cons b0 rest =>
      have : i + 1 + n = (i + n) + 1 := by omega
      rw [this, runesByteLen_succ_cons, runesByteLen_succ_cons, ih, ← List.drop_drop]
      omega

/-! ### the alphabet of a regexp -/

/-- an alphabet that holds no hostile character -/
def InertAlphabet (al : List (Rune × Rune)) : Prop := ∀ b : UInt8, hostile b = true → Re.inRanges b.toNat al = false

theorem runeOK_of_mem {al : List (Rune × Rune)} (hal : InertAlphabet al) (c : Rune)
    (hc : Re.Alphabet.mem (some al) c = true) : RuneOK c := by
  intro b hb heq
  subst heq
  have := hal b hb
  simp only [Re.Alphabet.mem] at hc
  rw [this] at hc
  cases hc

/-- what a leftmost-first match consumes lies in the regexp's alphabet -/
theorem m_consumes (al : List (Rune × Rune)) (re : Re) (hw : Re.within (some al) re = true) (p : Option Rune)
    (s : List Rune) (rem : Nat) (h : (Re.m re p s fun _ rest => some rest.length) = some rem) :
    rem ≤ s.length ∧ ∀ c ∈ s.take (s.length - rem), Re.Alphabet.mem (some al) c = true := by
  obtain ⟨s1, s2, p', hs, hA, hk⟩ := Re.m_sound (some al) re hw p s _ rem h
  simp only [Option.some.injEq] at hk
  subst hk
  subst hs
  refine ⟨by simp, ?_⟩
  have : (s1 ++ s2).length - s2.length = s1.length := by simp
  rw [this, List.take_left']
  · exact hA
  · rfl

/-! ### ReplaceAll(value, "") -/

theorem clean_of_deleteAllAux (al : List (Rune × Rune)) (hal : InertAlphabet al) (re : Re)
    (hw : Re.within (some al) re = true) : ∀ (fuel : Nat) (prev : Option Rune) (s : Bytes), s.length < fuel →
      Clean (deleteAllAux re fuel prev s) → Clean s := by
  intro fuel
  induction fuel with
  | zero => intro prev s h; omega
  | succ fuel ih =>
    intro prev s hlen hcl
    cases s with
    | nil => exact clean_nil
    | cons b0 rest =>
      have hw1 := decodeRune_width_pos b0 rest
      have hkeep : ∀ prev', Clean ((b0 :: rest).take (decodeRune (b0 :: rest)).2 ++
          deleteAllAux re fuel prev' ((b0 :: rest).drop (decodeRune (b0 :: rest)).2)) → Clean (b0 :: rest) := by
        intro prev' h
        obtain ⟨h1, h2⟩ := clean_append.mp h
        have h3 := ih prev' _ (by simp only [List.length_drop, List.length_cons] at hlen ⊢; omega) h2
        rw [← List.take_append_drop (decodeRune (b0 :: rest)).2 (b0 :: rest)]
        exact clean_append.mpr ⟨h1, h3⟩
      unfold deleteAllAux at hcl
      simp only at hcl
      split at hcl
      · rename_i rem hm
        split at hcl
        · exact hkeep _ hcl
        · rename_i hn
          obtain ⟨_, hA⟩ := m_consumes al re hw prev _ rem hm
          have hnpos : 0 < (decodeRunes (b0 :: rest)).length - rem := by
            have : ¬ ((decodeRunes (b0 :: rest)).length - rem = 0) := by simpa using hn
            omega
          have hL : 1 ≤ Css.runesByteLen ((decodeRunes (b0 :: rest)).length - rem) (b0 :: rest) := by
            obtain ⟨k, hk⟩ := Nat.exists_eq_succ_of_ne_zero (Nat.pos_iff_ne_zero.mp hnpos)
            rw [hk]; exact runesByteLen_pos k b0 rest
          have h3 := ih _ _ (by simp only [List.length_drop, List.length_cons] at hlen ⊢; omega) hcl
          have h1 := clean_take_runes ((decodeRunes (b0 :: rest)).length - rem) (b0 :: rest)
            (fun c hc => runeOK_of_mem hal c (hA c hc))
          rw [← List.take_append_drop (Css.runesByteLen ((decodeRunes (b0 :: rest)).length - rem) (b0 :: rest)) (b0 :: rest)]
          exact clean_append.mpr ⟨h1, h3⟩
      · exact hkeep _ hcl

/-- **a value is clean when what is left of it after deleting the matches of an inert regexp is** -/
theorem clean_of_deleteAll (al : List (Rune × Rune)) (hal : InertAlphabet al) (re : Re)
    (hw : Re.within (some al) re = true) (s : Bytes) (h : Clean (deleteAll re s)) : Clean s :=
  clean_of_deleteAllAux al hal re hw (s.length + 1) none s (Nat.lt_succ_self _) h

/-! ### FindString -/

theorem findFrom_spec (al : List (Rune × Rune)) (re : Re) (hw : Re.within (some al) re = true) :
    ∀ (s : List Rune) (i : Nat) (p : Option Rune) (skip n : Nat), Re.findFrom re i p s = some (skip, n) →
      i ≤ skip ∧ ∀ c ∈ (s.drop (skip - i)).take n, Re.Alphabet.mem (some al) c = true := by
  intro s
  induction s with
  | nil =>
    intro i p skip n h
    simp only [Re.findFrom, Option.map_eq_some_iff, Prod.mk.injEq] at h
    obtain ⟨_, _, rfl, rfl⟩ := h
    exact ⟨Nat.le_refl _, by simp⟩
  | cons c cs ih =>
    intro i p skip n h
    unfold Re.findFrom at h
    split at h
    · rename_i rem hm
      simp only [Option.some.injEq, Prod.mk.injEq] at h
      obtain ⟨rfl, rfl⟩ := h
      obtain ⟨_, hA⟩ := m_consumes al re hw p _ rem hm
      exact ⟨Nat.le_refl _, by simpa using hA⟩
    · obtain ⟨h1, h2⟩ := ih (i + 1) (some c) skip n h
      refine ⟨by omega, ?_⟩
      have : skip - i = (skip - (i + 1)) + 1 := by omega
      rw [this, List.drop_succ_cons]
      exact h2

/-- **what `FindString` returns for an inert regexp is clean** -/
theorem clean_findString (al : List (Rune × Rune)) (hal : InertAlphabet al) (re : Re)
    (hw : Re.within (some al) re = true) (s : Bytes) : Clean (findString re s) := by
  unfold findString
  simp only
  split
  · exact clean_nil
  · rename_i skip n hf
    obtain ⟨_, hA⟩ := findFrom_spec al re hw (decodeRunes s) 0 none skip n hf
    simp only [Nat.sub_zero] at hA
    rw [runesByteLen_add]
    simp only [Nat.add_sub_cancel_left]
    apply clean_take_runes
    rw [decodeRunes_drop]
    exact fun c hc => runeOK_of_mem hal c (hA c hc)

end BM
