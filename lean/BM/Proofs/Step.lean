import BM.Sanitize
import BM.Spec.Oracles
/-
  One characterisation of what a single loop iteration can write, proved once by case
  analysis of `Policy.step`; the property theorems reason from it.
-/
namespace BM
open Html

/-- the possible write lists of one loop iteration -/
inductive Emit (p : Policy) (st : LoopState) (t : Token) : List Write → Prop where
  | nothing : Emit p st t []
  | space : p.addSpaces = true → Emit p st t [⟨[32]⟩]
  | comment : t.tt = .comment → p.allowComments = true → Emit p st t [⟨t.render⟩]
  | openTag (aps : AttrRules) (attrs : List Attr) :
      (t.tt = .start ∨ t.tt = .selfClosing) →
      p.attrRulesFor t.data = some aps →
      (isScriptOrStyle t.data && !p.allowUnsafe) = false →
      p.cleanAttrs t aps = some attrs →
      (attrs.isEmpty && !p.allowNoAttrs t.data) = false →
      st.skipElementContent = false →
      Emit p st t [⟨({ t with attrs := attrs } : Token).render⟩]
  | closeTag :
      t.tt = .end_ →
      (isScriptOrStyle t.data && !p.allowUnsafe) = false →
      (p.elsAndAttrs.contains t.data || p.elsMatchingAndAttrs.any fun (r, _) => r.test t.data) = true →
      Emit p st t [⟨t.render⟩]
  | text :
      t.tt = .text → st.skipElementContent = false →
      isScriptOrStyle st.mostRecentlyStartedToken = false → Emit p st t [⟨t.render⟩]
  | rawText :
      t.tt = .text → p.allowUnsafe = true → st.skipElementContent = false → Emit p st t [⟨t.data⟩]

theorem space_emit (p : Policy) (st : LoopState) (t : Token) : Emit p st t p.space := by
  unfold Policy.space
  split
  · exact .space (by assumption)
  · exact .nothing

theorem stepStart_emit (p : Policy) (st : LoopState) (t : Token) (htt : t.tt = .start)
    (st' : LoopState) (ws : List Write) (h : p.stepStart st t = some (st', ws)) : Emit p st t ws := by
  unfold Policy.stepStart at h
  simp only at h
  split at h
  · simp at h; obtain ⟨_, rfl⟩ := h; exact .nothing
  · rename_i hss
    split at h
    · simp at h; obtain ⟨_, rfl⟩ := h; exact space_emit p st t
    · rename_i aps haps
      split at h
      · simp at h
      · rename_i attrs hattrs
        split at h
        · simp at h; obtain ⟨_, rfl⟩ := h; exact space_emit p st t
        · rename_i hbare
          simp at h; obtain ⟨_, rfl⟩ := h
          unfold emitUnlessSkipping
          split
          · exact .nothing
          · rename_i hskip
            refine .openTag aps attrs (.inl htt) haps (by simpa using hss) hattrs (by simpa using hbare) ?_
            revert hskip; unfold markKept; split <;> simp

theorem stepSelfClosing_emit (p : Policy) (st : LoopState) (t : Token) (htt : t.tt = .selfClosing)
    (st' : LoopState) (ws : List Write) (h : p.stepSelfClosing st t = some (st', ws)) : Emit p st t ws := by
  unfold Policy.stepSelfClosing at h
  simp only at h
  split at h
  · simp at h; obtain ⟨_, rfl⟩ := h; exact .nothing
  · rename_i hss
    split at h
    · simp at h; obtain ⟨_, rfl⟩ := h; exact space_emit p st t
    · rename_i aps haps
      split at h
      · simp at h
      · rename_i attrs hattrs
        split at h
        · simp at h; obtain ⟨_, rfl⟩ := h; exact space_emit p st t
        · rename_i hbare
          simp at h; obtain ⟨_, rfl⟩ := h
          unfold emitUnlessSkipping
          split
          · exact .nothing
          · rename_i hskip
            exact .openTag aps attrs (.inr htt) haps (by simpa using hss) hattrs (by simpa using hbare)
              (by simpa using hskip)

theorem stepEnd_emit (p : Policy) (st : LoopState) (t : Token) (htt : t.tt = .end_)
    (st' : LoopState) (ws : List Write) (h : p.stepEnd st t = some (st', ws)) : Emit p st t ws := by
  unfold Policy.stepEnd at h
  generalize clearRecent st t.data = st1 at h
  simp only at h
  split at h
  · simp at h; obtain ⟨_, rfl⟩ := h; exact .nothing
  · rename_i hss
    split at h
    · simp at h
    · split at h
      · simp at h; obtain ⟨_, rfl⟩ := h; exact space_emit p st t
      · split at h
        · simp at h; obtain ⟨_, rfl⟩ := h; exact space_emit p st t
        · rename_i hallowed
          simp at h; obtain ⟨_, rfl⟩ := h
          unfold emitUnlessSkipping
          split
          · exact .nothing
          · refine .closeTag htt (by simpa using hss) ?_
            revert hallowed
            unfold Policy.patternEl Policy.explicitEl
            cases hc : p.elsAndAttrs.contains t.data <;> simp [hc]

theorem stepText_emit (p : Policy) (st : LoopState) (t : Token) (htt : t.tt = .text) :
    Emit p st t (p.stepText st t) := by
  unfold Policy.stepText
  split
  · exact .nothing
  · rename_i hskip
    split
    · split
      · exact .rawText htt (by assumption) (by simpa using hskip)
      · exact .nothing
    · rename_i hrecent
      exact .text htt (by simpa using hskip) (by simpa using hrecent)

theorem step_emit (p : Policy) (st : LoopState) (t : Token) (st' : LoopState) (ws : List Write)
    (h : p.step st t = some (st', ws)) : Emit p st t ws := by
  unfold Policy.step at h
  split at h
  · simp at h; obtain ⟨_, rfl⟩ := h; exact .nothing
  · rename_i htt
    simp at h; obtain ⟨_, rfl⟩ := h
    split
    · exact .comment htt (by assumption)
    · exact .nothing
  · rename_i htt; exact stepStart_emit p st t htt st' ws h
  · rename_i htt; exact stepEnd_emit p st t htt st' ws h
  · rename_i htt; exact stepSelfClosing_emit p st t htt st' ws h
  · rename_i htt
    simp at h; obtain ⟨_, rfl⟩ := h
    exact stepText_emit p st t htt

/-- the writes of a whole run, one `Emit` at a time -/
theorem run_emit (p : Policy) (ts : List Token) :
    ∀ st, ∀ w ∈ (p.run st ts).1, ∃ st0 t ws, t ∈ ts ∧ Emit p st0 t ws ∧ w ∈ ws := by
  induction ts with
  | nil => intro st w hw; simp [Policy.run] at hw
  | cons t ts ih =>
    intro st w hw
    unfold Policy.run at hw
    split at hw
    · simp at hw
    · rename_i st' ws hs
      simp only [List.mem_append] at hw
      rcases hw with hw | hw
      · exact ⟨st, t, ws, by simp, step_emit p st t st' ws hs, hw⟩
      · obtain ⟨st0, t', ws', ht', he, hw'⟩ := ih st' w hw
        exact ⟨st0, t', ws', by simp [ht'], he, hw'⟩

end BM
