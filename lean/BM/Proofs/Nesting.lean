import BM.Proofs.Step
import BM.Spec.Oracles
import BM.Props.C14
/-
  Whole-document reasoning about the token loop (C08, C09).

  The five state variables of the loop are a function of the *open elements* of a well-nested
  input, each annotated with what the loop decided at its start tag (`Fate`).  `Abs` is that
  abstraction relation; `start_*` / `end_*` show that a start tag pushes a frame and the
  matching end tag undoes exactly what the start tag did, whatever happened in between.
-/
namespace BM
open Html Spec

/-! ### allowed elements -/

def Policy.allowedEl (p : Policy) (n : Bytes) : Bool := p.explicitEl n || p.patternEl n

theorem attrRulesFor_none_iff (p : Policy) (n : Bytes) : p.attrRulesFor n = none ↔ p.allowedEl n = false := by
  unfold Policy.attrRulesFor Policy.allowedEl Policy.explicitEl Policy.patternEl Policy.explicitEl Map.contains
  cases hg : Map.get? p.elsAndAttrs n with
  | some a => simp
  | none =>
    simp only [Option.isSome_none, Bool.not_false, Bool.true_and, Bool.false_or]
    unfold Policy.matchRegex
    simp only
    constructor
    · intro h
      split at h
      · rename_i he
        rw [List.isEmpty_iff] at he
        cases ha : p.elsMatchingAndAttrs.any fun (r, _) => r.test n with
        | false => rfl
        | true =>
          obtain ⟨x, hx, hxt⟩ := List.any_eq_true.mp ha
          have : x ∈ p.elsMatchingAndAttrs.filter fun (r, _) => r.test n := List.mem_filter.mpr ⟨hx, hxt⟩
          rw [he] at this; simp at this
      · simp at h
    · intro h
      split
      · rfl
      · rename_i he
        exfalso
        simp only [List.isEmpty_iff] at he
        obtain ⟨x, hx⟩ := List.exists_mem_of_ne_nil _ he
        simp only [List.mem_filter] at hx
        have : (p.elsMatchingAndAttrs.any fun (r, _) => r.test n) = true := List.any_eq_true.mpr ⟨x, hx.1, hx.2⟩
        rw [h] at this; cases this

theorem attrRulesFor_some_allowed {p : Policy} {n : Bytes} {aps : AttrRules} (h : p.attrRulesFor n = some aps) :
    p.allowedEl n = true := by
  cases ha : p.allowedEl n with
  | true => rfl
  | false => rw [(attrRulesFor_none_iff p n).mpr ha] at h; cases h

theorem voidElements_eq (n : Bytes) : voidElements.contains n = isVoidElement n := by
  have hd : ∀ l : Bytes, decide (n = l) = (n == l) := fun l => by
    cases h : n == l <;> simp_all
  simp [voidElements, isVoidElement, Bool.or_assoc]
  simp only [hd]

/-! ### frames -/

inductive Fate where
  /-- script / style without AllowUnsafe: both tags vanish -/
  | hidden
  /-- disallowed element; `skip`: it is in the skip-content set (counted) -/
  | dis (skip : Bool)
  /-- allowed element dropped for lack of attributes: its name is on the stack -/
  | bare
  /-- allowed element that is kept; `marker`: a marker was pushed; `shown`: its tags are written -/
  | kept (marker shown : Bool)

structure Frame where
  name : Bytes
  fate : Fate

/-- `closingTagToSkipStack` as a function of the open elements (top first) -/
def ctsOf : List Frame → List Bytes
  | [] => []
  | f :: fs =>
    match f.fate with
    | .bare => f.name :: ctsOf fs
    | .kept true _ => (47 :: f.name) :: ctsOf fs
    | _ => ctsOf fs

/-- `skippingElementsCount` -/
def countOf : List Frame → Nat
  | [] => 0
  | f :: fs =>
    match f.fate with
    | .dis true => countOf fs + 1
    | _ => countOf fs

/-- the open elements of the output -/
def outStack : List Frame → List Bytes
  | [] => []
  | f :: fs =>
    match f.fate with
    | .kept _ true => f.name :: outStack fs
    | _ => outStack fs

def hiddenEl (p : Policy) (n : Bytes) : Bool := isScriptOrStyle n && !p.allowUnsafe

def FrameOK (p : Policy) (f : Frame) (below : List Frame) : Prop :=
  f.name.head? ≠ some 47 ∧ isVoidElement f.name = false ∧
  match f.fate with
  | .hidden => hiddenEl p f.name = true
  | .dis s => hiddenEl p f.name = false ∧ p.allowedEl f.name = false ∧
      s = p.setOfElementsToSkipContent.contains f.name
  | .bare => hiddenEl p f.name = false ∧ p.allowedEl f.name = true
  | .kept m sh => hiddenEl p f.name = false ∧ p.allowedEl f.name = true ∧
      m = (ctsOf below).contains f.name ∧ sh = (countOf below == 0)

inductive FramesOK (p : Policy) : List Frame → Prop where
  | nil : FramesOK p []
  | cons (f : Frame) (fs : List Frame) : FrameOK p f fs → FramesOK p fs → FramesOK p (f :: fs)

/-- the loop state is the abstraction of the open elements -/
structure Abs (p : Policy) (fs : List Frame) (st : LoopState) : Prop where
  ok : FramesOK p fs
  cts : st.closingTagToSkipStack = ctsOf fs
  flag : st.skipClosingTag = !(ctsOf fs).isEmpty
  count : st.skippingElementsCount = (countOf fs : Int)
  skip : st.skipElementContent = (countOf fs != 0)

theorem abs_init (p : Policy) : Abs p [] {} := ⟨.nil, rfl, rfl, rfl, rfl⟩

/-- a plain entry of the stack is the name of an open bare element, which is allowed -/
theorem mem_ctsOf_plain {p : Policy} : ∀ {fs : List Frame}, FramesOK p fs → ∀ x ∈ ctsOf fs,
    x.head? ≠ some 47 → p.allowedEl x = true
  | [], _, x, hx, _ => by simp [ctsOf] at hx
  | f :: fs, hok, x, hx, hne => by
    cases hok with
    | cons _ _ hf hfs =>
      obtain ⟨_, _, hfate⟩ := hf
      unfold ctsOf at hx
      split at hx
      · rename_i hb
        rw [hb] at hfate
        simp only [List.mem_cons] at hx
        rcases hx with rfl | hx
        · exact hfate.2
        · exact mem_ctsOf_plain hfs x hx hne
      · simp only [List.mem_cons] at hx
        rcases hx with rfl | hx
        · simp at hne
        · exact mem_ctsOf_plain hfs x hx hne
      · exact mem_ctsOf_plain hfs x hx hne

/-- a marker on the stack has its plain name further down -/
theorem mem_ctsOf_marker {p : Policy} : ∀ {fs : List Frame}, FramesOK p fs → ∀ n : Bytes,
    (47 :: n) ∈ ctsOf fs → n ∈ ctsOf fs
  | [], _, n, hx => by simp [ctsOf] at hx
  | f :: fs, hok, n, hx => by
    cases hok with
    | cons _ _ hf hfs =>
      obtain ⟨hhead, _, hfate⟩ := hf
      unfold ctsOf at hx ⊢
      split at hx
      · rename_i hb
        simp only [List.mem_cons] at hx ⊢
        rcases hx with h | hx
        · rw [← h] at hhead; simp at hhead
        · exact .inr (mem_ctsOf_marker hfs n hx)
      · rename_i sh hk
        rw [hk] at hfate
        simp only [List.mem_cons] at hx ⊢
        rcases hx with h | hx
        · simp only [List.cons.injEq, true_and] at h
          subst h
          have := hfate.2.2.1
          exact .inr (by simpa using this.symm)
        · exact .inr (mem_ctsOf_marker hfs n hx)
      · exact mem_ctsOf_marker hfs n hx

/-! ### what one iteration writes, as tokens -/

def TokBytes (ws : List Write) (toks : List Token) : Prop := ws.map (·.data) = toks.map Token.render

/-- tokens that do not touch the nesting: anything but start and end tags -/
def NonTag (toks : List Token) : Prop := ∀ k ∈ toks, k.tt ≠ .start ∧ k.tt ≠ .end_


/-- where a written token comes from: the added space, the input token itself (a text, an end
    tag, an allowed comment), or the input tag with its cleaned attribute list -/
def Prov (p : Policy) (t k : Token) : Prop :=
  (k = ⟨.text, [32], []⟩ ∧ p.addSpaces = true) ∨
  (k = t ∧ (t.tt = .text ∨ t.tt = .end_ ∨ (t.tt = .comment ∧ p.allowComments = true))) ∨
  (∃ aps attrs, p.attrRulesFor t.data = some aps ∧ p.cleanAttrs t aps = some attrs ∧
    k = { t with attrs := attrs } ∧ (t.tt = .start ∨ t.tt = .selfClosing))

theorem prov_nil (p : Policy) (t : Token) : ∀ k ∈ ([] : List Token), Prov p t k := by intro k hk; simp at hk

/-- the writes of one iteration on token `t` are the serialisation of `toks`, each of which
    comes from `t` -/
def TokWrites (p : Policy) (t : Token) (ws : List Write) (toks : List Token) : Prop :=
  TokBytes ws toks ∧ ∀ k ∈ toks, Prov p t k

theorem tokWrites_nil (p : Policy) (t : Token) : TokWrites p t [] [] := ⟨rfl, prov_nil p t⟩

theorem tokWrites_one (p : Policy) (t k : Token) (h : Prov p t k) : TokWrites p t [⟨k.render⟩] [k] :=
  ⟨by unfold TokBytes; simp, by intro x hx; simp at hx; subst hx; exact h⟩

theorem tokWrites_space (p : Policy) (t : Token) :
    ∃ toks, TokWrites p t p.space toks ∧ NonTag toks := by
  unfold Policy.space
  split
  · exact ⟨[⟨.text, [32], []⟩], ⟨by unfold TokBytes; decide, by intro k hk; simp at hk; subst hk; exact .inl ⟨rfl, by assumption⟩⟩,
      by intro k hk; simp at hk; subst hk; exact ⟨by decide, by decide⟩⟩
  · exact ⟨[], tokWrites_nil p t, by intro k hk; simp at hk⟩

/-- the writes of a run over `ts` are the serialisation of `toks`, each coming from a token of `ts` -/
def RunWrites (p : Policy) (ts : List Token) (ws : List Write) (toks : List Token) : Prop :=
  TokBytes ws toks ∧ ∀ k ∈ toks, ∃ t ∈ ts, Prov p t k

theorem runWrites_cons {p : Policy} {t : Token} {ts : List Token} {w1 w2 : List Write} {t1 t2 : List Token}
    (h1 : TokWrites p t w1 t1) (h2 : RunWrites p ts w2 t2) : RunWrites p (t :: ts) (w1 ++ w2) (t1 ++ t2) := by
  refine ⟨by have a := h1.1; have b := h2.1; unfold TokBytes at *; simp [a, b], ?_⟩
  intro k hk
  simp only [List.mem_append] at hk
  rcases hk with h | h
  · exact ⟨t, by simp, h1.2 k h⟩
  · obtain ⟨t', ht', hp⟩ := h2.2 k h
    exact ⟨t', by simp [ht'], hp⟩

theorem wn_nontag_append : ∀ (a b : List Token) (S : List Bytes), NonTag a →
    wellNestedAux S (a ++ b) = wellNestedAux S b
  | [], b, S, _ => rfl
  | k :: a, b, S, h => by
    have hk := h k (by simp)
    have ih := wn_nontag_append a b S (fun x hx => h x (by simp [hx]))
    simp only [List.cons_append, wellNestedAux]
    cases htt : k.tt <;> simp_all

/-! ### preservation of the abstraction -/

theorem abs_recent {p : Policy} {fs : List Frame} {st : LoopState} (h : Abs p fs st) (x : Bytes) :
    Abs p fs { st with mostRecentlyStartedToken := x } := ⟨h.ok, h.cts, h.flag, h.count, h.skip⟩

theorem abs_clearRecent {p : Policy} {fs : List Frame} {st : LoopState} (h : Abs p fs st) (x : Bytes) :
    Abs p fs (clearRecent st x) := by
  unfold clearRecent; split
  · exact abs_recent h []
  · exact h

/-- a void element changes nothing the abstraction sees -/
theorem enterSkip_void (p : Policy) (st : LoopState) (el : Bytes) (hv : isVoidElement el = true) :
    p.enterSkip st el = st := by simp [Policy.enterSkip, hv]
theorem pushDropped_void (st : LoopState) (el : Bytes) (hv : isVoidElement el = true) : pushDropped st el = st := by
  simp [pushDropped, hv]
theorem markKept_void (st : LoopState) (el : Bytes) (hv : isVoidElement el = true) : markKept st el = st := by
  simp [markKept, hv]

theorem abs_hidden {p : Policy} {fs : List Frame} {st : LoopState} (h : Abs p fs st) (n : Bytes)
    (hn : n.head? ≠ some 47) (hv : isVoidElement n = false) (hh : hiddenEl p n = true) :
    Abs p (⟨n, .hidden⟩ :: fs) st :=
  ⟨.cons _ _ ⟨hn, hv, hh⟩ h.ok, h.cts, h.flag, h.count, h.skip⟩

theorem abs_dis {p : Policy} {fs : List Frame} {st : LoopState} (h : Abs p fs st) (n : Bytes)
    (hn : n.head? ≠ some 47) (hv : isVoidElement n = false) (hh : hiddenEl p n = false)
    (ha : p.allowedEl n = false) :
    Abs p (⟨n, .dis (p.setOfElementsToSkipContent.contains n)⟩ :: fs) (p.enterSkip st n) := by
  have hok : FramesOK p (⟨n, .dis (p.setOfElementsToSkipContent.contains n)⟩ :: fs) :=
    .cons _ _ ⟨hn, hv, hh, ha, rfl⟩ h.ok
  unfold Policy.enterSkip
  cases hc : p.setOfElementsToSkipContent.contains n with
  | false =>
    simp only [Bool.false_and, Bool.false_eq_true, ↓reduceIte]
    rw [hc] at hok
    exact ⟨hok, h.cts, h.flag, h.count, h.skip⟩
  | true =>
    simp only [hv, Bool.not_false, Bool.and_self, ↓reduceIte]
    rw [hc] at hok
    refine ⟨hok, h.cts, h.flag, ?_, ?_⟩
    · simp only [countOf]; rw [h.count]; simp
    · simp [countOf]

theorem abs_bare {p : Policy} {fs : List Frame} {st : LoopState} (h : Abs p fs st) (n : Bytes)
    (hn : n.head? ≠ some 47) (hv : isVoidElement n = false) (hh : hiddenEl p n = false)
    (ha : p.allowedEl n = true) :
    Abs p (⟨n, .bare⟩ :: fs) (pushDropped st n) := by
  unfold pushDropped
  simp only [hv, Bool.false_eq_true, ↓reduceIte]
  exact ⟨.cons _ _ ⟨hn, hv, hh, ha⟩ h.ok, by simp [ctsOf, h.cts], by simp [ctsOf], h.count, h.skip⟩

theorem abs_kept {p : Policy} {fs : List Frame} {st : LoopState} (h : Abs p fs st) (n : Bytes)
    (hn : n.head? ≠ some 47) (hv : isVoidElement n = false) (hh : hiddenEl p n = false)
    (ha : p.allowedEl n = true) :
    Abs p (⟨n, .kept ((ctsOf fs).contains n) (countOf fs == 0)⟩ :: fs) (markKept st n) := by
  have hok : FramesOK p (⟨n, .kept ((ctsOf fs).contains n) (countOf fs == 0)⟩ :: fs) :=
    .cons _ _ ⟨hn, hv, hh, ha, rfl, rfl⟩ h.ok
  unfold markKept
  cases hc : (ctsOf fs).contains n with
  | false =>
    have : (st.skipClosingTag && !isVoidElement n && st.closingTagToSkipStack.contains n) = false := by
      rw [h.cts, hc]; simp
    simp only [this, Bool.false_eq_true, ↓reduceIte]
    rw [hc] at hok
    exact ⟨hok, by simp [ctsOf, h.cts], by simp [ctsOf, h.flag], by simp [countOf, h.count], by simp [countOf, h.skip]⟩
  | true =>
    have hne : (ctsOf fs).isEmpty = false := by
      cases hl : ctsOf fs with
      | nil => rw [hl] at hc; simp at hc
      | cons _ _ => rfl
    have : (st.skipClosingTag && !isVoidElement n && st.closingTagToSkipStack.contains n) = true := by
      rw [h.cts, hc, h.flag, hne, hv]; rfl
    simp only [this, ↓reduceIte]
    rw [hc] at hok
    exact ⟨hok, by simp [ctsOf, h.cts], by simp [ctsOf, h.flag, hne], by simp [countOf, h.count], by simp [countOf, h.skip]⟩

/-! ### one iteration, seen through the abstraction -/

theorem outStack_not_shown (f : Frame) (fs : List Frame) (h : ∀ m, f.fate ≠ .kept m true) :
    outStack (f :: fs) = outStack fs := by
  obtain ⟨n, fate⟩ := f
  cases fate with
  | kept m sh =>
    cases sh with
    | true => exact absurd rfl (h m)
    | false => simp [outStack]
  | hidden => simp [outStack]
  | dis s => simp [outStack]
  | bare => simp [outStack]

/-- a start tag of a non-void element opens a frame -/
theorem step_start_nonvoid (p : Policy) {fs : List Frame} {st : LoopState} (h : Abs p fs st) (t : Token)
    (htt : t.tt = .start) (hv : isVoidElement t.data = false) (hn : t.data.head? ≠ some 47) :
    ∃ st' f ws toks, p.step st t = some (st', ws) ∧ f.name = t.data ∧ Abs p (f :: fs) st' ∧ TokWrites p t ws toks ∧
      ((NonTag toks ∧ outStack (f :: fs) = outStack fs) ∨
       (∃ k, toks = [k] ∧ k.tt = .start ∧ k.data = t.data ∧ outStack (f :: fs) = t.data :: outStack fs)) := by
  have hstep : p.step st t = p.stepStart st t := by simp [Policy.step, htt]
  rw [hstep]
  unfold Policy.stepStart
  simp only
  have h1 := abs_recent h t.data
  generalize ({ st with mostRecentlyStartedToken := t.data } : LoopState) = st1 at h1 ⊢
  cases hh : hiddenEl p t.data with
  | true =>
    have : (isScriptOrStyle t.data && !p.allowUnsafe) = true := hh
    simp only [this, ↓reduceIte]
    exact ⟨st1, ⟨t.data, .hidden⟩, [], [], rfl, rfl, abs_hidden h1 t.data hn hv hh, tokWrites_nil p t,
      .inl ⟨by intro k hk; simp at hk, outStack_not_shown _ _ (by intro m; simp)⟩⟩
  | false =>
    have : (isScriptOrStyle t.data && !p.allowUnsafe) = false := hh
    simp only [this, Bool.false_eq_true, ↓reduceIte]
    cases hr : p.attrRulesFor t.data with
    | none =>
      simp only
      have ha := (attrRulesFor_none_iff p t.data).mp hr
      obtain ⟨toks, htw, hnt⟩ := tokWrites_space p t
      exact ⟨_, ⟨t.data, .dis _⟩, _, toks, rfl, rfl, abs_dis h1 t.data hn hv hh ha, htw,
        .inl ⟨hnt, outStack_not_shown _ _ (by intro m; simp)⟩⟩
    | some aps =>
      simp only
      have ha := attrRulesFor_some_allowed hr
      have hsome := Props.cleanAttrs_isSome p t aps
      cases hc : p.cleanAttrs t aps with
      | none => rw [hc] at hsome; cases hsome
      | some attrs =>
        simp only
        split
        · obtain ⟨toks, htw, hnt⟩ := tokWrites_space p t
          exact ⟨_, ⟨t.data, .bare⟩, _, toks, rfl, rfl, abs_bare h1 t.data hn hv hh ha, htw,
            .inl ⟨hnt, outStack_not_shown _ _ (by intro m; simp)⟩⟩
        · have hk := abs_kept h1 t.data hn hv hh ha
          refine ⟨_, ⟨t.data, .kept ((ctsOf fs).contains t.data) (countOf fs == 0)⟩, _, ?_, rfl, rfl, hk, ?_⟩
          · exact if (countOf fs == 0) = true then [{ t with attrs := attrs }] else []
          · have hskip : (markKept st1 t.data).skipElementContent = (countOf fs != 0) := by
              have := hk.skip; simpa [countOf] using this
            unfold emitUnlessSkipping
            rw [hskip]
            cases hz : countOf fs == 0 with
            | true =>
              have : (countOf fs != 0) = false := by simp [bne, hz]
              simp only [this, Bool.false_eq_true, ↓reduceIte]
              refine ⟨tokWrites_one p t _ (.inr (.inr ⟨aps, attrs, hr, hc, rfl, .inl htt⟩)), .inr ⟨_, rfl, htt, rfl, ?_⟩⟩
              simp [outStack]
            | false =>
              have : (countOf fs != 0) = true := by simp [bne, hz]
              simp only [this, ↓reduceIte, Bool.false_eq_true]
              exact ⟨tokWrites_nil p t, .inl ⟨by intro k hk; simp at hk, outStack_not_shown _ _ (by intro m; simp)⟩⟩

/-- tokens that the nesting check passes over: no end tag, start tags only of void elements -/
def Flat (toks : List Token) : Prop := ∀ k ∈ toks, k.tt ≠ .end_ ∧ (k.tt = .start → isVoidElement k.data = true)

theorem nonTag_flat {toks : List Token} (h : NonTag toks) : Flat toks :=
  fun k hk => ⟨(h k hk).2, fun hs => absurd hs (h k hk).1⟩

theorem wn_flat_append : ∀ (a b : List Token) (S : List Bytes), Flat a →
    wellNestedAux S (a ++ b) = wellNestedAux S b
  | [], b, S, _ => rfl
  | k :: a, b, S, h => by
    have hk := h k (by simp)
    have ih := wn_flat_append a b S (fun x hx => h x (by simp [hx]))
    simp only [List.cons_append, wellNestedAux]
    cases htt : k.tt with
    | start => simp only; rw [voidElements_eq, hk.2 htt]; simpa using ih
    | end_ => exact absurd htt hk.1
    | text => simpa using ih
    | selfClosing => simpa using ih
    | comment => simpa using ih
    | doctype => simpa using ih

/-- a start tag of a void element opens nothing -/
theorem step_start_void (p : Policy) {fs : List Frame} {st : LoopState} (h : Abs p fs st) (t : Token)
    (htt : t.tt = .start) (hv : isVoidElement t.data = true) :
    ∃ st' ws toks, p.step st t = some (st', ws) ∧ Abs p fs st' ∧ TokWrites p t ws toks ∧ Flat toks := by
  have hstep : p.step st t = p.stepStart st t := by simp [Policy.step, htt]
  rw [hstep]
  unfold Policy.stepStart
  simp only
  have h1 := abs_recent h t.data
  generalize ({ st with mostRecentlyStartedToken := t.data } : LoopState) = st1 at h1 ⊢
  split
  · exact ⟨st1, [], [], rfl, h1, tokWrites_nil p t, by intro k hk; simp at hk⟩
  · split
    · obtain ⟨toks, htw, hnt⟩ := tokWrites_space p t
      exact ⟨_, _, toks, rfl, by rw [enterSkip_void p st1 _ hv]; exact h1, htw, nonTag_flat hnt⟩
    · rename_i aps _
      have hsome := Props.cleanAttrs_isSome p t aps
      cases hc : p.cleanAttrs t aps with
      | none => rw [hc] at hsome; cases hsome
      | some attrs =>
        simp only
        split
        · obtain ⟨toks, htw, hnt⟩ := tokWrites_space p t
          exact ⟨_, _, toks, rfl, by rw [pushDropped_void st1 _ hv]; exact h1, htw, nonTag_flat hnt⟩
        · rw [markKept_void st1 _ hv]
          unfold emitUnlessSkipping
          split
          · exact ⟨_, _, [], rfl, h1, tokWrites_nil p t, by intro k hk; simp at hk⟩
          · refine ⟨_, _, [{ t with attrs := attrs }], rfl, h1, tokWrites_one p t _ (.inr (.inr ⟨aps, attrs, ‹p.attrRulesFor t.data = some aps›, hc, rfl, .inl htt⟩)), ?_⟩
            intro k hk; simp at hk; subst hk
            exact ⟨by simp [htt], fun _ => hv⟩

/-- a self-closing tag opens nothing -/
theorem step_self (p : Policy) {fs : List Frame} {st : LoopState} (h : Abs p fs st) (t : Token)
    (htt : t.tt = .selfClosing) :
    ∃ st' ws toks, p.step st t = some (st', ws) ∧ Abs p fs st' ∧ TokWrites p t ws toks ∧ Flat toks := by
  have hstep : p.step st t = p.stepSelfClosing st t := by simp [Policy.step, htt]
  rw [hstep]
  unfold Policy.stepSelfClosing
  simp only
  have h1 := abs_recent h t.data
  generalize ({ st with mostRecentlyStartedToken := t.data } : LoopState) = st1 at h1 ⊢
  split
  · exact ⟨st1, [], [], rfl, h1, tokWrites_nil p t, by intro k hk; simp at hk⟩
  · split
    · obtain ⟨toks, htw, hnt⟩ := tokWrites_space p t
      exact ⟨_, _, toks, rfl, h1, htw, nonTag_flat hnt⟩
    · rename_i aps _
      have hsome := Props.cleanAttrs_isSome p t aps
      cases hc : p.cleanAttrs t aps with
      | none => rw [hc] at hsome; cases hsome
      | some attrs =>
        simp only
        split
        · obtain ⟨toks, htw, hnt⟩ := tokWrites_space p t
          exact ⟨_, _, toks, rfl, h1, htw, nonTag_flat hnt⟩
        · unfold emitUnlessSkipping
          split
          · exact ⟨_, _, [], rfl, h1, tokWrites_nil p t, by intro k hk; simp at hk⟩
          · refine ⟨_, _, [{ t with attrs := attrs }], rfl, h1, tokWrites_one p t _ (.inr (.inr ⟨aps, attrs, ‹p.attrRulesFor t.data = some aps›, hc, rfl, .inr htt⟩)), ?_⟩
            intro k hk; simp at hk; subst hk
            exact ⟨by simp [htt], fun hs => by simp [htt] at hs⟩

/-- texts, comments and doctypes open nothing -/
theorem step_other (p : Policy) (hu : p.allowUnsafe = false) {fs : List Frame} {st : LoopState} (h : Abs p fs st)
    (t : Token) (htt : t.tt = .text ∨ t.tt = .comment ∨ t.tt = .doctype) :
    ∃ st' ws toks, p.step st t = some (st', ws) ∧ Abs p fs st' ∧ TokWrites p t ws toks ∧ Flat toks := by
  rcases htt with htt | htt | htt
  · have hstep : p.step st t = some (st, p.stepText st t) := by simp [Policy.step, htt]
    rw [hstep]
    unfold Policy.stepText
    split
    · exact ⟨_, _, [], rfl, h, tokWrites_nil p t, by intro k hk; simp at hk⟩
    · split
      · simp only [hu, Bool.false_eq_true, ↓reduceIte]
        exact ⟨_, _, [], rfl, h, tokWrites_nil p t, by intro k hk; simp at hk⟩
      · refine ⟨_, _, [t], rfl, h, tokWrites_one p t _ (.inr (.inl ⟨rfl, .inl htt⟩)), ?_⟩
        intro k hk; simp at hk; subst hk
        exact ⟨by simp [htt], fun hs => by simp [htt] at hs⟩
  · have hstep : p.step st t = some (st, if p.allowComments then [⟨t.render⟩] else []) := by
      simp [Policy.step, htt]
    rw [hstep]
    split
    · refine ⟨_, _, [t], rfl, h, tokWrites_one p t _ (.inr (.inl ⟨rfl, .inr (.inr ⟨htt, ‹p.allowComments = true›⟩)⟩)), ?_⟩
      intro k hk; simp at hk; subst hk
      exact ⟨by simp [htt], fun hs => by simp [htt] at hs⟩
    · exact ⟨_, _, [], rfl, h, tokWrites_nil p t, by intro k hk; simp at hk⟩
  · have hstep : p.step st t = some (st, []) := by simp [Policy.step, htt]
    rw [hstep]
    exact ⟨_, _, [], rfl, h, tokWrites_nil p t, by intro k hk; simp at hk⟩

/-! ### the end tag of the innermost open element -/

theorem cons47_ne (n : Bytes) : (47 :: n) ≠ n := by
  intro h
  have := congrArg List.length h
  simp at this

/-- the end-tag step, spelled out on the fields it reads -/
theorem stepEnd_eq (p : Policy) (st : LoopState) (t : Token) :
    p.stepEnd st t =
      (let st1 := clearRecent st t.data
       if isScriptOrStyle t.data && !p.allowUnsafe then some (st1, [])
       else if st1.skipClosingTag && st1.closingTagToSkipStack.isEmpty then none
       else if st1.skipClosingTag && st1.closingTagToSkipStack.head? == some t.data then
         some (popDropped st1, p.space)
       else
         let st2 := p.leaveSkip (popMarker st1 t.data) t.data
         if !p.explicitEl t.data && !p.patternEl t.data then some (st2, p.space)
         else some (st2, emitUnlessSkipping st2 t)) := rfl

theorem allowedEl_false {p : Policy} {n : Bytes} (h : p.allowedEl n = false) :
    p.explicitEl n = false ∧ p.patternEl n = false := by
  unfold Policy.allowedEl at h
  simpa using h

theorem step_end (p : Policy) {f : Frame} {fs : List Frame} {st : LoopState} (h : Abs p (f :: fs) st) (t : Token)
    (htt : t.tt = .end_) (hname : f.name = t.data) :
    ∃ st' ws toks, p.step st t = some (st', ws) ∧ Abs p fs st' ∧ TokWrites p t ws toks ∧
      ((NonTag toks ∧ outStack (f :: fs) = outStack fs) ∨
       (∃ k, toks = [k] ∧ k.tt = .end_ ∧ k.data = t.data ∧ outStack (f :: fs) = t.data :: outStack fs)) := by
  have hstep : p.step st t = p.stepEnd st t := by simp [Policy.step, htt]
  rw [hstep, stepEnd_eq]
  simp only
  have h1 := abs_clearRecent h t.data
  generalize clearRecent st t.data = st1 at h1 ⊢
  obtain ⟨n, fate⟩ := f
  simp only at hname
  generalize hd : t.data = d at hname ⊢
  subst hname
  have hok := h1.ok
  cases hok with
  | cons _ _ hf hfs =>
  obtain ⟨hn, hv, hfate⟩ := hf
  simp only at hn hv hfate
  have hflag := h1.flag
  have hcts := h1.cts
  cases fate with
  | hidden =>
    simp only at hfate
    have : (isScriptOrStyle n && !p.allowUnsafe) = true := hfate
    simp only [this, ↓reduceIte]
    exact ⟨_, _, [], rfl, ⟨hfs, by simpa [ctsOf] using hcts, by simpa [ctsOf] using hflag, by simpa [countOf] using h1.count,
      by simpa [countOf] using h1.skip⟩, tokWrites_nil p t,
      .inl ⟨by intro k hk; simp at hk, outStack_not_shown _ _ (by intro m; simp)⟩⟩
  | bare =>
    simp only at hfate
    have hh : (isScriptOrStyle n && !p.allowUnsafe) = false := hfate.1
    have hc : st1.closingTagToSkipStack = n :: ctsOf fs := by simpa [ctsOf] using hcts
    have hf' : st1.skipClosingTag = true := by simpa [ctsOf] using hflag
    simp only [hh, Bool.false_eq_true, ↓reduceIte, hc, hf', List.isEmpty_cons, Bool.and_false, List.head?_cons,
      beq_self_eq_true, Bool.and_self]
    obtain ⟨toks, htw, hnt⟩ := tokWrites_space p t
    refine ⟨_, _, toks, rfl, ?_, htw, .inl ⟨hnt, outStack_not_shown _ _ (by intro m; simp)⟩⟩
    refine ⟨hfs, by simp [popDropped, hc], ?_, by simpa [popDropped, countOf] using h1.count,
      by simpa [popDropped, countOf] using h1.skip⟩
    simp only [popDropped, hc, List.tail_cons, hf']
    cases ctsOf fs <;> simp
  | dis s =>
    simp only at hfate
    obtain ⟨hh', ha, hs⟩ := hfate
    have hh : (isScriptOrStyle n && !p.allowUnsafe) = false := hh'
    obtain ⟨hex, hpat⟩ := allowedEl_false ha
    have hc : st1.closingTagToSkipStack = ctsOf fs := by simpa [ctsOf] using hcts
    have hf' : st1.skipClosingTag = !(ctsOf fs).isEmpty := by simpa [ctsOf] using hflag
    -- neither the name nor its marker is on the stack: the element is not allowed
    have hnotin : n ∉ ctsOf fs := by
      intro hmem
      have := mem_ctsOf_plain hfs n hmem hn
      rw [ha] at this; cases this
    have hnomark : (47 :: n) ∉ ctsOf fs := fun hmem => hnotin (mem_ctsOf_marker hfs n hmem)
    have c2 : (st1.skipClosingTag && st1.closingTagToSkipStack.isEmpty) = false := by
      rw [hf', hc]; cases (ctsOf fs).isEmpty <;> rfl
    have c3 : (st1.skipClosingTag && st1.closingTagToSkipStack.head? == some n) = false := by
      rw [hc]
      cases hl : ctsOf fs with
      | nil => simp
      | cons x xs =>
        have : x ≠ n := by intro hx; rw [hl, hx] at hnotin; simp at hnotin
        simp [this]
    have hpm : popMarker st1 n = st1 := by
      unfold popMarker
      rw [hc]
      cases hl : ctsOf fs with
      | nil => simp
      | cons x xs =>
        have : x ≠ 47 :: n := by intro hx; rw [hl, hx] at hnomark; simp at hnomark
        simp [this]
    simp only [hh, Bool.false_eq_true, ↓reduceIte, c2, c3, hpm, hex, hpat, Bool.not_false, Bool.and_self]
    obtain ⟨toks, htw, hnt⟩ := tokWrites_space p t
    refine ⟨_, _, toks, rfl, ?_, htw, .inl ⟨hnt, outStack_not_shown _ _ (by intro m; simp)⟩⟩
    unfold Policy.leaveSkip
    simp only [hex, hpat, Bool.not_false, Bool.true_and, Bool.and_true]
    cases hsc : p.setOfElementsToSkipContent.contains n with
    | false =>
      simp only [Bool.false_eq_true, ↓reduceIte]
      rw [hsc] at hs; subst hs
      exact ⟨hfs, hc, hf', by simpa [countOf] using h1.count, by simpa [countOf] using h1.skip⟩
    | true =>
      simp only [↓reduceIte]
      rw [hsc] at hs; subst hs
      have hcount : st1.skippingElementsCount = (countOf fs : Int) + 1 := by
        have := h1.count; simpa [countOf] using this
      refine ⟨hfs, hc, hf', by simp [hcount], ?_⟩
      simp only [hcount, Int.add_sub_cancel]
      have hsk : st1.skipElementContent = true := by have := h1.skip; simpa [countOf] using this
      rw [hsk]
      cases hz : countOf fs with
      | zero => simp
      | succ k => simp; omega
  | kept m sh =>
    simp only at hfate
    obtain ⟨hh', ha, hm, hsh⟩ := hfate
    have hh : (isScriptOrStyle n && !p.allowUnsafe) = false := hh'
    have hnotboth : (!p.explicitEl n && !p.patternEl n) = false := by
      unfold Policy.allowedEl at ha
      cases h1' : p.explicitEl n <;> cases h2' : p.patternEl n <;> simp_all
    have hleave : ∀ s : LoopState, p.leaveSkip s n = s := by
      intro s
      unfold Policy.leaveSkip
      have : (!p.explicitEl n && p.setOfElementsToSkipContent.contains n && !p.patternEl n) = false := by
        cases h1' : p.explicitEl n <;> cases h2' : p.patternEl n <;> simp_all
      simp only [this, Bool.false_eq_true, ↓reduceIte]
    cases m with
    | true =>
      have hc : st1.closingTagToSkipStack = (47 :: n) :: ctsOf fs := by simpa [ctsOf] using hcts
      have hf' : st1.skipClosingTag = true := by simpa [ctsOf] using hflag
      have hne : (ctsOf fs).isEmpty = false := by
        cases hl : ctsOf fs with
        | nil => rw [hl] at hm; simp at hm
        | cons _ _ => rfl
      have c3 : (some (47 :: n) == some n) = false := by
        simp [cons47_ne n]
      have hpm : popMarker st1 n = { st1 with closingTagToSkipStack := ctsOf fs } := by
        simp [popMarker, hf', hc]
      simp only [hh, Bool.false_eq_true, ↓reduceIte, hc, hf', List.isEmpty_cons, Bool.and_false, List.head?_cons,
        c3, Bool.and_false, hnotboth]
      rw [hpm, hleave]
      have habs : Abs p fs { st1 with closingTagToSkipStack := ctsOf fs } :=
        ⟨hfs, rfl, by simp [hf', hne], by simpa [countOf] using h1.count, by simpa [countOf] using h1.skip⟩
      generalize ({ st1 with closingTagToSkipStack := ctsOf fs } : LoopState) = st2 at habs ⊢
      unfold emitUnlessSkipping
      simp only [habs.skip]
      cases hz : countOf fs == 0 with
      | true =>
        have : (countOf fs != 0) = false := by simp [bne, hz]
        simp only [this, Bool.false_eq_true, ↓reduceIte]
        rw [hz] at hsh; subst hsh
        exact ⟨_, _, [t], rfl, habs, tokWrites_one p t _ (.inr (.inl ⟨rfl, .inr (.inl htt)⟩)), .inr ⟨t, rfl, htt, hd, by simp [outStack]⟩⟩
      | false =>
        have : (countOf fs != 0) = true := by simp [bne, hz]
        simp only [this, ↓reduceIte]
        rw [hz] at hsh; subst hsh
        exact ⟨_, _, [], rfl, habs, tokWrites_nil p t,
          .inl ⟨by intro k hk; simp at hk, outStack_not_shown _ _ (by intro m; simp)⟩⟩
    | false =>
      have hc : st1.closingTagToSkipStack = ctsOf fs := by simpa [ctsOf] using hcts
      have hf' : st1.skipClosingTag = !(ctsOf fs).isEmpty := by simpa [ctsOf] using hflag
      have hnotin : n ∉ ctsOf fs := by
        intro hmem
        have : (ctsOf fs).contains n = true := by simpa using hmem
        rw [← hm] at this; cases this
      have hnomark : (47 :: n) ∉ ctsOf fs := fun hmem => hnotin (mem_ctsOf_marker hfs n hmem)
      have c2 : (st1.skipClosingTag && st1.closingTagToSkipStack.isEmpty) = false := by
        rw [hf', hc]; cases (ctsOf fs).isEmpty <;> rfl
      have c3 : (st1.skipClosingTag && st1.closingTagToSkipStack.head? == some n) = false := by
        rw [hc]
        cases hl : ctsOf fs with
        | nil => simp
        | cons x xs =>
          have : x ≠ n := by intro hx; rw [hl, hx] at hnotin; simp at hnotin
          simp [this]
      have hpm : popMarker st1 n = st1 := by
        unfold popMarker
        rw [hc]
        cases hl : ctsOf fs with
        | nil => simp
        | cons x xs =>
          have : x ≠ 47 :: n := by intro hx; rw [hl, hx] at hnomark; simp at hnomark
          simp [this]
      simp only [hh, Bool.false_eq_true, ↓reduceIte, c2, c3, hpm, hleave, hnotboth]
      have habs : Abs p fs st1 :=
        ⟨hfs, hc, hf', by simpa [countOf] using h1.count, by simpa [countOf] using h1.skip⟩
      unfold emitUnlessSkipping
      simp only [habs.skip]
      cases hz : countOf fs == 0 with
      | true =>
        have : (countOf fs != 0) = false := by simp [bne, hz]
        simp only [this, Bool.false_eq_true, ↓reduceIte]
        rw [hz] at hsh; subst hsh
        exact ⟨_, _, [t], rfl, habs, tokWrites_one p t _ (.inr (.inl ⟨rfl, .inr (.inl htt)⟩)), .inr ⟨t, rfl, htt, hd, by simp [outStack]⟩⟩
      | false =>
        have : (countOf fs != 0) = true := by simp [bne, hz]
        simp only [this, ↓reduceIte]
        rw [hz] at hsh; subst hsh
        exact ⟨_, _, [], rfl, habs, tokWrites_nil p t,
          .inl ⟨by intro k hk; simp at hk, outStack_not_shown _ _ (by intro m; simp)⟩⟩

/-! ### whole documents -/

theorem run_cons_some (p : Policy) (st st' : LoopState) (t : Token) (ts : List Token) (ws ws' : List Write)
    (h1 : p.step st t = some (st', ws)) (h2 : p.run st' ts = (ws', false)) :
    p.run st (t :: ts) = (ws ++ ws', false) := by
  simp [Policy.run, h1, h2]

/-- **the simulation**: from a state that abstracts the open elements `fs`, a token list that
    closes them properly (and is well nested otherwise) is processed without panic, and the
    written tokens close the open elements of the output properly -/
theorem nest_run (p : Policy) (hu : p.allowUnsafe = false) : ∀ (ts : List Token) (fs : List Frame) (st : LoopState),
    Abs p fs st → (∀ t ∈ ts, Props.NameOK t) → wellNestedAux (fs.map (·.name)) ts = true →
    ∃ ws toks, p.run st ts = (ws, false) ∧ RunWrites p ts ws toks ∧ wellNestedAux (outStack fs) toks = true
  | [], fs, st, _, _, hwn => by
    simp only [wellNestedAux, List.isEmpty_iff, List.map_eq_nil_iff] at hwn
    subst hwn
    exact ⟨[], [], rfl, ⟨rfl, by intro k hk; simp at hk⟩, rfl⟩
  | t :: ts, fs, st, habs, hname, hwn => by
    have hname' : ∀ x ∈ ts, Props.NameOK x := fun x hx => hname x (by simp [hx])
    cases htt : t.tt with
    | start =>
      simp only [wellNestedAux, htt] at hwn
      cases hv : isVoidElement t.data with
      | true =>
        rw [voidElements_eq, hv] at hwn
        simp only [↓reduceIte] at hwn
        obtain ⟨st', ws1, toks1, hs, habs', htw1, hflat⟩ := step_start_void p habs t htt hv
        obtain ⟨ws2, toks2, hr, htw2, hout⟩ := nest_run p hu ts fs st' habs' hname' hwn
        exact ⟨ws1 ++ ws2, toks1 ++ toks2, run_cons_some p st st' t ts ws1 ws2 hs hr, runWrites_cons htw1 htw2,
          by rw [wn_flat_append _ _ _ hflat]; exact hout⟩
      | false =>
        rw [voidElements_eq, hv] at hwn
        simp only [Bool.false_eq_true, ↓reduceIte] at hwn
        have hn : t.data.head? ≠ some 47 := hname t (by simp) htt
        obtain ⟨st', f, ws1, toks1, hs, hfn, habs', htw1, hcase⟩ := step_start_nonvoid p habs t htt hv hn
        have hwn' : wellNestedAux ((f :: fs).map (·.name)) ts = true := by
          simpa [hfn] using hwn
        obtain ⟨ws2, toks2, hr, htw2, hout⟩ := nest_run p hu ts (f :: fs) st' habs' hname' hwn'
        refine ⟨ws1 ++ ws2, toks1 ++ toks2, run_cons_some p st st' t ts ws1 ws2 hs hr, runWrites_cons htw1 htw2, ?_⟩
        rcases hcase with ⟨hnt, hsame⟩ | ⟨k, rfl, hk1, hk2, hpush⟩
        · rw [wn_nontag_append _ _ _ hnt, ← hsame]; exact hout
        · rw [hpush] at hout
          simp only [List.cons_append, List.nil_append, wellNestedAux, hk1, hk2]
          rw [voidElements_eq, hv]
          simpa using hout
    | end_ =>
      simp only [wellNestedAux, htt] at hwn
      cases fs with
      | nil => simp at hwn
      | cons f fs' =>
        simp only [List.map_cons, Bool.and_eq_true, beq_iff_eq] at hwn
        obtain ⟨hfn, hwn'⟩ := hwn
        obtain ⟨st', ws1, toks1, hs, habs', htw1, hcase⟩ := step_end p habs t htt hfn
        obtain ⟨ws2, toks2, hr, htw2, hout⟩ := nest_run p hu ts fs' st' habs' hname' hwn'
        refine ⟨ws1 ++ ws2, toks1 ++ toks2, run_cons_some p st st' t ts ws1 ws2 hs hr, runWrites_cons htw1 htw2, ?_⟩
        rcases hcase with ⟨hnt, hsame⟩ | ⟨k, rfl, hk1, hk2, hpop⟩
        · rw [wn_nontag_append _ _ _ hnt, hsame]; exact hout
        · rw [hpop]
          simp only [List.cons_append, List.nil_append, wellNestedAux, hk1, hk2, beq_self_eq_true, Bool.true_and]
          exact hout
    | selfClosing =>
      simp only [wellNestedAux, htt] at hwn
      obtain ⟨st', ws1, toks1, hs, habs', htw1, hflat⟩ := step_self p habs t htt
      obtain ⟨ws2, toks2, hr, htw2, hout⟩ := nest_run p hu ts fs st' habs' hname' hwn
      exact ⟨ws1 ++ ws2, toks1 ++ toks2, run_cons_some p st st' t ts ws1 ws2 hs hr, runWrites_cons htw1 htw2,
        by rw [wn_flat_append _ _ _ hflat]; exact hout⟩
    | text =>
      simp only [wellNestedAux, htt] at hwn
      obtain ⟨st', ws1, toks1, hs, habs', htw1, hflat⟩ := step_other p hu habs t (.inl htt)
      obtain ⟨ws2, toks2, hr, htw2, hout⟩ := nest_run p hu ts fs st' habs' hname' hwn
      exact ⟨ws1 ++ ws2, toks1 ++ toks2, run_cons_some p st st' t ts ws1 ws2 hs hr, runWrites_cons htw1 htw2,
        by rw [wn_flat_append _ _ _ hflat]; exact hout⟩
    | comment =>
      simp only [wellNestedAux, htt] at hwn
      obtain ⟨st', ws1, toks1, hs, habs', htw1, hflat⟩ := step_other p hu habs t (.inr (.inl htt))
      obtain ⟨ws2, toks2, hr, htw2, hout⟩ := nest_run p hu ts fs st' habs' hname' hwn
      exact ⟨ws1 ++ ws2, toks1 ++ toks2, run_cons_some p st st' t ts ws1 ws2 hs hr, runWrites_cons htw1 htw2,
        by rw [wn_flat_append _ _ _ hflat]; exact hout⟩
    | doctype =>
      simp only [wellNestedAux, htt] at hwn
      obtain ⟨st', ws1, toks1, hs, habs', htw1, hflat⟩ := step_other p hu habs t (.inr (.inr htt))
      obtain ⟨ws2, toks2, hr, htw2, hout⟩ := nest_run p hu ts fs st' habs' hname' hwn
      exact ⟨ws1 ++ ws2, toks1 ++ toks2, run_cons_some p st st' t ts ws1 ws2 hs hr, runWrites_cons htw1 htw2,
        by rw [wn_flat_append _ _ _ hflat]; exact hout⟩

end BM
