import BM.Proofs.UrlScheme
/-
  The bridge between net/url and a browser, relative half (C03): a URL that net/url's Parse
  returned *without* a scheme is printed by `URL.String` in a form the WHATWG scheme-state
  classifier (`Spec.classifyUrl`) reads as a relative reference — never as `javascript:` or any
  other scheme.  The reasons, each a lemma below: Parse leaves the opaque part empty when there
  is no scheme; an authority is printed behind `//`; `EscapedPath` contains no byte the browser
  strips or deletes (nothing ≤ 0x20); and String puts `./` in front of a path whose first
  segment contains a colon (RFC 3986 §4.2), so the first byte outside the scheme alphabet is
  never a colon.
-/
namespace BM.Url
open BM BM.Spec

/-! ### Parse: no scheme ⇒ no opaque part -/

theorem setPath_opaq (u u' : URL) (p : Bytes) (h : setPath u p = some u') : u'.opaq = u.opaq := by
  unfold setPath at h
  simp only [Option.map_eq_some_iff] at h
  obtain ⟨_, _, rfl⟩ := h
  rfl

theorem setFragment_opaq (u u' : URL) (f : Bytes) (h : setFragment u f = some u') : u'.opaq = u.opaq := by
  unfold setFragment at h
  simp only [Option.map_eq_some_iff] at h
  obtain ⟨_, _, rfl⟩ := h
  rfl

theorem parseNoFrag_opaq (raw : Bytes) (u : URL) (h : parseNoFrag raw = some u) (hs : u.scheme = []) :
    u.opaq = [] := by
  unfold parseNoFrag at h
  split at h
  · cases h
  · split at h
    · injection h with h; subst h; rfl
    · split at h
      · cases h
      · rename_i scheme rest0 hgs
        simp only at h
        repeat' split at h
        all_goals (try (cases h; done))
        all_goals (first
          | (rw [setPath_opaq _ _ _ h])
          | (injection h with h; subst h
             simp only at hs
             simp_all))

theorem parse_opaq (raw : Bytes) (u : URL) (h : parse raw = some u) (hs : u.scheme = []) : u.opaq = [] := by
  unfold parse at h
  simp only at h
  split at h
  · exact absurd h (by simp)
  · rename_i url hurl
    split at h
    · simp only [Option.some.injEq] at h; subst h
      exact parseNoFrag_opaq _ _ hurl hs
    · have h1 := setFragment_opaq _ _ _ h
      have h2 := setFragment_scheme _ _ _ h
      rw [h1]
      exact parseNoFrag_opaq _ _ hurl (by rw [← h2]; exact hs)

/-! ### `EscapedPath` has no byte a browser strips or deletes -/

set_option maxRecDepth 8192 in
theorem pathByte_facts_fin : ∀ n : Fin 256,
    (validEncodedByte .path (UInt8.ofNat n.val) = true → isC0OrSpace (UInt8.ofNat n.val) = false) ∧
    (isC0OrSpace (UInt8.ofNat n.val) = false →
      UInt8.ofNat n.val ≠ 9 ∧ UInt8.ofNat n.val ≠ 10 ∧ UInt8.ofNat n.val ≠ 13) ∧
    isC0OrSpace (upperHex (n.val / 16)) = false ∧ isC0OrSpace (upperHex (n.val % 16)) = false := by decide

theorem pathByte_facts (c : UInt8) :
    (validEncodedByte .path c = true → isC0OrSpace c = false) ∧
    (isC0OrSpace c = false → c ≠ 9 ∧ c ≠ 10 ∧ c ≠ 13) ∧
    isC0OrSpace (upperHex (c.toNat / 16)) = false ∧ isC0OrSpace (upperHex (c.toNat % 16)) = false := by
  have := pathByte_facts_fin ⟨c.toNat, c.toNat_lt⟩
  simpa only [UInt8.ofNat_toNat] using this

theorem escape_path_solid : ∀ (s : Bytes), ∀ c ∈ escape .path s, isC0OrSpace c = false
  | [], c, hc => by simp [escape] at hc
  | a :: as, c, hc => by
    unfold escape at hc
    have hq : (a == 32 && Mode.path == Mode.queryComponent) = false := by
      simp only [Bool.and_eq_false_iff]; right; rfl
    simp only [hq, Bool.false_eq_true, ↓reduceIte] at hc
    split at hc
    · simp only [List.mem_cons] at hc
      rcases hc with rfl | rfl | rfl | hc
      · decide
      · exact (pathByte_facts a).2.2.1
      · exact (pathByte_facts a).2.2.2
      · exact escape_path_solid as c hc
    · rename_i hse
      simp only [List.mem_cons] at hc
      rcases hc with rfl | hc
      · apply (pathByte_facts c).1
        simp only [validEncodedByte, Bool.or_eq_true]
        right
        simpa using hse
      · exact escape_path_solid as c hc

theorem escapedPath_solid (u : URL) : ∀ c ∈ escapedPath u, isC0OrSpace c = false := by
  intro c hc
  unfold escapedPath at hc
  split at hc
  · rename_i hv
    simp only [Bool.and_eq_true] at hv
    have := List.all_eq_true.mp hv.1.2 c hc
    exact (pathByte_facts c).1 this
  · split at hc
    · simp only [List.mem_singleton] at hc; subst hc; decide
    · exact escape_path_solid _ c hc

/-! ### what the classifier does with such a string -/

/-- query / fragment part of the printed URL: nothing, or something behind `?` or `#` -/
def TailForm (t : Bytes) : Prop := t = [] ∨ ∃ r, t = 63 :: r ∨ t = 35 :: r

theorem tailForm_head {t : Bytes} (h : TailForm t) : t = [] ∨ ∃ x r, t = x :: r ∧ (x = 63 ∨ x = 35) := by
  rcases h with h | ⟨r, h | h⟩
  · exact .inl h
  · exact .inr ⟨63, r, h, .inl rfl⟩
  · exact .inr ⟨35, r, h, .inr rfl⟩

theorem rstrip_all_solid (P : Bytes) (h : ∀ c ∈ P, isC0OrSpace c = false) :
    (P.reverse.dropWhile isC0OrSpace).reverse = P := by
  cases hr : P.reverse with
  | nil => simp at hr; subst hr; rfl
  | cons x xs =>
    have hx : x ∈ P := by
      have : x ∈ P.reverse := by rw [hr]; simp
      simpa using this
    simp only [List.dropWhile, h x hx]
    rw [← hr]; simp

/-- the first byte outside the scheme alphabet is not a colon -/
theorem next_not_colon : ∀ (P T : Bytes), (cut 47 P).1.contains 58 = false →
    (T = [] ∨ ∃ x r, T = x :: r ∧ (x = 63 ∨ x = 35)) →
    ((P ++ T).drop ((P ++ T).takeWhile (fun c => isAlnum c || c == 43 || c == 45 || c == 46)).length).head? ≠ some 58
  | [], T, _, hT => by
    rcases hT with rfl | ⟨x, r, rfl, hx | hx⟩
    · simp
    · subst hx; simp [isAlnum, isAlpha, isUpper, isLowerA, isDigit]
    · subst hx; simp [isAlnum, isAlpha, isUpper, isLowerA, isDigit]
  | a :: as, T, hseg, hT => by
    simp only [List.cons_append, List.takeWhile]
    split
    · rename_i hsb
      have hsb' : schemeByte a = true := hsb
      have ha47 : (a == 47) = false := by
        cases h : a == 47 with
        | false => rfl
        | true =>
          have : a = 47 := by simpa using h
          subst this
          exact absurd hsb' (by decide)
      have hseg' : (cut 47 as).1.contains 58 = false := by
        unfold cut at hseg
        simp only [ha47, Bool.false_eq_true, ↓reduceIte] at hseg
        simp only [List.contains_cons, Bool.or_eq_false_iff] at hseg
        exact hseg.2
      simp only [List.length_cons, List.drop_succ_cons]
      exact next_not_colon as T hseg' hT
    · rename_i hsb
      simp only [List.length_nil, List.drop_zero, List.head?_cons, ne_eq, Option.some.injEq]
      intro ha
      subst ha
      unfold cut at hseg
      have : ((58 : UInt8) == 47) = false := by decide
      simp only [this, Bool.false_eq_true, ↓reduceIte] at hseg
      simp at hseg

theorem classify_nonalpha (c : UInt8) (t : Bytes) (hc : isC0OrSpace c = false) (hna : isAlpha c = false) :
    classifyUrl (c :: t) = .relative := by
  unfold classifyUrl
  have h1 : (c :: t).dropWhile isC0OrSpace = c :: t := by simp [List.dropWhile, hc]
  have h2 := rstrip_keep [] c t hc
  simp only [List.nil_append] at h2
  simp only [h1, h2]
  obtain ⟨h9, h10, h13⟩ := (pathByte_facts c).2.1 hc
  have h3 : (c != 9 && c != 10 && c != 13) = true := by simp [h9, h10, h13]
  simp only [List.filter_cons, h3, ↓reduceIte, hna, Bool.false_eq_true]

/-- **a solid path whose first segment has no colon, followed by a query / fragment part, is
    relative for the classifier** -/
theorem classify_relative_path (P T : Bytes) (hP : ∀ c ∈ P, isC0OrSpace c = false)
    (hseg : (cut 47 P).1.contains 58 = false) (hT : TailForm T) : classifyUrl (P ++ T) = .relative := by
  cases P with
  | nil =>
    rcases hT with rfl | ⟨r, rfl | rfl⟩
    · rfl
    · exact classify_nonalpha 63 r (by decide) (by decide)
    · exact classify_nonalpha 35 r (by decide) (by decide)
  | cons c cs =>
    have hc0 := hP c (by simp)
    unfold classifyUrl
    have h1 : ((c :: cs) ++ T).dropWhile isC0OrSpace = (c :: cs) ++ T := by simp [hc0]
    -- trailing strip stays behind the path
    have h2 : ∃ T', (((c :: cs) ++ T).reverse.dropWhile isC0OrSpace).reverse = (c :: cs) ++ T' ∧
        (T' = [] ∨ ∃ x r, T' = x :: r ∧ (x = 63 ∨ x = 35)) := by
      rcases tailForm_head hT with rfl | ⟨x, r, rfl, hx⟩
      · refine ⟨[], ?_, .inl rfl⟩
        simp only [List.append_nil]
        exact rstrip_all_solid _ hP
      · have hx0 : isC0OrSpace x = false := by rcases hx with rfl | rfl <;> decide
        exact ⟨x :: (r.reverse.dropWhile isC0OrSpace).reverse, rstrip_keep (c :: cs) x r hx0, .inr ⟨x, _, rfl, hx⟩⟩
    obtain ⟨T', hT'eq, hT'⟩ := h2
    simp only [h1, hT'eq]
    -- tab / newline removal leaves the path and the first byte of the tail alone
    have h3 : ∃ T2, ((c :: cs) ++ T').filter (fun c => c != 9 && c != 10 && c != 13) = (c :: cs) ++ T2 ∧
        (T2 = [] ∨ ∃ x r, T2 = x :: r ∧ (x = 63 ∨ x = 35)) := by
      refine ⟨T'.filter (fun c => c != 9 && c != 10 && c != 13), ?_, ?_⟩
      · rw [List.filter_append]
        congr 1
        apply List.filter_eq_self.mpr
        intro x hx
        obtain ⟨h9, h10, h13⟩ := (pathByte_facts x).2.1 (hP x hx)
        simp [h9, h10, h13]
      · rcases hT' with rfl | ⟨x, r, rfl, hx⟩
        · exact .inl rfl
        · right
          refine ⟨x, r.filter (fun c => c != 9 && c != 10 && c != 13), ?_, hx⟩
          rcases hx with rfl | rfl <;> rfl
    obtain ⟨T2, hT2eq, hT2⟩ := h3
    simp only [hT2eq]
    have hn := next_not_colon (c :: cs) T2 hseg hT2
    simp only [List.cons_append] at hn ⊢
    split
    · split
      · rename_i h58
        exact absurd (by simpa using h58) hn
      · rfl
    · rfl

/-! ### `URL.String` without a scheme -/

theorem printTail_form (u : URL) (body : Bytes) : ∃ T, printTail u body = body ++ T ∧ TailForm T := by
  unfold printTail
  simp only
  split <;> split
  · exact ⟨63 :: u.rawQuery ++ 35 :: escapedFragment u, by simp, .inr ⟨_, .inl rfl⟩⟩
  · exact ⟨35 :: escapedFragment u, rfl, .inr ⟨_, .inr rfl⟩⟩
  · exact ⟨63 :: u.rawQuery, rfl, .inr ⟨_, .inl rfl⟩⟩
  · exact ⟨[], by simp, .inl rfl⟩

/-- **C03 bridge, relative half**: what `URL.String` prints for a URL that Parse returned
    without a scheme is a relative reference for a browser -/
theorem printed_relative_is_browser_relative (raw : Bytes) (u : URL) (hp : parse raw = some u) (hs : u.scheme = []) :
    classifyUrl (print u) = .relative := by
  have hop := parse_opaq raw u hp hs
  rw [print_eq]
  simp only [hs, hop, List.isEmpty_nil, Bool.not_true, Bool.false_eq_true, ↓reduceIte]
  obtain ⟨T, hTeq, hT⟩ := printTail_form u (printHier u [])
  rw [hTeq]
  unfold printHier
  simp only [hs, List.isEmpty_nil, Bool.not_true, Bool.false_or, List.nil_append]
  cases hh : u.host.isEmpty <;> cases hu : u.hasUser
  all_goals simp only [Bool.not_false, Bool.not_true, Bool.true_or, Bool.or_true, Bool.false_or, Bool.or_false,
    Bool.and_false, Bool.and_true, Bool.false_eq_true, ↓reduceIte, List.append_nil, List.nil_append]
  case true.false =>
    -- no authority: the path, with ./ in front if its first segment has a colon
    simp only [List.isEmpty_nil, Bool.true_and]
    split
    · exact classify_nonalpha 46 _ (by decide) (by decide)
    · rename_i hseg
      simp only [List.nil_append]
      exact classify_relative_path _ T (escapedPath_solid u) (by simpa using hseg) hT
  -- an authority: printed behind //
  all_goals
    (repeat' split)
    all_goals
      simp only [List.cons_append, List.nil_append, List.isEmpty_cons, Bool.false_and, Bool.false_eq_true,
        ↓reduceIte] at *
    all_goals exact classify_nonalpha 47 _ (by decide) (by decide)

/-- **the whole bridge**: a browser classifies the printed form of a parsed URL exactly as
    net/url did -/
theorem printed_class (raw : Bytes) (u : URL) (hp : parse raw = some u) :
    classifyUrl (print u) = if u.scheme = [] then .relative else .scheme u.scheme := by
  split
  · rename_i h; exact printed_relative_is_browser_relative raw u hp h
  · rename_i h; exact printed_scheme_is_browser_scheme raw u hp h

end BM.Url
