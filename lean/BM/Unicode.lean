import BM.Basic
import BM.Gen.Unicode
/-
  Go's `unicode` / `strings` case functions on the regenerated tables: `strings.ToLower` as the
  policy builder (element, attribute, property and scheme names) and the style filter use it.
-/
namespace BM

/-! ### Unicode helpers from generated tables (Go's `unicode` package) -/

/-- look a rune up in a run table `(lo, hi, stride, delta)`: rune ↦ rune + delta (delta is
    stored as a Nat offset by 2^21 to stay in Nat). -/
def runLookup (runs : List (Nat × Nat × Nat × Nat)) (r : Rune) : Rune :=
  match runs.find? fun (lo, hi, stride, _) => lo ≤ r && r ≤ hi && (r - lo) % stride == 0 with
  | some (_, _, _, d) => r + d - 2097152
  | none => r

def runeToLower (r : Rune) : Rune :=
  if r < 0x80 then (if 65 ≤ r && r ≤ 90 then r + 32 else r) else runLookup Gen.toLowerRuns r

def runeSimpleFold (r : Rune) : Rune := runLookup Gen.simpleFoldRuns r

/-- `strings.ToLower` (invalid bytes come out as U+FFFD when any non-ASCII is present). -/
def toLowerGo (s : Bytes) : Bytes :=
  if s.all (· < 0x80) then lowerAscii s else encodeRunes ((decodeRunes s).map runeToLower)

end BM
