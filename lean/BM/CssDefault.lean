import BM.Sanitize
import BM.Golite
import BM.Gen.CssHandlers
/- css.GetDefaultHandler: the regenerated handler table run through the Go-lite interpreter. -/
namespace BM

def cssCtx : Golite.Ctx :=
  { prog := Gen.cssProgram, toLower := toLowerGo,
    globals := [("colorValues", .strs Gen.colorValues)] }

/-- `css.GetDefaultHandler(prop)(value)`; an unknown property gets `BaseHandler` (always false).
    A handler that runs out of interpreter fuel counts as a rejection (and shows up as a
    correspondence mismatch if the real handler accepts). -/
def defaultHandler (prop value : Bytes) : Bool :=
  match Gen.defaultStyleHandlers.find? (·.1 == prop) with
  | some (_, fn) => (Golite.run cssCtx fn value).getD false
  | none => false

/-- the handler by function name (for the unit-level correspondence) -/
def handlerByName (fn : String) (value : Bytes) : Option Bool := Golite.run cssCtx fn value

end BM
