import BM.Driver.Codec
import BM.Spec.Oracles
import BM.Spec.More
import BM.CssDefault
import BM.Entry
import Std.Data.HashMap
namespace BM.Driver
open BM BM.Html BM.Spec

structure State where
  policies : Std.HashMap Nat Policy := {}
  kinds : Std.HashMap Nat String := {}

def dfltHandler : Bytes → Bytes → Bool := defaultHandler

/-! per-property projections of an output: a correspondence mismatch is attributed to a
    property only if the part of the output that property speaks about differs -/

def tagSkeleton (ts : List Token) : String :=
  String.intercalate ";" ((ts.filter fun t => t.tt != .text).map fun t =>
    (match t.tt with
     | .start => "S" | .end_ => "E" | .selfClosing => "X" | .comment => "C" | .doctype => "D"
     | .text => "T") ++ hexField t.data)

def attrsWhere (ts : List Token) (f : Bytes → Attr → Bool) : String :=
  String.intercalate ";" ((ts.filter isTag).map fun t =>
    hexField t.data ++ "(" ++ encAttrs (t.attrs.filter (f t.data)) ++ ")")

def projection (prop : String) (out : Bytes) : String :=
  let ts := tokenize out
  match prop with
  | "C01" => tagSkeleton ts
  | "C02" => attrsWhere ts fun _ _ => true
  | "C03" => attrsWhere ts fun el a => isUrlPosition el a.key
  | "C05" => tagSkeleton (ts.filter fun t => isScriptStyle t.data) ++ "|" ++
      String.intercalate "," ((markers out).map hexField)
  | "C06" => hexField (textOf ts)
  | "C08" => hexField (textOf ts)
  | "C09" => tagSkeleton (ts.filter isTag)
  | "C10" => attrsWhere ts fun _ a => a.key == b!"style"
  | "C11" => attrsWhere (ts.filter fun t => isHrefEl t.data) fun _ a =>
      a.key == b!"rel" || a.key == b!"target" || a.key == b!"href"
  | "C12" => attrsWhere ts fun _ a => a.key == b!"crossorigin" || a.key == b!"sandbox"
  | "C18" => attrsWhere ts fun _ a => a.key == b!"style"
  | _ => hexField out

/-- properties whose verdict is a function of (policy, input, output) -/
def sanProps : List String :=
  ["C01", "C02", "C03", "C04", "C05", "C06", "C07", "C08", "C09", "C10", "C11", "C12", "C18"]

/-- the style attributes of the output, judged declaration by declaration (C10):
    property allowlisted for the element or globally, value accepted by a registered matcher
    after lower-casing and decoding -/
def oracleC10 (p : Policy) (out : Bytes) : Bool :=
  (tokenize out).all fun t =>
    if !(t.tt == .start || t.tt == .selfClosing) then true else
    t.attrs.all fun a =>
      if a.key != b!"style" || !hasStyleRules p t.data then true else
      !a.val.isEmpty &&
      match Css.parseDeclarations (a.val ++ [59]) with
      | none => false
      | some decs =>
        decs.all fun d =>
          let prop := trimPrefixes (toLowerGo d.property) vendorPrefixes
          let rules := (p.styleRulesFor t.data).get? prop |>.getD []
          let grules := (p.globalStyles.get? prop).getD []
          match removeUnicode (toLowerGo d.value) with
          | none => false
          | some v => stylePoliciesAccept rules v || stylePoliciesAccept grules v

def oracle (kind : String) (prop : String) (p : Policy) (inp out : Bytes) : Bool :=
  match prop with
  | "C01" => p.allowUnsafe || oracleC01 p out
  | "C02" => p.allowUnsafe || oracleC02 p inp out
  | "C03" => p.allowUnsafe || oracleC03 p inp out
  | "C04" => if kind == "@STRICT" then oracleC04strict out
             else if kind == "@UGC" then oracleC04ugc out else true
  | "C05" => p.allowUnsafe || oracleC05 inp out
  | "C06" => oracleC06 p inp out
  | "C07" => oracleC07 p inp out
  | "C08" => oracleC08 p inp out
  | "C09" => p.allowUnsafe || oracleC09 inp out
  | "C10" => p.allowUnsafe || oracleC10 p out
  | "C11" => p.allowUnsafe || oracleC11 p out
  | "C12" => p.allowUnsafe || oracleC12 p out
  -- a kept declaration of a matcher-less style rule must be accepted by the default handler of
  -- its own property (none for an unknown property): the same judgement as C10
  | "C18" => p.allowUnsafe || oracleC10 p out
  | _ => true

/-! ### known-finding classes (matched against /verif/known_findings.txt by the check) -/

/-- some element name occurs as an open start tag inside an open element of the same name -/
def sameNameNesting : List Bytes → List Token → Bool
  | _, [] => false
  | stack, t :: ts =>
    match t.tt with
    | .start =>
      if voidElements.contains t.data then sameNameNesting stack ts
      else stack.contains t.data || sameNameNesting (t.data :: stack) ts
    | .end_ => sameNameNesting stack.tail ts
    | _ => sameNameNesting stack ts

def hasBackslashAuthority (out : Bytes) : Bool :=
  (tokenize out).any fun t => t.attrs.any fun a =>
    a.key == b!"href" &&
    (let v := (a.val.dropWhile isC0OrSpace)
     match classifyUrl v with
     | .scheme s => ((v.drop (s.length + 1)).take 2).contains 92
     | .relative => (v.take 2).contains 92)

/-- an href in which three or more slashes stand where a browser looks for the authority
    (`///x`, `http:///host/p`): a browser skips the extra slashes and finds a host, net/url reads
    an empty authority -/
def hasExtraSlashAuthority (out : Bytes) : Bool :=
  (tokenize out).any fun t => t.attrs.any fun a =>
    a.key == b!"href" &&
    (let v := (a.val.dropWhile isC0OrSpace)
     match classifyUrl v with
     | .scheme s => (v.drop (s.length + 1)).take 3 == [47, 47, 47]
     | .relative => v.take 3 == [47, 47, 47])

/-- an href a browser reads with a host while net/url, given the value as written, finds none
    (or cannot parse it) -/
def hasHostOnlyForBrowser (out : Bytes) : Bool :=
  (tokenize out).any fun t => t.attrs.any fun a =>
    a.key == b!"href" && hostQualified a.val &&
    (match Url.parse a.val with | some u => u.host.isEmpty | none => true)

def knownClass (prop : String) (p : Policy) (inp out : Bytes) : Option String :=
  match prop with
  | "C09" => if sameNameNesting [] (tokenize inp) then some "same-name-nesting" else none
  | "C11" => if hasBackslashAuthority out then some "backslash-authority"
             else if hasExtraSlashAuthority out then some "extra-slash-authority"
             -- URL parsing switched off after the link options: hrefs reach the hardening block as written
             else if !p.requireParseableURLs && hasHostOnlyForBrowser out then some "unchecked-href" else none
  | _ => none

def joinOrDash (xs : List String) : String := if xs.isEmpty then "-" else String.intercalate "," xs

def verdict (corrOk : Bool) (model : String) (orcFails : List String) (known : List String) : String :=
  (if corrOk then "ok" else "DIFF:" ++ model) ++ " orc=" ++ joinOrDash orcFails ++
    (if known.isEmpty then "" else " known=" ++ String.intercalate "," known)

def boolField (s : String) : Option Bool := if s == "1" then some true else if s == "0" then some false else none

def getPolicy (st : State) (pid : String) : Option Policy := pid.toNat?.bind (st.policies.get? ·)

def urlAttrVals (out : Bytes) : List Bytes :=
  (tokenize out).flatMap fun t => (t.attrs.filter fun a => isUrlPosition t.data a.key).map (·.val)

def handleLine (st : State) (line : String) : State × String :=
  match line.splitOn " " with
  | ["tok", inp, impl] =>
    match unhexField inp with
    | some b =>
      let r := encTokens (tokenize b)
      (st, if r == impl then "ok" else "DIFF " ++ r)
    | none => (st, "bad-hex")
  | ["hdl", prop, val, impl] =>
    match unhexField prop, unhexField val with
    | some pr, some v =>
      let r := if defaultHandler pr v then "1" else "0"
      -- C18: whatever the real handler accepts must be inert
      let bad := impl == "1" && !inert v
      if impl == "PANIC" then (st, verdict false r ["C14", "C18"] []) else
      (st, verdict (r == impl) r (if bad then ["C18"] else []) [])
    | _, _ => (st, "bad-hdl")
  | ["policy", pid, opsStr, dump] =>
    let ops := opsStr
    if ops.startsWith "@" then
      match pid.toNat?, shippedPolicy ops with
      | some pid, some p =>
        let st := { st with policies := st.policies.insert pid p, kinds := st.kinds.insert pid ops }
        if dump == "-" then (st, "ok") else
        match unhexField dump with
        | some dump =>
          let d := dumpPolicyWith nameBySource p
          (st, if strBytes d == dump then "ok" else "DIFF " ++ d)
        | none => (st, "bad-policy")
      | _, _ => (st, "bad-policy")
    else
    match pid.toNat?, parseOps ops, unhexField dump with
    | some pid, some ops, some dump =>
      let p := applyOps dfltHandler (baseOf opsStr) ops
      let d := dumpPolicy p
      ({ st with policies := st.policies.insert pid p },
        if strBytes d == dump then "ok" else "DIFF " ++ d)
    | _, _, _ => (st, "bad-policy")
  | ["san", pid, inp, impl] =>
    match getPolicy st pid, unhexField inp with
    | some p, some b =>
      let kind := (pid.toNat?.bind (st.kinds.get? ·)).getD ""
      let modelPanics := p.panics b
      if impl == "TIMEOUT" then (st, "ok proj=- orc=C14") else
      if impl == "PANIC" then
        (st, if modelPanics then "ok proj=- orc=C14" else "DIFF:panic proj=all orc=C14")
      else match unhexField impl with
      | none => (st, "bad-san")
      | some impl =>
        if modelPanics then (st, "DIFF:modelpanic proj=all orc=-") else
        let out := p.sanitize b
        let projs := if out == impl then [] else
          (sanProps.filter fun pr => projection pr out != projection pr impl)
        let orcs := sanProps.filter fun pr => !oracle kind pr p b impl
        let known := orcs.filterMap fun pr => (knownClass pr p b impl).map fun c => pr ++ ":" ++ c
        (st, (if out == impl then "ok" else "DIFF:" ++ hexField out) ++
             " proj=" ++ joinOrDash projs ++ " orc=" ++ joinOrDash orcs ++
             (if known.isEmpty then "" else " known=" ++ String.intercalate "," known))
    | _, _ => (st, "bad-san")
  | ["cmd", pid, inp, out] =>
    -- a command-line tool's stdout against the library result of its (regenerated) policy
    match getPolicy st pid, unhexField inp, unhexField out with
    | some p, some b, some out =>
      let m := p.sanitize b
      (st, verdict true (hexField m) (if m == out then [] else ["C15"]) [])
    | _, _, _ => (st, "bad-cmd")
  | ["idem", pid, inp, o1, o2] =>
    match getPolicy st pid, unhexField inp, unhexField o1, unhexField o2 with
    | some p, some b, some o1, some o2 =>
      let kind := (pid.toNat?.bind (st.kinds.get? ·)).getD ""
      let m1 := p.sanitize b
      let m2 := p.sanitize m1
      let inClass := kind == "@STRICT" || inClassC20 p ||
        (kind == "@UGC" && !(tokenize o1).any fun t =>
          (t.data == b!"del" || t.data == b!"ins") && t.attrs.any (·.key == b!"cite"))
      let bad := inClass && o1 != o2
      let unstable := (urlAttrVals o1).any fun v => (Url.parse v).map Url.print != some v
      -- the two passes agree except for the position of rel / target among the attributes of a tag
      -- (and do differ there: two outputs that read as the same tokens are not this finding)
      let reordered := (tokenize o1 != tokenize o2) && sameUpToForcedAttrOrder (tokenize o1) (tokenize o2)
      (st, verdict (m1 == o1 && m2 == o2) (hexField m1 ++ "/" ++ hexField m2)
        (if bad then ["C20"] else [])
        (if bad && unstable then ["C20:url-reprint-unstable"]
         else if bad && reordered then ["C20:forced-attr-order"]
         -- the two passes agree once every `!important` is deleted: each pass drops the priority the
         -- declaration parser recognised, and a matcher that accepts `!important` as text let a further one through
         -- (only when the model reproduces both passes: the finding is a behaviour of the code as it is)
         else if bad && m1 == o1 && m2 == o2 && dropImportant o1 == dropImportant o2 then ["C20:important-dropped"]
         else []))
    | _, _, _, _ => (st, "bad-idem")
  | ["entry", pid, inp, oS, oB, oR, oW, oW2, okf, _mode] =>
    match getPolicy st pid, unhexField inp, unhexField oS, unhexField oB, unhexField oR, unhexField oW, unhexField oW2 with
    | some p, some b, some oS, some oB, some oR, some oW, some oW2 =>
      let blank := (Css.trimSpace b).isEmpty
      let mS := p.sanitizeEntry b
      let mR := p.sanitizeReaderM b .eof
      let corr := mS == oS && mS == oB && mR == oR && mR == oW && mR == oW2
      let agree := if blank then oS == b && oB == b && oR == oW && oW == oW2
                   else oS == oB && oB == oR && oR == oW && oW == oW2
      (st, verdict corr (hexField mS) (if agree && okf == "1" then [] else ["C15"]) [])
    | _, _, _, _, _, _, _ => (st, "bad-entry")
  | ["fault", pid, inp, k, perm, _sw, errf, calls, acc, full] =>
    match getPolicy st pid, unhexField inp, k.toNat?, boolField perm, boolField errf, calls.toNat?, unhexField acc, unhexField full with
    | some p, some b, some k, some perm, some err, some calls, some acc, some full =>
      let (ws, _) := p.run {} (tokenize b)
      let (macc, mcalls, merr) := feed (some k) perm 0 ws
      let corr := macc.flatten == acc && mcalls == calls && merr == err
      let total := ws.length
      -- the property: a failure at an index that is reached is reported, nothing is written
      -- after it, and what was accepted is a prefix of the fault-free output
      let good := (if k < total then err && calls == k + 1 else !err) && hasPrefix acc full
      (st, verdict corr (hexField macc.flatten ++ "/" ++ toString mcalls) (if good then [] else ["C16"]) [])
    | _, _, _, _, _, _, _, _ => (st, "bad-fault")
  | ["rfault", pid, inp, off, _wd, errf, written, rlen] =>
    match getPolicy st pid, unhexField inp, off.toNat?, boolField errf, unhexField written, rlen.toNat? with
    | some p, some b, some off, some err, some written, some rlen =>
      -- the tokenizer treats the bytes delivered before the failure as the whole input; the model of the
      -- entry points (BM/Entry.lean) says: an error, and an empty buffer from SanitizeReader
      let r := p.sanitizeRW (b.take off) .failed none false
      let m := r.1.flatten
      let mlen := (p.sanitizeReaderM (b.take off) .failed).length
      (st, verdict (m == written && r.2 == err && mlen == rlen) (hexField m) (if err && rlen == 0 then [] else ["C16"]) [])
    | _, _, _, _, _, _ => (st, "bad-rfault")
  | ["conc", pid, inp, seq, eq] =>
    match getPolicy st pid, unhexField inp, unhexField seq with
    | some p, some b, some seq =>
      let m := p.sanitize b
      (st, verdict (m == seq) (hexField m) (if eq == "1" then [] else ["C13"]) [])
    | _, _, _ => (st, "bad-conc")
  | ["after", pid, inp, impl] =>
    -- a call made after other calls on the same policy failed part-way: it must not notice
    match getPolicy st pid, unhexField inp, unhexField impl with
    | some p, some b, some impl =>
      let m := p.sanitize b
      -- … and if the text it returns is not the text of its input (plain probes), C06 is broken as well
      let textDiffers := textOf (tokenize m) != textOf (tokenize impl)
      (st, verdict (m == impl) (hexField m)
        (if m == impl then [] else ["C13", "C16"] ++ (if textDiffers then ["C06"] else [])) [])
    | _, _, _ => (st, if impl == "PANIC" then "ok orc=C13,C14,C16" else "bad-after")
  | ["indep", pid, inp, before, after] =>
    -- a finished policy sanitised `inp` before and after *other* policies were built and extended:
    -- policies are values, the two results must be the same (and the model's)
    match getPolicy st pid, unhexField inp with
    | some p, some b =>
      let m := hexField (p.sanitize b)
      (st, verdict (m == before) m (if before == after then [] else ["C13", "C17"]) [])
    | _, _ => (st, "bad-indep")
  | ["pfault", pid, inp, k, errf, calls, acc, full] =>
    -- a destination whose failing Write accepts part of the data
    match getPolicy st pid, unhexField inp, k.toNat?, boolField errf, calls.toNat?, unhexField acc, unhexField full with
    | some p, some b, some k, some err, some calls, some acc, some full =>
      let (ws, _) := p.run {} (tokenize b)
      let good := (if k < ws.length then err && calls == k + 1 else !err) && hasPrefix acc full
      (st, verdict true "-" (if good then [] else ["C16"]) [])
    | _, _, _, _, _, _, _ => (st, "bad-pfault")
  | ["bigidem", _pid, _len, ok] =>
    (st, verdict true "-" (if ok == "1" then [] else ["C20", "C14"]) [])
  | ["big", _pid, _len, ok] =>
    -- a long conforming document (judged by the harness: returned unchanged by every entry point)
    (st, verdict true "-" (if ok == "1" then [] else ["C06", "C07", "C14", "C15", "C16"]) [])
  | ["unchanged", _pid, _before, _after, ok] =>
    -- the policy read back after it was used (sequentially, or by several goroutines) against what it
    -- read as when it was finished
    (st, verdict true "-" (if ok == "1" then [] else ["C13"]) [])
  | ["alias", _inp, _outCopy, _out, ok] =>
    -- a result handed out earlier changed (or the caller's input buffer did) while the library was used again
    (st, verdict true "-" (if ok == "1" then [] else ["C01", "C13", "C15"]) [])
  | ["perm", pa, pb, inp, oa, ob] =>
    match getPolicy st pa, getPolicy st pb, unhexField inp with
    | some p, some q, some b =>
      if oa == "PANIC" || ob == "PANIC" then (st, "ok orc=C14") else
      match unhexField oa, unhexField ob with
      | some oa, some ob =>
        let ma := p.sanitize b
        let mb := q.sanitize b
        (st, verdict (ma == oa && mb == ob) (hexField ma ++ "/" ++ hexField mb) (if oa == ob then [] else ["C17"]) [])
      | _, _ => (st, "bad-perm")
    | _, _, _ => (st, "bad-perm")
  | ["mono", pa, pb, inp, oa, ob] =>
    match getPolicy st pa, getPolicy st pb, unhexField inp with
    | some p, some q, some b =>
      if oa == "PANIC" || ob == "PANIC" then (st, "ok orc=C14") else
      match unhexField oa, unhexField ob with
      | some oa, some ob =>
        let ma := p.sanitize b
        let mb := q.sanitize b
        (st, verdict (ma == oa && mb == ob) (hexField ma ++ "/" ++ hexField mb)
          -- the comparison re-tokenises both outputs: it is only meaningful when neither policy emits a
          -- raw-text element, whose content the tokenizer reads as text (script/style under AllowUnsafe,
          -- iframe, title, textarea, …)
          (if q.allowUnsafe || p.allowUnsafe ||
              ([b!"iframe", b!"noembed", b!"noframes", b!"noscript", b!"plaintext", b!"script", b!"style",
                b!"textarea", b!"title", b!"xmp"].any fun n => allowsElement q n || allowsElement p n) ||
              oracleMono oa ob then [] else ["C17", "C07"]) [])
      | _, _ => (st, "bad-mono")
    | _, _, _ => (st, "bad-mono")
  | ["time", pid, inp, impl, _us] =>
    match getPolicy st pid, unhexField inp with
    | some p, some b =>
      let modelPanics := p.panics b
      if impl == "PANIC" then (st, verdict modelPanics "nopanic" ["C14"] [])
      else match unhexField impl with
        | some impl =>
          let m := p.sanitize b
          (st, verdict (!modelPanics && m == impl) (hexField m) [] [])
        | none => (st, "bad-time")
    | _, _ => (st, "bad-time")
  | ["timeonly", _pid, _inp, impl, _us] =>
    (st, verdict true "-" (if impl == "PANIC" then ["C14"] else []) [])
  | ["url", inp, res, hostf] =>
    match unhexField inp with
    | some b =>
      match Url.parse b with
      | none => (st, verdict (res == "err") "err" [] [])
      | some u =>
        let pr := Url.print u
        let h := if u.host.isEmpty then "0" else "1"
        (st, verdict (res == hexField pr && hostf == h) (hexField pr ++ "/" ++ h) [] [])
    | none => (st, "bad-url")
  | ["vurl", pid, inp, res] =>
    match getPolicy st pid, unhexField inp with
    | some p, some b =>
      let m := match p.validURL b with
        | none => "none"
        | some v => hexField v
      -- C03: whatever validURL lets through must be acceptable to the spec-side classifier
      let bad := p.requireParseableURLs && res != "none" &&
        (match unhexField res with | some v => !urlOk p v | none => true)
      (st, verdict (m == res) m (if bad then ["C03"] else []) [])
    | _, _ => (st, "bad-vurl")
  | ["rc", n, k, sets, res, calls] =>
    -- css.recursiveCheck through the hook, with counting handler functions: verdict and number of
    -- handler invocations against the model; the invocations must stay within len(funcs)·n(n+1)/2
    match n.toNat?, k.toNat? with
    | some n, some k =>
      let toks : List Bytes := (List.range n).map fun i => strBytes ("t" ++ toString i)
      let parseSet (s : String) : List (Nat × Nat) :=
        if s == "-" then [] else (s.splitOn ",").filterMap fun e =>
          match e.splitOn ":" with
          | [a, b] => match a.toNat?, b.toNat? with
            | some a, some b => some (a, b)
            | _, _ => none
          | _ => none
      let fs : List (Bytes → Bool) := ((sets.splitOn ";").take k).map fun s =>
        let groups := (parseSet s).map fun (a, l) => joinBytes [32] ((toks.drop a).take l)
        fun g => groups.contains g
      let m := Golite.recursiveCheck fs toks
      let ms := (if m.1 then "1" else "0") ++ "/" ++ toString m.2
      let over := match calls.toNat? with
        | some c => decide (2 * c > k * (n * (n + 1)))
        | none => true
      (st, verdict (ms == res ++ "/" ++ calls) ms (if over then ["C14"] else []) [])
    | _, _ => (st, "bad-rc")
  | ["hlp", kind, a, b] =>
    -- splitValues through its hook: value, pieces
    let dec (x : String) : Option Bytes := if x == "e" then some [] else unhexField x
    let decL (x : String) : Option (List Bytes) := if x == "-" then some [] else (x.splitOn ",").mapM dec
    if kind == "sv" then
      match dec a, decL b with
      | some v, some ps =>
        let m := Golite.splitValues toLowerGo v
        (st, verdict (m == ps) (String.intercalate "," (m.map hexField)) [] [])
      | _, _ => (st, "bad-hlp")
    else (st, "bad-hlp")
  | ["hlp", kind, a, b, r] =>
    let dec (x : String) : Option Bytes := if x == "e" then some [] else unhexField x
    let decL (x : String) : Option (List Bytes) := if x == "-" then some [] else (x.splitOn ",").mapM dec
    if kind == "ms" then
      match dec a, decL b, decL r with
      | some v, some seps, some ps =>
        let m := Golite.multiSplit v seps
        (st, verdict (m == ps) (String.intercalate "," (m.map hexField)) [] [])
      | _, _, _ => (st, "bad-hlp")
    else if kind == "in" then
      match decL a, decL b with
      | some xs, some ys =>
        let m := if Golite.inList xs ys then "1" else "0"
        (st, verdict (m == r) m [] [])
      | _, _ => (st, "bad-hlp")
    else (st, "bad-hlp")
  | ["uni", inp, res] =>
    match unhexField inp with
    | some b =>
      let m := match removeUnicode b with
        | none => "fail"
        | some v => hexField v
      (st, verdict (m == res) m [] [])
    | none => (st, "bad-uni")
  | ["style", pid, el, val, res] =>
    match getPolicy st pid, unhexField el, unhexField val, unhexField res with
    | some p, some el, some val, some res =>
      let m := p.sanitizeStyles val el
      -- C10 fixes what is left of a cleanly parseable style: the allowed declarations, in order.  The
      -- declarations of the implementation's result are compared with those the characterised
      -- `sanitizeStyles` keeps (as property / value lists, not as bytes)
      let decls := fun (b : Bytes) => (Css.parseDeclarations (b ++ [59])).map fun ds => ds.map fun d => (d.property, d.value)
      let clean := (Css.parseDeclarations (val ++ [59])).isSome
      let bad := clean && !p.allowUnsafe && decls m != decls res
      (st, verdict (m == res) (hexField m) (if bad then ["C10"] else []) [])
    | _, _, _, _ => (st, "bad-style")
  | [kindw, name, val, impl] =>
    if kindw == "mat" || kindw == "matex" then
      match unhexField val, Gen.exportedMatchers.find? (·.1 == name) with
      | some v, some (_, re) =>
        let m := if Re.matchBytes re v then "1" else "0"
        let doc := (matcherDocForm name v).getD false
        -- accepted ⇒ of the documented form; documented examples must be accepted
        let bad := (impl == "1" && !doc) || (kindw == "matex" && impl != "1")
        let fold := (decodeRunes v).any fun r => r == 0x17F || r == 0x212A
        -- a documented example that is refused is also a valid value of the UGC vocabulary that UGCPolicy
        -- would drop: the converse clause of C04
        let refusedExample := kindw == "matex" && impl != "1"
        (st, verdict (m == impl) m ((if bad then ["C19"] else []) ++ (if refusedExample then ["C04"] else []))
          (if bad && fold then ["C19:nonascii-casefold"] else []))
      | _, _ => (st, "bad-mat")
    else (st, "bad-op")
  | _ => (st, "bad-op")

partial def loop (h : IO.FS.Stream) (out : IO.FS.Stream) (st : State) : IO Unit := do
  let line ← h.getLine
  if line.isEmpty then return ()
  let l := (line.dropEndWhile fun c => c == '\n' || c == '\r').toString
  if l.startsWith "#" then
    out.putStrLn "ok"
    loop h out st
  else
    let (st', r) := handleLine st l
    out.putStrLn r
    loop h out st'

def main : IO Unit := do
  let stdin ← IO.getStdin
  let stdout ← IO.getStdout
  loop stdin stdout {}
  stdout.flush

end BM.Driver
