import BM.Driver.Codec
namespace BM.Driver
open BM BM.Html

def handleLine (line : String) : String :=
  match line.splitOn " " with
  | ["tok", inp, impl] =>
    match unhexField inp with
    | some b =>
      let r := encTokens (tokenize b)
      if r == impl then "ok" else "DIFF " ++ r
    | none => "bad-hex"
  | _ => "bad-op"

partial def loop (h : IO.FS.Stream) (out : IO.FS.Stream) : IO Unit := do
  let line ← h.getLine
  if line.isEmpty then return ()
  let l := (line.dropRightWhile fun c => c == '\n' || c == '\r')
  out.putStrLn (handleLine l)
  loop h out

def main : IO Unit := do
  let stdin ← IO.getStdin
  let stdout ← IO.getStdout
  loop stdin stdout
  stdout.flush

end BM.Driver
