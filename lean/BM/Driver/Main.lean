import BM.Driver.Codec
import BM.Spec.Oracles
import BM.CssDefault
import Std.Data.HashMap
namespace BM.Driver
open BM BM.Html BM.Spec

structure State where
  policies : Std.HashMap Nat Policy := {}

/-- css.GetDefaultHandler twin (filled in by BM.CssHandlers once modelled) -/
def dfltHandler : Bytes → Bytes → Bool := defaultHandler

/-! per-property projections of an output: a correspondence mismatch is attributed to a
    property only if the part of the output that property speaks about differs -/

def tagSkeleton (ts : List Token) : String :=
  String.intercalate ";" ((ts.filter fun t => t.tt != .text).map fun t =>
    (match t.tt with
     | .start => "S" | .end_ => "E" | .selfClosing => "X" | .comment => "C" | .doctype => "D"
     | .text => "T") ++ hexField t.data)

def attrsWhere (ts : List Token) (f : Bytes → Attr → Bool) : String :=
  String.intercalate ";" ((ts.filter isTag).map fun t =>
    hexField t.data ++ "(" ++ encAttrs (t.attrs.filter (f t.data)) ++ ")")

def projection (prop : String) (out : Bytes) : String :=
  let ts := tokenize out
  match prop with
  | "C01" => tagSkeleton ts
  | "C02" => attrsWhere ts fun _ _ => true
  | "C03" => attrsWhere ts fun el a => isUrlPosition el a.key
  | "C05" => tagSkeleton (ts.filter fun t => isScriptStyle t.data) ++ "|" ++
      String.intercalate "," ((markers out).map hexField)
  | "C06" => hexField (textOf ts)
  | "C08" => hexField (textOf ts)
  | "C09" => tagSkeleton (ts.filter isTag)
  | "C10" => attrsWhere ts fun _ a => a.key == b!"style"
  | "C11" => attrsWhere (ts.filter fun t => isHrefEl t.data) fun _ a =>
      a.key == b!"rel" || a.key == b!"target" || a.key == b!"href"
  | "C12" => attrsWhere ts fun _ a => a.key == b!"crossorigin" || a.key == b!"sandbox"
  | _ => hexField out

def allProps : List String :=
  ["C01", "C02", "C03", "C05", "C06", "C08", "C09", "C10", "C11", "C12"]

/-- oracles that can be judged from (policy, input, output) alone -/
def oracle (prop : String) (p : Policy) (inp out : Bytes) : Bool :=
  match prop with
  | "C01" => p.allowUnsafe || oracleC01 p out
  | "C02" => p.allowUnsafe || oracleC02 p inp out
  | "C03" => p.allowUnsafe || oracleC03 p out
  | "C05" => p.allowUnsafe || oracleC05 inp out
  | "C06" => oracleC06 p inp out
  | "C08" => oracleC08 p inp out
  | "C09" => p.allowUnsafe || oracleC09 inp out
  | "C11" => p.allowUnsafe || oracleC11 p out
  | "C12" => p.allowUnsafe || oracleC12 p out
  | _ => true

def joinOrDash (xs : List String) : String := if xs.isEmpty then "-" else String.intercalate "," xs

def handleLine (st : State) (line : String) : State × String :=
  match line.splitOn " " with
  | ["tok", inp, impl] =>
    match unhexField inp with
    | some b =>
      let r := encTokens (tokenize b)
      (st, if r == impl then "ok" else "DIFF " ++ r)
    | none => (st, "bad-hex")
  | ["hdl", prop, val, impl] =>
    match unhexField prop, unhexField val with
    | some pr, some v =>
      let r := if defaultHandler pr v then "1" else "0"
      (st, if r == impl then "ok" else "DIFF " ++ r)
    | _, _ => (st, "bad-hdl")
  | ["policy", pid, ops, dump] =>
    match pid.toNat?, parseOps ops, unhexField dump with
    | some pid, some ops, some dump =>
      let p := applyOps dfltHandler newPolicy ops
      let d := dumpPolicy p
      ({ st with policies := st.policies.insert pid p },
        if strBytes d == dump then "ok" else "DIFF " ++ d)
    | _, _, _ => (st, "bad-policy")
  | ["san", pid, inp, impl] =>
    match pid.toNat?.bind (st.policies.get? ·), unhexField inp with
    | some p, some b =>
      let modelPanics := p.panics b
      if impl == "PANIC" then
        (st, if modelPanics then "ok-panic proj=- orc=C14" else "DIFF-panic proj=all orc=C14")
      else match unhexField impl with
      | none => (st, "bad-san")
      | some impl =>
        if modelPanics then (st, "DIFF-modelpanic proj=all orc=-") else
        let out := p.sanitize b
        let projs := if out == impl then [] else
          (allProps.filter fun pr => projection pr out != projection pr impl)
        let orcs := allProps.filter fun pr => !oracle pr p b impl
        (st, (if out == impl then "ok" else "DIFF:" ++ hexField out) ++
             " proj=" ++ joinOrDash projs ++ " orc=" ++ joinOrDash orcs)
    | _, _ => (st, "bad-san")
  | _ => (st, "bad-op")

partial def loop (h : IO.FS.Stream) (out : IO.FS.Stream) (st : State) : IO Unit := do
  let line ← h.getLine
  if line.isEmpty then return ()
  let l := (line.dropEndWhile fun c => c == '\n' || c == '\r').toString
  let (st', r) := handleLine st l
  out.putStrLn r
  loop h out st'

def main : IO Unit := do
  let stdin ← IO.getStdin
  let stdout ← IO.getStdout
  loop stdin stdout {}
  stdout.flush

end BM.Driver
