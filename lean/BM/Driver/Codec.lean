import BM.Html
/- Canonical text encodings shared with go/cmd/harness (hex fields, `-` = empty). -/
namespace BM.Driver
open BM BM.Html

def hexField (b : Bytes) : String := if b.isEmpty then "-" else hexStr b

def unhexField (s : String) : Option Bytes :=
  if s == "-" then some [] else fromHex (strBytes s)

def encAttrs (as : List Attr) : String :=
  String.intercalate "," (as.map fun a => hexField a.key ++ "=" ++ hexField a.val)

def encToken (t : Token) : String :=
  match t.tt with
  | .text => "T" ++ hexField t.data
  | .start => "S" ++ hexField t.data ++ "(" ++ encAttrs t.attrs ++ ")"
  | .end_ => "E" ++ hexField t.data
  | .selfClosing => "X" ++ hexField t.data ++ "(" ++ encAttrs t.attrs ++ ")"
  | .comment => "C" ++ hexField t.data
  | .doctype => "D" ++ hexField t.data

def encTokens (ts : List Token) : String :=
  if ts.isEmpty then "-" else String.intercalate ";" (ts.map encToken)

end BM.Driver
