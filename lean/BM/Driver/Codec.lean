import BM.Sanitize
import BM.Shipped
import BM.Gen.Shipped
/- Canonical text encodings shared with go/bmx (hex fields, `-` = empty). -/
namespace BM.Driver
open BM BM.Html

def hexField (b : Bytes) : String := if b.isEmpty then "-" else hexStr b

def unhexField (s : String) : Option Bytes :=
  if s == "-" then some [] else fromHex (strBytes s)

def encAttrs (as : List Attr) : String :=
  String.intercalate "," (as.map fun a => hexField a.key ++ "=" ++ hexField a.val)

def encToken (t : Token) : String :=
  match t.tt with
  | .text => "T" ++ hexField t.data
  | .start => "S" ++ hexField t.data ++ "(" ++ encAttrs t.attrs ++ ")"
  | .end_ => "E" ++ hexField t.data
  | .selfClosing => "X" ++ hexField t.data ++ "(" ++ encAttrs t.attrs ++ ")"
  | .comment => "C" ++ hexField t.data
  | .doctype => "D" ++ hexField t.data

def encTokens (ts : List Token) : String :=
  if ts.isEmpty then "-" else String.intercalate ";" (ts.map encToken)

/-! ### builder ops -/

def unhexList (s : String) : Option (List Bytes) :=
  if s == "-" then some [] else (s.splitOn ",").mapM unhexField

def parsePat (s : String) : Option (Option Pat) :=
  if s == "-" then some none
  else match s.splitOn "~" with
    | [ids, sexp] =>
      match ids.toNat?, Re.parse (strBytes sexp) with
      | some id, some re => some (some ⟨id, Re.matchBytes re⟩)
      | _, _ => none
    | _ => none

def parsePat! (s : String) : Option Pat := (parsePat s).bind id

def parseScope (kind arg : String) : Option Scope :=
  match kind with
  | "E" => (unhexList arg).map .onElements
  | "M" => (parsePat! arg).map .onElementsMatching
  | "G" => some .globally
  | _ => none

def parseFlag (s : String) : Option Bool :=
  if s == "1" then some true else if s == "0" then some false else none

def bytesAfter (pre : String) (name : Bytes) : Option Bytes := stripPrefix? (strBytes pre) name

/-- Lean twins of the named URL checks in go/bmx/policy.go -/
def urlPolicyNamed (name : Bytes) : Option UrlPolicy :=
  if name == strBytes "datauri" then some dataURIImagePolicy
  else if name == strBytes "always" then some fun _ => true
  else if name == strBytes "never" then some fun _ => false
  else if name == strBytes "noquery" then some fun u => u.rawQuery.isEmpty
  else match bytesAfter "host=" name with
    | some h => some fun u => u.host == h
    | none => match bytesAfter "opaqueprefix=" name with
      | some h => some fun u => hasPrefix h u.opaq
      | none => none

/-- Lean twins of the named src rewriters -/
def rewriterNamed (name : Bytes) : Option UrlRewriter :=
  if name == strBytes "id" then some id
  else if name == strBytes "clearquery" then some fun u => { u with rawQuery := [] }
  else if name == strBytes "relproxy" then some fun u =>
    { path := strBytes "/media-proxy", rawQuery := strBytes "u=" ++ Url.escape .queryComponent (Url.print u) }
  else match bytesAfter "sethost=" name with
    | some h => some fun u => { u with host := h }
    | none => match bytesAfter "proxy=" name with
      | some h => some fun u =>
          { scheme := strBytes "https", host := h, path := strBytes "/proxy",
            rawQuery := strBytes "u=" ++ Url.escape .queryComponent (Url.print u) }
      | none => none

/-- Lean twins of the named style handlers -/
def styleHandlerNamed (name : Bytes) : Option (Bytes → Bool) :=
  if name == strBytes "always" then some fun _ => true
  else if name == strBytes "never" then some fun _ => false
  else if name == strBytes "noparen" then some fun v => !(v.contains 40 || v.contains 92)
  else match bytesAfter "eq=" name with
    | some h => some fun v => v == h
    | none => none

def parseOp (s : String) : Option BuilderOp :=
  match s.splitOn ":" with
  | ["AE", ns] => (unhexList ns).map .allowElements
  | ["US", ns] => (unhexList ns).map .allowURLSchemes
  | ["SB", ns] => (unhexList ns).map .requireSandboxOnIFrame
  | ["SK", ns] => (unhexList ns).map .skipElementsContent
  | ["AK", ns] => (unhexList ns).map .allowElementsContent
  | ["AEM", re] => (parsePat! re).map .allowElementsMatching
  | ["USM", re] => (parsePat! re).map .allowURLSchemesMatching
  | ["AA", ns, re, empty, sk, sa] =>
    match unhexList ns, parsePat re, parseFlag empty, parseScope sk sa with
    | some ns, some re, some e, some sc => some (.allowAttrs ns re e sc)
    | _, _, _, _ => none
  | ["AS", ns, h, en, re, sk, sa] =>
    match unhexList ns, unhexList en, parsePat re, parseScope sk sa with
    | some ns, some en, some re, some sc =>
      if h == "-" then some (.allowStyles ns { enum := en, re := re } sc)
      else match (unhexField h).bind styleHandlerNamed with
        | some hf => some (.allowStyles ns { handler := some hf, enum := en, re := re } sc)
        | none => none
    | _, _, _, _ => none
  | ["DA"] => some .allowDataAttributes
  | ["AC"] => some .allowComments
  | ["NF", b] => (parseFlag b).map .requireNoFollowOnLinks
  | ["NFQ", b] => (parseFlag b).map .requireNoFollowOnFullyQualifiedLinks
  | ["NR", b] => (parseFlag b).map .requireNoReferrerOnLinks
  | ["NRQ", b] => (parseFlag b).map .requireNoReferrerOnFullyQualifiedLinks
  | ["CO", b] => (parseFlag b).map .requireCrossOriginAnonymous
  | ["TB", b] => (parseFlag b).map .addTargetBlankToFullyQualifiedLinks
  | ["PU", b] => (parseFlag b).map .requireParseableURLs
  | ["RU", b] => (parseFlag b).map .allowRelativeURLs
  | ["SP", b] => (parseFlag b).map .addSpaceWhenStrippingTag
  | ["UN", b] => (parseFlag b).map .allowUnsafe
  | ["UC", sch, cb] =>
    match unhexField sch, (unhexField cb).bind urlPolicyNamed with
    | some s, some f => some (.allowURLSchemeWithCustomPolicy s f)
    | _, _ => none
  | ["RW", cb] => ((unhexField cb).bind rewriterNamed).map .rewriteSrc
  | _ => none

def parseOps (s : String) : Option (List BuilderOp) :=
  if s == "-" then some [] else ((s.splitOn "!").filter (· != "ZERO")).mapM parseOp

/-- a history that starts with the pseudo-op ZERO is applied to the zero-value `Policy{}` -/
def baseOf (s : String) : Policy := if s.startsWith "ZERO" then {} else newPolicy

/-! ### policy dump in the format of `Policy.VerifDump` -/

def sortStrings (xs : List String) : List String := (xs.toArray.qsort (· < ·)).toList

def flagCh (b : Bool) : String := if b then "1" else "0"

def hexKey (b : Bytes) : String := hexStr b

def dumpAttrPolicies (nm : Pat → String) (aps : List AttrPolicy) : String :=
  String.intercalate "," (aps.map fun ap => match ap with
    | none => "*"
    | some r => nm r)

def dumpAttrRules (nm : Pat → String) (m : AttrRules) : String :=
  "{" ++ String.intercalate ";" (sortStrings (m.map fun (k, v) =>
    hexKey k ++ "=[" ++ dumpAttrPolicies nm v ++ "]")) ++ "}"

def dumpStylePolicies (nm : Pat → String) (sps : List StylePolicy) : String :=
  String.intercalate "," (sps.map fun sp =>
    if sp.handler.isSome then "h"
    else if sp.enum.length > 0 then "e(" ++ String.intercalate "|" (sp.enum.map hexKey) ++ ")"
    else match sp.re with
      | some r => nm r
      | none => "0")

def dumpStyleRules (nm : Pat → String) (m : StyleRules) : String :=
  "{" ++ String.intercalate ";" (sortStrings (m.map fun (k, v) =>
    hexKey k ++ "=[" ++ dumpStylePolicies nm v ++ "]")) ++ "}"

def nameById (r : Pat) : String := "r" ++ toString r.id

/-- regexps named by (hex of) their source, for the shipped policies -/
def nameBySource (r : Pat) : String :=
  match Gen.reSources.find? (·.1 == r.id) with
  | some (_, src) => "s" ++ src
  | none => "s?"

def dumpPolicyWith (nm : Pat → String) (p : Policy) : String :=
  "flags=" ++ flagCh p.addSpaces ++ flagCh p.requireNoFollow ++
    flagCh p.requireNoFollowFullyQualifiedLinks ++ flagCh p.requireNoReferrer ++
    flagCh p.requireNoReferrerFullyQualifiedLinks ++ flagCh p.requireCrossOriginAnonymous ++
    flagCh p.addTargetBlankToFullyQualifiedLinks ++ flagCh p.requireParseableURLs ++
    flagCh p.allowRelativeURLs ++ flagCh p.allowDataAttributes ++ flagCh p.allowComments ++
    flagCh p.allowUnsafe ++ flagCh p.srcRewriter.isSome ++
  (match p.requireSandboxOnIFrame with
   | none => " sandbox=nil"
   | some vs => " sandbox=[" ++ String.intercalate "," (sortStrings (vs.eraseDups.map hexKey)) ++ "]") ++
  " els=" ++ String.join ((sortStrings (p.elsAndAttrs.map fun (k, v) =>
      hexKey k ++ ":" ++ dumpAttrRules nm v ++ " "))) ++
  " elsm=" ++ String.intercalate " " (sortStrings (p.elsMatchingAndAttrs.map fun (r, m) =>
      nm r ++ ":" ++ dumpAttrRules nm m)) ++
  " gattrs=" ++ dumpAttrRules nm p.globalAttrs ++
  " styles=" ++ String.join ((sortStrings (p.elsAndStyles.map fun (k, v) =>
      hexKey k ++ ":" ++ dumpStyleRules nm v ++ " "))) ++
  " stylesm=" ++ String.intercalate " " (sortStrings (p.elsMatchingAndStyles.map fun (r, m) =>
      nm r ++ ":" ++ dumpStyleRules nm m)) ++
  " gstyles=" ++ dumpStyleRules nm p.globalStyles ++
  " schemes=" ++ String.join (sortStrings (p.allowURLSchemes.map fun (k, v) =>
      hexKey k ++ ":" ++ toString v.length ++ ",")) ++
  " schemere=" ++ String.intercalate "," (p.allowURLSchemeRegexps.map nm) ++
  " noattrs=" ++ String.intercalate "," (sortStrings (p.setOfElementsAllowedWithoutAttrs.map hexKey)) ++
  " noattrsm=" ++ String.intercalate "," (p.setOfElementsMatchingAllowedWithoutAttrs.map nm) ++
  " skip=" ++ String.intercalate "," (sortStrings (p.setOfElementsToSkipContent.map hexKey))

def dumpPolicy (p : Policy) : String := dumpPolicyWith nameById p

/-- the shipped policies by protocol name -/
def shippedPolicy (name : String) : Option Policy :=
  match name with
  | "@STRICT" => some strictPolicy
  | "@UGC" => some Gen.ugcPolicy
  | "@CMDUGC" => some Gen.cmdUgcPolicy
  | "@CMDEMAIL" => some Gen.cmdHtmlEmailPolicy
  | _ => none

end BM.Driver
