#!/usr/bin/env python3
"""tools/repin.py — rewrites lean/BM/Props/SrcPin/Cxx.lean from the *reviewed* state of /repo.

The extractor fingerprints every declaration of the package on every run (BM/Gen/SrcPins.lean).
This tool records, per property, the fingerprints of the units of source that property's model
and proofs were written against (the attribution table below), as a committed Lean statement
that `decide` re-checks against the regenerated list.  Run it only after the model has been
brought in line with an intended change of /repo (a `fix:` commit, a new hook)."""
import os, re, subprocess, sys
ROOT = os.path.dirname(os.path.dirname(os.path.abspath(__file__)))
GEN = os.path.join(ROOT, "lean", "BM", "Gen", "SrcPins.lean")
OUT = os.path.join(ROOT, "lean", "BM", "Props", "SrcPin")

S = "sanitize.go/func/"
A = re.escape(S + "*Policy.sanitizeAttrs/")
L = re.escape(S + "*Policy.sanitize/")
TABLE = [
    (re.escape(S) + r"\*Policy\.(Sanitize|SanitizeBytes|SanitizeReader|SanitizeReaderToWriter|sanitizeWithBuff)$", "C01 C02 C03 C04 C05 C06 C07 C08 C09 C10 C11 C12 C14 C15 C16 C20"),
    (r"sanitize\.go/(func/\*asStringWriter\.WriteString|type/asStringWriter|type/stringWriterWriter)$", "C15 C16"),
    (L + r"around-switch$", "C01 C02 C04 C05 C06 C07 C08 C09 C14 C15 C16"),
    (L + r"case:html\.DoctypeToken$", "C01"),
    (L + r"case:html\.CommentToken$", "C01 C05 C06 C08 C09 C16"),
    (L + r"case:html\.StartTagToken$", "C01 C02 C04 C05 C06 C07 C08 C09 C14"),
    (L + r"case:html\.EndTagToken$", "C01 C04 C05 C06 C07 C08 C09 C14"),
    (L + r"case:html\.SelfClosingTagToken$", "C01 C02 C04 C05 C06 C07 C08 C09 C14"),
    (L + r"case:html\.TextToken$", "C04 C05 C06 C08"),
    (L + r"case:default$", "C14"),
    (A + r"(signature|if:len\(attrs\) == 0|return)$", "C02 C04"),
    (A + r"(assign:hasStylePolicies|assign:sps|if:len\(p\.globalStyles\).*|if:!hasStylePolicies)$", "C02 C10"),
    (A + r"assign:cleanAttrs$", "C02 C04"),
    (A + r"label:attrsLoop$", "C02 C04 C07 C10 C13 C14"),
    (A + r"if:len\(cleanAttrs\) == 0$", "C02 C04"),
    (A + r"if:linkable\(elementName\)/if:p\.requireParseableURLs$", "C03 C04 C14 C20"),
    (A + r"if:linkable\(elementName\)/if:\(p\.requireNoFollow.*$", "C11 C20"),
    (A + r"if:p\.requireCrossOriginAnonymous.*$", "C12 C20"),
    (A + r"if:p\.requireSandboxOnIFrame.*$", "C12 C20"),
    (re.escape(S) + r"\*Policy\.sanitizeStyles$", "C10 C13 C14"),
    (re.escape(S) + r"\*Policy\.allowNoAttrs$", "C02 C09 C13"),
    (re.escape(S) + r"\*Policy\.validURL$", "C03 C04 C07 C13 C14 C20"),
    (re.escape(S) + r"linkable$", "C03"),
    (re.escape(S) + r"(hasRelToken|asciiEqualFold)$", "C11 C20"),
    (re.escape(S) + r"isVoidElement$", "C08 C09"),
    (re.escape(S) + r"stringInSlice$", "C10"),
    (re.escape(S) + r"isDataAttribute$", "C02"),
    (re.escape(S) + r"removeUnicode$", "C10 C14"),
    (re.escape(S) + r"\*Policy\.matchRegex$", "C01 C02 C07 C13"),
    (re.escape(S) + r"normaliseElementName$", "C01 C04 C05 C06 C07 C08"),
    (r"sanitize\.go/var/dataAttribute.*$", "C02 C03 C10"),
    (r"sanitize\.go/const/keptTagMarker$", "C09"),
    (r"policy\.go/(func|type|const)/.*$", "C17"),
    (r"policy\.go/type/Policy$", "C13"),
    (r"helpers\.go/func/.*$", "C17"),
    (r"policies\.go/func/.*$", "C17"),
]
INVENTORY = ["C13", "C17"]   # whole-policy properties: no new declaration, no new file
PROPS = ["C%02d" % i for i in range(1, 21)]


def regenerate():
    """BM/Gen is rewritten by every check run, possibly against a tree with an uncommitted change: the pins are
    taken from a fresh translation of the committed tree"""
    env = dict(os.environ, GOFLAGS="-mod=mod", GOPROXY="off", GOSUMDB="off", GOTOOLCHAIN="local")
    root = os.path.dirname(os.path.dirname(os.path.abspath(__file__)))
    exe = os.path.join(root, "work", "bin", "extract")
    subprocess.run(["go", "build", "-tags", "verif", "-o", exe, "./cmd/extract"], cwd=os.path.join(root, "go"), env=env, check=True)
    gen = os.path.dirname(GEN)
    for f in os.listdir(gen):
        os.remove(os.path.join(gen, f))
    subprocess.run([exe, "-out", gen, "-work", os.path.join(root, "work")], cwd=os.path.join(root, "go"), env=env, check=True, stdout=subprocess.DEVNULL)


def main():
    dirty = subprocess.run(["git", "-C", "/repo", "status", "--porcelain"], capture_output=True, text=True).stdout.strip()
    if dirty:
        sys.exit("/repo has uncommitted changes: pins are taken from committed states only")
    regenerate()
    src = open(GEN).read()
    src = src.split("def srcState")[0]
    units = re.findall(r'^  \("((?:[^"\\]|\\.)*)", "([0-9a-f]+)"\),?$', src, re.M)
    if not units:
        sys.exit("no units in " + GEN)
    commit = subprocess.run(["git", "-C", "/repo", "rev-parse", "--short", "HEAD"], capture_output=True, text=True).stdout.strip()
    dirty = subprocess.run(["git", "-C", "/repo", "status", "--porcelain"], capture_output=True, text=True).stdout.strip()
    if dirty:
        sys.exit("/repo has uncommitted changes: pins are taken from committed states only")
    os.makedirs(OUT, exist_ok=True)
    per = {p: [] for p in PROPS}
    unattributed = []
    for name, h in units:
        raw = name.encode().decode("unicode_escape")
        hit = False
        for rx, props in TABLE:
            if re.match(rx, raw):
                hit = True
                for p in props.split():
                    if (name, h) not in per[p]:
                        per[p].append((name, h))
        if not hit:
            unattributed.append(raw)
    for p in PROPS:
        lines = ["import BM.Gen.SrcPins",
                 "/- WRITTEN by tools/repin.py from /repo at %s (committed; re-checked against the regenerated" % commit,
                 "   BM/Gen/SrcPins.lean on every run).  The units of source the model and the proofs of %s were" % p,
                 "   written against: a change to one of them breaks `%s_source_pin`, and with it the obligations of" % p,
                 "   this property only. -/",
                 "namespace BM.Props", "",
                 "def %s_units : List (String × String) := [" % p]
        lines += ["  (\"%s\", \"%s\")%s" % (n, h, "," if i < len(per[p]) - 1 else "") for i, (n, h) in enumerate(per[p])]
        lines += ["]", "",
                  "set_option maxRecDepth 100000 in",
                  "theorem %s_source_pin : %s_units.all (fun u => BM.Gen.srcPins.contains u) = true := by decide" % (p, p)]
        if p in INVENTORY:
            state = [(n, h) for (n, h) in units if "/func/" not in n]
            lines += ["", "/-- the package-level variables, constants and types of the package (functions are not state): a new",
                      "    package-level variable — a cache, a pool, a shared default table, a sync.Once — or a changed one is a",
                      "    change to what a policy can share with other policies or remember between calls -/",
                      "def %s_inventory : List (String × String) := [" % p]
            lines += ["  (\"%s\", \"%s\")%s" % (n, h, "," if i < len(state) - 1 else "") for i, (n, h) in enumerate(state)]
            lines += ["]", "", "set_option maxRecDepth 100000 in",
                      "theorem %s_inventory_pin : BM.Gen.srcState = %s_inventory := by decide" % (p, p)]
        lines += ["", "end BM.Props", ""]
        open(os.path.join(OUT, p + ".lean"), "w").write("\n".join(lines))
    print("pins written for", commit, {p: len(per[p]) for p in PROPS})
    print("units attributed to no property (covered by the inventory only):", unattributed)


if __name__ == "__main__":
    main()
