#!/bin/sh
# tools/seedtest.sh <patch> <prop> [<prop>…] : apply a seeded change to /repo, run the listed
# quick checks, undo the change.  Prints one line per check.
patch="$1"; shift
cd /repo || exit 2
git diff --quiet || { echo "repo dirty"; exit 2; }
git apply "$patch" || { echo "patch does not apply"; exit 2; }
for p in "$@"; do
  out=$(cd /verif && ./check "$p" quick 2>&1 | grep -E "VIOLATION|KNOWN|OK property" | tr '\n' ' ')
  echo "$p: $out"
done
git -C /repo checkout -- .
