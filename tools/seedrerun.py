#!/usr/bin/env python3
"""tools/seedrerun.py [<seed_id>…]   (default: every directory of /verif/seeded)

Regression run over the kept seeded changes: applies seeded/<id>/patch.diff to REPO_ROOT (a
scratch clone of /repo, never /repo itself unless REPO_ROOT is unset), runs the property's own
quick check in VERIF_ROOT, reverts, and refreshes the entry of that check in meta.json."""
import json, os, subprocess, sys, glob
REPO = os.environ.get("REPO_ROOT", "/repo")
VERIF = os.environ.get("VERIF_ROOT", "/verif")
ENV = dict(os.environ, GOFLAGS="-mod=mod", GOPROXY="off", GOSUMDB="off", GOTOOLCHAIN="local")

def sh(cmd, cwd=None):
    p = subprocess.run(cmd, shell=True, cwd=cwd, env=ENV, stdout=subprocess.PIPE, stderr=subprocess.STDOUT, text=True)
    return p.returncode, p.stdout

ids = sys.argv[1:] or sorted(os.path.basename(os.path.dirname(p)) for p in glob.glob("/verif/seeded/*/meta.json"))
for sid in ids:
    d = os.path.join("/verif/seeded", sid)
    meta = json.load(open(os.path.join(d, "meta.json")))
    prop = meta["breaks_property"]
    rc, _ = sh("git diff --quiet", REPO)
    assert rc == 0, REPO + " dirty"
    rc, out = sh("git apply %s" % os.path.join(d, "patch.diff"), REPO)
    if rc != 0:
        print(sid, "PATCH DOES NOT APPLY", out[-200:]); continue
    try:
        rc, out = sh("./check %s quick" % prop, VERIF)
    finally:
        sh("git checkout -- .", REPO)
        sh("git checkout -- evidence", VERIF)
    line = " ".join(l for l in out.split("\n") if l.startswith(("VIOLATION", "OK ", "KNOWN")))
    res = {"exit": rc, "line": line}
    for w in line.split():
        if w.startswith("replay="):
            try:
                r = json.load(open(w[7:]))
                res["replay_case"] = (r.get("replay") or {}).get("case")
                res["kind"] = r.get("kind")
            except Exception:
                pass
    meta.setdefault("checks_against_change", {})[prop] = res
    rs = meta["checks_against_change"]
    meta["detected_by"] = sorted(c for c, r in rs.items() if r["exit"] != 0)
    meta["detected_with_concrete_input"] = sorted(c for c, r in rs.items() if r["exit"] != 0 and "no-failing-input-found" not in r["line"])
    json.dump(meta, open(os.path.join(d, "meta.json"), "w"), indent=1)
    print(sid, prop, "missed" if rc == 0 else ("DETECTED (no input)" if "no-failing-input-found" in line else "DETECTED with input"), flush=True)
print("ALLDONE")
