#!/usr/bin/env python3
"""tools/seedtable.py : rewrites seeded/README.md from the meta.json files."""
import json, os
ROOT = os.path.join(os.path.dirname(os.path.abspath(__file__)), "..", "seeded")
rows = []
for d in sorted(os.listdir(ROOT)):
    m = os.path.join(ROOT, d, "meta.json")
    if not os.path.exists(m):
        continue
    meta = json.load(open(m))
    if not meta.get("confirmed"):
        continue
    own = meta["breaks_property"]
    res = meta.get("checks_against_change", {})
    def word(r):
        if r["exit"] == 0:
            return "missed"
        return "violation, no failing input" if "no-failing-input-found" in r["line"] else "violation with replay input"
    ownw = word(res[own]) if own in res else "not run"
    others = "; ".join("%s: %s" % (k, word(v)) for k, v in sorted(res.items()) if k != own)
    first = ""
    notes = meta.get("needs_to_manifest", "")
    for line in notes.split("\n"):
        line = line.strip("# ").strip()
        if line:
            first = line[:110]
            break
    rows.append((d, own, ownw, others, first))
with open(os.path.join(ROOT, "README.md"), "w") as fh:
    fh.write("""# Seeded changes

Each directory holds one change to microcosm-cc/bluemonday written by an independent sub-agent that was given only the
text of a property and a scratch worktree: `patch.diff` (applies to /repo with `git apply`), `demo_test.go.txt` (a test that
fails with the change and passes without it), `notes.md` (what it needs in order to manifest), `meta.json` (what was run to
confirm it — applies, builds, suite passes, demonstration fails/passes — and what the checks reported with the change applied).
None of them is ever committed to /repo.  `tools/seedkeep.py` re-runs the confirmation and the checks; `tools/seedtable.py`
rewrites this table.  Directories without a prefix are batch 1, `b2-` batch 2 (two changes per property).

| seeded change | breaks | the property's own check | other checks run against it | what it is |
|---|---|---|---|---|
""")
    for r in rows:
        fh.write("| %s | %s | %s | %s | %s |\n" % r)
    n = len(rows)
    own_in = sum(1 for r in rows if r[2] == "violation with replay input")
    own_no = sum(1 for r in rows if r[2] == "violation, no failing input")
    own_miss = sum(1 for r in rows if r[2] == "missed")
    any_det = sum(1 for r in rows if r[2] != "missed" or "violation" in r[3])
    fh.write("\n%d confirmed changes: the property's own check reports %d with a concrete replay input, %d without one, misses %d; "
             "%d are reported by at least one check.\n" % (n, own_in, own_no, own_miss, any_det))
    extra = os.path.join(ROOT, "NOTES.md")
    if os.path.exists(extra):
        fh.write("\n" + open(extra).read())
print(len(rows), "rows")
