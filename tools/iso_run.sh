#!/bin/bash
# tools/iso_run.sh <command…> : runs a command in a private mount namespace in which /repo is a scratch
# copy of /repo (cp -a into $PWD/repo_copy), so that seeded changes can be applied and checked without
# touching the real /repo.  Used from a `vp run` snapshot of /verif (VERIF_ROOT = $PWD).
set -e
export VERIF_ROOT="$PWD"
rm -rf "$PWD/repo_copy"
cp -a /repo "$PWD/repo_copy"
git -C "$PWD/repo_copy" checkout -q -- . 
exec unshare -m bash -c "mount --bind '$PWD/repo_copy' /repo && cd '$PWD' && ./setup.sh > setup.log 2>&1 && $*"
