#!/bin/sh
# tools/runall.sh [quick|thorough]: every check once on /repo's working tree; one line per result
tier=${1:-quick}
cd "$(dirname "$0")/.."
for p in C01 C02 C03 C04 C05 C06 C07 C08 C09 C10 C11 C12 C13 C14 C15 C16 C17 C18 C19 C20; do
  ./check $p $tier 2>&1 | grep -E "^(OK|VIOLATION|KNOWN)" | cut -c1-150
done
