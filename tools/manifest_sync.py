#!/usr/bin/env python3
"""Rewrites the level_claimed.text / level_note of every check in MANIFEST.json from
checks_config.py (module, theorem list, status, assumptions), so the manifest never lags
behind what ./check audits.  Run after editing checks_config.py; validates against the schema."""
import json, os, sys
ROOT = os.environ.get("VERIF_ROOT", os.path.dirname(os.path.dirname(os.path.abspath(__file__))))
sys.path.insert(0, ROOT)
import checks_config as cc

NOTE = ("Trusted: Lean kernel; axioms propext/Classical.choice/Quot.sound only; the statements in BM/Spec and "
        "BM/Props; the translator and the harness/driver; hand-written models of x/net/html tokenizer, net/url, "
        "gorilla/css+douceur (validated by correspondence only). ")

def main():
    path = os.path.join(ROOT, "MANIFEST.json")
    m = json.load(open(path))
    for c in m["checks"]:
        pid = c["property_id"]
        cfg = cc.PROPS[pid]
        mod = cfg["module"].replace(".", "/") + ".lean"
        names = ", ".join(t.split(".")[-1] for t in cfg["theorems"])
        c["level_claimed"]["text"] = (
            "Lean 4 theorems about a formal model of bluemonday (%s: %s), the model tied to /repo on every run by "
            "regenerated facts (go/cmd/extract -> BM/Gen) and by a correspondence run of the real code against the "
            "model, with the property's spec-side oracle evaluated on the implementation's output for every case. "
            "Status: %s" % (mod, names, cfg["status"]))
        c["level_note"] = NOTE + "; ".join(cfg.get("assumptions", []))
    json.dump(m, open(path, "w"), indent=1, ensure_ascii=False)
    open(path, "a").write("\n")
    try:
        import jsonschema
        jsonschema.validate(m, json.load(open("/root/.vp/MANIFEST.schema.json")))
        print("MANIFEST.json valid,", len(m["checks"]), "checks")
    except ImportError:
        print("jsonschema not available; not validated")

if __name__ == "__main__":
    main()
