#!/usr/bin/env python3
"""tools/seedkeep.py <agent_dir> <i> <seed_id> <breaks_prop> <check_prop> [<check_prop>…]

Confirms a seeded change in a scratch worktree (applies, builds, suite passes, demonstration
fails with it and passes without it), runs the listed checks against /repo with the change
applied, undoes it, and files everything under /verif/seeded/<seed_id>/."""
import json, os, shutil, subprocess, sys, tempfile
REPO = os.environ.get("REPO_ROOT", "/repo")

ENV = dict(os.environ, GOFLAGS="-mod=mod", GOPROXY="off", GOSUMDB="off", GOTOOLCHAIN="local")

def sh(cmd, cwd=None):
    p = subprocess.run(cmd, shell=True, cwd=cwd, env=ENV, stdout=subprocess.PIPE, stderr=subprocess.STDOUT, text=True)
    return p.returncode, p.stdout

agent_dir, i, seed_id, breaks = sys.argv[1:5]
checks = sys.argv[5:]
patch = os.path.join(agent_dir, "patch%s.diff" % i)
demo = os.path.join(agent_dir, "demo%s_test.go.txt" % i)
notes = os.path.join(agent_dir, "notes%s.md" % i)
wt = tempfile.mkdtemp(prefix="seedcheck", dir="/tmp")
os.rmdir(wt)
ran = []
def step(name, cmd, cwd, want_ok):
    rc, out = sh(cmd, cwd)
    ok = (rc == 0) == want_ok
    ran.append({"step": name, "cmd": cmd, "rc": rc, "as_expected": ok, "tail": out[-300:]})
    return ok
good = True
rc, out = sh("git -C %s worktree add -q --detach %s HEAD" % (REPO, wt))
try:
    good &= step("demo passes on unchanged tree", "cp %s demo_seed_test.go && go test -count=1 -run TestSeeded . ; rc=$?; rm -f demo_seed_test.go; exit $rc" % demo, wt, True)
    good &= step("patch applies", "git apply %s" % patch, wt, True)
    good &= step("builds (also with -tags verif)", "go build ./... && go build -tags verif ./...", wt, True)
    good &= step("existing suite passes with the change", "go test -vet=off -count=1 ./...", wt, True)
    good &= step("demo fails with the change", "cp %s demo_seed_test.go && go test -count=1 -run TestSeeded . ; rc=$?; rm -f demo_seed_test.go; exit $rc" % demo, wt, False)
finally:
    sh("git -C %s worktree remove --force %s" % (REPO, wt))
results = {}
if good:
    rc, out = sh("git diff --quiet", REPO)
    assert rc == 0, "/repo dirty"
    rc, out = sh("git apply %s" % patch, REPO)
    try:
        for c in checks:
            rc, out = sh("./check %s quick" % c, os.environ.get("VERIF_ROOT", "/verif"))
            line = " ".join(l for l in out.split("\n") if l.startswith(("VIOLATION", "OK ", "KNOWN")))
            results[c] = {"exit": rc, "line": line}
            for w in line.split():
                if w.startswith("replay="):
                    try:
                        d = json.load(open(w[7:]))
                        r = d.get("replay") or {}
                        results[c]["replay_case"] = r.get("case")
                        results[c]["kind"] = d.get("kind")
                    except Exception:
                        pass
    finally:
        sh("git checkout -- .", REPO)
        # evidence written while the change was applied is not evidence about /repo: put the committed files back
        sh("git checkout -- evidence", os.environ.get("VERIF_ROOT", "/verif"))
dst = os.path.join("/verif/seeded", seed_id)
os.makedirs(dst, exist_ok=True)
shutil.copy(patch, os.path.join(dst, "patch.diff"))
shutil.copy(demo, os.path.join(dst, "demo_test.go.txt"))
if os.path.exists(notes):
    shutil.copy(notes, os.path.join(dst, "notes.md"))
meta = {"seed_id": seed_id, "breaks_property": breaks, "confirmed": good,
        "needs_to_manifest": open(notes).read()[:1500] if os.path.exists(notes) else "",
        "what_was_run": ran, "checks_against_change": results,
        "detected_by": sorted(c for c, r in results.items() if r["exit"] != 0),
        "detected_with_concrete_input": sorted(c for c, r in results.items() if r["exit"] != 0 and "no-failing-input-found" not in r["line"])}
json.dump(meta, open(os.path.join(dst, "meta.json"), "w"), indent=1)
print(seed_id, "confirmed" if good else "NOT CONFIRMED",
      {c: ("DETECTED" + (" (no input)" if "no-failing-input-found" in r["line"] else " with input") if r["exit"] != 0 else "missed")
       for c, r in results.items()})
