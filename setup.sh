#!/bin/sh
# Offline setup: build the extractor and the harness from /repo, regenerate BM/Gen, build the
# whole Lean development (model, specs, proofs) and the driver.
set -e
cd "$(dirname "$0")"
export GOFLAGS=-mod=mod GOPROXY=off GOSUMDB=off GOTOOLCHAIN=local
mkdir -p work/bin evidence replays
(cd go && go build -tags verif -o ../work/bin/extract ./cmd/extract && go build -tags verif -o ../work/bin/harness ./cmd/harness)
rm -rf lean/BM/Gen
./work/bin/extract -out "$(pwd)/lean/BM/Gen" -work "$(pwd)/work"
(cd lean && lake build driver BM)
